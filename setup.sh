#!/bin/bash
# Builds the overlay venv /verif/.venv (offline, idempotent): /venv's python 3.12 + its
# site-packages (numpy/scipy/h5py/numba/yaml and the repo in develop mode) + the solver /
# CAS / contract wheels from the offline wheelhouse.
set -e
cd "$(dirname "$0")"
export PIP_NO_INDEX=1
if [ -x .venv/bin/python ] && .venv/bin/python -c "import z3, sympy, jsonschema, icontract, numpy" 2>/dev/null; then
  exit 0
fi
rm -rf .venv
/venv/bin/python -m venv .venv
SP=$(.venv/bin/python -c "import sysconfig; print(sysconfig.get_paths()['purelib'])")
echo "import site; site.addsitedir('/venv/lib/python3.12/site-packages')" > "$SP/_base.pth"
.venv/bin/python -m pip install -q --no-index --find-links /opt/veriftools/wheels z3-solver sympy jsonschema icontract deal cvc5 >/dev/null
.venv/bin/python -c "import z3, sympy, jsonschema, icontract, numpy; print('overlay venv ok', z3.get_version_string(), sympy.__version__, numpy.__version__)"
