#!/usr/bin/env python3
"""mkpatch.py <relfile> <old> <new> > patch.diff : unified diff (git apply-able in /repo) of one textual substitution"""
import sys, difflib
rel, old, new = sys.argv[1:4]
s = open('/repo/' + rel).read()
assert s.count(old) == 1, 'substitution matches %d times' % s.count(old)
t = s.replace(old, new)
sys.stdout.writelines(difflib.unified_diff(s.splitlines(True), t.splitlines(True), 'a/' + rel, 'b/' + rel))
