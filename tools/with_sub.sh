#!/bin/bash
# usage: with_sub.sh <relfile> <old-text> <new-text> <command...>
# Like with_patch.sh, but the change is a single textual substitution (must match exactly once).
set -u
rel="$1"; old="$2"; new="$3"; shift 3
d=$(mktemp -d /root/vf-scratch-XXXXXX)
trap 'rm -rf "$d"' EXIT
rsync -a --exclude='__pycache__' /repo/onsager /repo/test /repo/setup.py "$d"/
python3 - "$d/$rel" "$old" "$new" <<'PY' || exit 9
import sys
p, old, new = sys.argv[1:4]
s = open(p).read()
if s.count(old) != 1:
    print('substitution matches %d times' % s.count(old)); sys.exit(1)
open(p, 'w').write(s.replace(old, new))
PY
VERIF_REPO="$d" PYTHONDONTWRITEBYTECODE=1 "$@"
