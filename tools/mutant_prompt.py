#!/usr/bin/env python3
"""Print the prompt given to a fresh sub-agent that writes a property-breaking change (only the property text
and its own scratch worktree -- nothing from /verif)."""
import json, sys
pid = sys.argv[1]
rnd = sys.argv[2] if len(sys.argv) > 2 else ''
extra = ' At least one of the two changes must NOT be in the function most obviously responsible for the property: put it in a helper, constructor, cache, converter or shared utility that the property depends on indirectly (another module is fine), so that only this property -- not the helper\'s own direct tests -- notices.' if rnd >= 'r4' else ''
wt, out = '/tmp/mut/wt_' + pid + rnd, '/tmp/mut/out_' + pid + rnd
p = next(json.loads(l) for l in open('/verif/properties.jsonl') if json.loads(l)['id'] == pid)
print(f"""You are helping to test a verification effort by writing realistic bugs. You work ONLY inside the scratch git worktree {wt} (a checkout of the Python library DallasTrinkle/Onsager: transport coefficients for interstitial and vacancy-mediated diffusion via crystal symmetry and lattice Green functions) and write your deliverables to {out}/. Do NOT read or touch /repo or /verif, and do not use anything outside the worktree except the Python interpreter.

IMPORTANT environment facts:
- Use the interpreter /venv/bin/python. The package `onsager` is installed in develop mode pointing at ANOTHER checkout, so you MUST run everything with `cd {wt} && PYTHONPATH={wt} /venv/bin/python ...` and confirm once with `PYTHONPATH={wt} /venv/bin/python -c "import onsager; print(onsager.__file__)"` that it prints a path under {wt}.
- No network. numpy 2.x, scipy, h5py, numba, PyYAML are installed.
- Existing tests: `cd {wt} && PYTHONPATH={wt} /venv/bin/python -m pytest -q -p no:cacheprovider test/test_<module>.py`. test/test_PowerExpansion.py cannot be collected (scipy.special.sph_harm is gone) and the two tests named testSampler_Run_jit in test/test_cluster.py fail in the baseline (the test file itself uses np.Inf); ignore those three. Whole files take: test_supercell ~75 s, test_OnsagerCalc ~65 s, test_crystalStars ~50 s, the others < 25 s.

The property (a semantic guarantee users rely on):
  Title: {p['title']}
  Statement: {p['statement']}
  Intended scope: {p['quantifier']['text']}

YOUR TASK: produce TWO different, independent changes (mutations) to the library source under {wt}/onsager/ (not to the tests) such that, for each change separately:
  1. the library still imports, and every existing test in test/ that passed before still passes (run at least every test file that imports or exercises the module(s) you touch; ideally all of them);
  2. the change BREAKS the property above — there is some input / sequence of operations for which the property is false with the change and true without it;
  3. the change is realistic: the kind of slip a maintainer could make in a refactor or "optimisation" (off-by-one, wrong index or sign in a rarely taken branch, a dropped copy or normalisation, a stale cache, a swapped argument, a boundary comparison, an early exit), a few lines, not sabotage that is obvious at a glance, NOT a plain revert of one of the repository's recent commits (do not consult git log for ideas), and NOT something that ordinary use exposes at once. Prefer changes that need something specific to manifest: an unusual but valid input (low symmetry crystal, 2D, several Wyckoff sets, several solutes, a vacancy, an empty list...), a particular multi-step sequence of operations, or two cooperating sites that each look fine alone.{extra}
  4. you provide a demonstration: a small standalone program that exits 0 and prints PASS on the unmodified worktree, and exits 1 and prints FAIL with the change applied. It should check the property directly (not compare against stored numbers), and run in under 2 minutes.

Work method: read the relevant source first. Make change 1, run tests + demo, save `git diff > {out}/patch1.diff`, then `git checkout -- .` and confirm demo passes again; repeat for change 2 (`patch2.diff`, `demo2.py`; demos may be the same file if it catches both). Deliverables in {out}/: patch1.diff, demo1.py, patch2.diff, demo2.py, and notes.md saying for each change: what it breaks, what is needed for it to manifest, which test files you ran with the change applied and their result. Never use `git stash` (the stash is shared with other worktrees of the same repository); use `git diff > file` and `git checkout -- .` only. Leave the worktree clean (git checkout -- .) at the end. Your final message should summarise the two changes in a few lines each.""")
