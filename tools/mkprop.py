#!/usr/bin/env python3
"""Generate a simple level-B property entry module props/<pid>.py (one worker over the crystal catalogue)."""
import sys
pid, title, modname, worker, group, fq, funcs_rel, funcs, explanation = sys.argv[1:10]
src = f'''"""{pid} -- {title} (run-time contracts, level B)."""
from vf.common import Report, finish, SEED
from vf.rtc import runner, catalogue
from contracts import {modname} as M


def main(tier):
    rep = Report({pid!r}, tier)
    n = len(catalogue.builders(tier, SEED))
    runner.run(rep, {group!r}, M.{worker}, [(i, tier, SEED) for i in range(n)], {fq!r})
    from vf import extract
    for q in {funcs.split(',')!r}:
        try:
            f = extract.get({funcs_rel!r}, q); rep.under_contract({funcs_rel!r} + '::' + q, {funcs_rel!r}, f.l0, f.l1)
        except KeyError: pass
    M.annotate_{pid}(rep)
    return finish(rep, 'exploration', {explanation!r}, './check {pid} --tier ' + tier)
'''
open('/verif/props/%s.py' % pid, 'w').write(src)
