#!/usr/bin/env python3
"""For every recorded fix: apply its revert to a scratch copy of /repo and run the property's quick check; report whether the defect is reported again."""
import json, subprocess, sys, os
V = '/verif'
k = json.load(open(V + '/known_findings.json'))
only = sys.argv[1:]
for f in k['fixed']:
    if only and f['commit'] not in only and f['property'] not in only: continue
    diff = '%s/seeded/fixes/revert_%s.diff' % (V, f['commit'])
    if not os.path.exists(diff): print(f['commit'], f['property'], 'NO REVERT DIFF'); continue
    r = subprocess.run([V + '/tools/with_patch.sh', diff, V + '/check', f['property']], capture_output=True, text=True)
    last = [l for l in r.stdout.splitlines() if l.startswith(f['property'] + ' ')]
    print(f['commit'], f['property'], 'DETECTED' if 'exit=1' in (last[-1] if last else '') else 'MISSED', (last[-1] if last else r.stdout[-200:] + r.stderr[-200:])[:140], flush=True)
