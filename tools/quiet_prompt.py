#!/usr/bin/env python3
"""Print the prompt given to a fresh sub-agent that writes BEHAVIOUR-PRESERVING changes (refactorings) of the functions a property
depends on: the checks must stay quiet on them (only the property text and its own scratch worktree -- nothing from /verif)."""
import json, sys
pid = sys.argv[1]
wt, out = '/tmp/mut/wt_' + pid + 'q', '/tmp/mut/out_' + pid + 'q'
p = next(json.loads(l) for l in open('/verif/properties.jsonl') if json.loads(l)['id'] == pid)
print(f"""You are helping to test a verification effort: its checks must NOT raise an alarm on correct code. You work ONLY inside the scratch git worktree {wt} (a checkout of the Python library DallasTrinkle/Onsager: transport coefficients for interstitial and vacancy-mediated diffusion via crystal symmetry and lattice Green functions) and write your deliverables to {out}/. Do NOT read or touch /repo or /verif, and do not use anything outside the worktree except the Python interpreter.

IMPORTANT environment facts:
- Use the interpreter /venv/bin/python. The package `onsager` is installed in develop mode pointing at ANOTHER checkout, so you MUST run everything with `cd {wt} && PYTHONPATH={wt} /venv/bin/python ...` and confirm once with `PYTHONPATH={wt} /venv/bin/python -c "import onsager; print(onsager.__file__)"` that it prints a path under {wt}.
- No network. numpy 2.x, scipy, h5py, numba, PyYAML are installed.
- Existing tests: `cd {wt} && PYTHONPATH={wt} /venv/bin/python -m pytest -q -p no:cacheprovider test/test_<module>.py`. test/test_PowerExpansion.py cannot be collected (scipy.special.sph_harm is gone) and the two tests named testSampler_Run_jit in test/test_cluster.py fail in the baseline; ignore those three. Whole files take: test_supercell ~75 s, test_OnsagerCalc ~65 s, test_crystalStars ~50 s, the others < 25 s.

The property (a semantic guarantee users rely on):
  Title: {p['title']}
  Statement: {p['statement']}
  Intended scope: {p['quantifier']['text']}

YOUR TASK: produce THREE different, independent changes to the library source under {wt}/onsager/ (not to the tests), each of which a maintainer could plausibly commit and each of which PRESERVES the property and the observable behaviour of the library exactly (same results, same exceptions, same side effects on arguments and object state, bit-for-bit where numbers are concerned or differing only in the last bits if you reorder a floating-point sum). The changes must touch the functions that implement this property (read the source to find them; include at least one helper they call). Make them the kinds of edits real maintenance produces:
  - change 1, "cosmetic": rename local variables, reflow / reorder independent statements, add comments, replace a comprehension by an equivalent loop or vice versa, replace `len(x) == 0` by `not x` where equivalent, introduce a well-named temporary;
  - change 2, "restructuring": hoist a repeated sub-expression out of a loop, split a long function by extracting a private helper (or inline a tiny helper), turn an if/elif chain into early returns, use enumerate/zip instead of index arithmetic, replace manual accumulation by sum()/np.dot where exactly equivalent;
  - change 3, "defensive / performance": add an explicit copy where an array was already private, add an assertion or an argument check that never fires on valid input, cache a value in a local, pre-allocate an array, use a set for a membership test -- without changing any result or any aliasing visible to callers.
Each change should modify at least 10 lines. For each change separately: the library still imports, every existing test that passed before still passes (run every test file that exercises the modules you touch), and a small standalone demo program, which exercises the property and ALSO compares a few representative outputs against values it prints from the unmodified worktree (run it once before the change to record them, e.g. into a json file in {out}/), prints PASS and exits 0 both before and after the change.

Work method: read the relevant source first. Make change 1, run tests + demo, save `git diff > {out}/quiet1.diff`, then `git checkout -- .`; repeat for changes 2 and 3 (`quiet2.diff`, `quiet3.diff`). Deliverables in {out}/: quiet1.diff, quiet2.diff, quiet3.diff, demo.py, and notes.md saying for each change what it does, why behaviour is preserved, and which test files you ran with it. Never use `git stash`; use `git diff > file` and `git checkout -- .` only. Leave the worktree clean at the end. Your final message should summarise the three changes in two lines each.""")
