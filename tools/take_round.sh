#!/bin/bash
# usage: take_round.sh <Cxx> <round-suffix e.g. r3> <offset e.g. 2>
# copies /tmp/mut/out_<Cxx><round>/patch{1,2}.diff + demo{1,2}.py to seeded/pending/<Cxx>/ as numbers offset+1, offset+2 and
# validates them (demo flips, baseline tests, our check) into seeded/<Cxx>-m<k>/ ; removes the scratch worktree
cd /verif
p=$1; r=$2; off=${3:-2}
src=/tmp/mut/out_$p$r
mkdir -p seeded/pending/$p
for i in 1 2; do
  k=$((off+i))
  [ -f $src/patch$i.diff ] || continue
  cp $src/patch$i.diff seeded/pending/$p/patch$k.diff
  cp $src/demo$i.py seeded/pending/$p/demo$k.py
done
[ -f $src/notes.md ] && cp $src/notes.md seeded/pending/$p/notes_$r.md
git -C /repo worktree remove --force /tmp/mut/wt_$p$r 2>/dev/null
for i in 1 2; do
  k=$((off+i))
  [ -f seeded/pending/$p/patch$k.diff ] || continue
  .venv/bin/python tools/validate_mutant.py $p seeded/pending/$p/patch$k.diff seeded/pending/$p/demo$k.py $p-m$k --what "see seeded/pending/$p/notes_$r.md (change $i)" 2>&1 | tail -1
done
