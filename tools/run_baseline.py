#!/usr/bin/env python3
"""Run the repository's pinned test suite (one pytest process per test file, in parallel) in a
given checkout and compare with /root/.vp/BASELINE.json's stable_pass list.
usage: run_baseline.py [repo_dir] [-j N] [--only test_file ...]
exit 0 iff every stable_pass test that was run passed."""
import sys, os, json, subprocess, tempfile, glob, xml.etree.ElementTree as ET, concurrent.futures as cf, time, argparse
ap = argparse.ArgumentParser()
ap.add_argument('repo', nargs='?', default='/repo')
ap.add_argument('-j', type=int, default=8)
ap.add_argument('--only', nargs='*', default=None)
a = ap.parse_args()
base = json.load(open('/root/.vp/BASELINE.json'))
stable = set(base['stable_pass'])
files = sorted(glob.glob(os.path.join(a.repo, 'test', 'test_*.py')))
if a.only: files = [f for f in files if any(o in f for o in a.only)]
tmp = tempfile.mkdtemp(prefix='bl', dir='/root')
def run(f):
    x = os.path.join(tmp, os.path.basename(f) + '.xml')
    env = dict(os.environ, PYTHONPATH=a.repo, PYTHONDONTWRITEBYTECODE='1')
    t = time.time()
    p = subprocess.run(['/venv/bin/python', '-m', 'pytest', '-q', '-p', 'no:cacheprovider', '--timeout=1800',
                        '--junitxml=' + x, os.path.relpath(f, a.repo)], cwd=a.repo, env=env,
                       stdout=subprocess.PIPE, stderr=subprocess.STDOUT, text=True)
    return f, x, time.time() - t, p.stdout[-400:]
res = {}
with cf.ThreadPoolExecutor(a.j) as ex:
    for f, x, dt, tail in ex.map(run, files):
        print(f'{os.path.basename(f)}: {dt:.0f}s  {tail.strip().splitlines()[-1] if tail.strip() else ""}', flush=True)
        if not os.path.exists(x): continue
        for tc in ET.parse(x).getroot().iter('testcase'):
            name = tc.get('classname') + '::' + tc.get('name')
            ok = not any(ch.tag in ('failure', 'error', 'skipped') for ch in tc)
            res[name] = ok
subprocess.run(['rm', '-rf', tmp])
mods = {os.path.basename(f)[:-3] for f in files}
expected = {s for s in stable if s.split('.')[1].split('::')[0].split('.')[0] in mods or s.split('::')[0].split('.')[1] in mods}
bad = sorted(s for s in expected if not res.get(s, False))
print(f'stable expected {len(expected)} passed {len(expected) - len(bad)} failed/missing {len(bad)}')
for b in bad: print('  FAIL', b)
extra = sorted(k for k, v in res.items() if v and k not in stable)
if extra: print('  now passing beyond baseline:', extra)
sys.exit(1 if bad else 0)
