#!/usr/bin/env python3
"""Regenerate the measured tables of DESIGN.md (between the STATUS-TABLES markers) from evidence/, seeded/ and known_findings.json."""
import json, glob, os, re, sys
V = '/verif'
sys.path.insert(0, V)
from props.claims import CLAIMS, NOT_APPLICABLE
props = {json.loads(l)['id']: json.loads(l) for l in open(V + '/properties.jsonl')}
out = []
out.append('| id | title | decided at | obligations discharged (quick) | B groups / evaluations | quick wall | functions under contract |')
out.append('|---|---|---|---|---|---|---|')
for pid in sorted(props):
    t = props[pid]['title']
    if pid in NOT_APPLICABLE:
        out.append('| %s | %s | **N/A** | – | – | – | – |' % (pid, t)); continue
    f = '%s/evidence/%s.json' % (V, pid)
    if not os.path.exists(f): out.append('| %s | %s | (no evidence) | | | | |' % (pid, t)); continue
    e = json.load(open(f)); c = e['coverage']
    P, Pd = c.get('proved_obligations_P', 0), c.get('proved_discharged_P', 0)
    S, Sd = c.get('symbolic_bounded_obligations_S', 0), c.get('symbolic_bounded_discharged_S', 0)
    B, Bd = c.get('bounded_contract_groups_B', 0), c.get('bounded_contract_groups_held_B', 0)
    lv = '+'.join(x for x, n in (('P', P), ('S', S), ('B', B)) if n)
    kn = len(c.get('known_findings_reproduced', []) or [])
    out.append('| %s | %s | %s | %s | %d/%d / %d%s | %.0f s | %d |' % (pid, t, lv, ('P %d/%d' % (Pd, P) if P else '') + (' S %d/%d' % (Sd, S) if S else '') or '–', Bd, B, c.get('evaluations', 0),
               ' (%d known finding%s)' % (kn, 's' if kn > 1 else '') if kn else '', e['wall_s'], len(c.get('functions_under_contract', []))))
out.append('')
out.append('Seeded property-breaking changes (each written by a sub-agent from the property text alone, confirmed by `tools/validate_mutant.py`):')
out.append('')
out.append('| change | property | round | confirmed (demo flips, 291 tests still pass) | reported by `./check <id>` (quick) | first violated obligation |')
out.append('|---|---|---|---|---|---|')
for d in sorted(glob.glob(V + '/seeded/C*-m[0-9]')):
    m = json.load(open(d + '/meta.json'))
    vl = m['ran'].get('check_with_patch', {}).get('violation_lines', [])
    ob = re.sub(r'.*obligation=', '', vl[0])[:110] if vl else ''
    k = int(os.path.basename(d).split('-m')[1]); rnd = 1 + (k - 1) // 2 if k <= 2 else 2 + (k - 1) // 2
    out.append('| %s | %s | %s | %s | %s | `%s` |' % (os.path.basename(d), m['property'], {1: '1-2', 3: '3', 4: '4'}.get(rnd, rnd), 'yes' if m.get('confirmed') else 'NO', 'yes' if m.get('detected_by_check') else '**no**', ob))
txt = '\n'.join(out)
p = V + '/DESIGN.md'; s = open(p).read()
a, b = '<!-- STATUS-TABLES:BEGIN -->', '<!-- STATUS-TABLES:END -->'
if a in s:
    s = s[:s.index(a) + len(a)] + '\n' + txt + '\n' + s[s.index(b):]
    open(p, 'w').write(s); print('DESIGN.md tables regenerated')
else:
    print(txt)
