#!/usr/bin/env python3
"""Consistency of MANIFEST.json and evidence/: every claimed property has an evidence file that validates against
the evidence schema, names the same property, and carries the level MANIFEST.json claims; a proof-level record has
obligations == discharged >= 1.  usage: tools/check_evidence.py [tier]   exit 0 = consistent"""
import json, os, sys
import jsonschema
V = os.path.dirname(os.path.dirname(os.path.abspath(__file__)))
sp = '/root/.vp/EVIDENCE.schema.json'
schema = json.load(open(sp if os.path.exists(sp) else os.path.join(V, 'vf', 'EVIDENCE.schema.json')))
tier = sys.argv[1] if len(sys.argv) > 1 else None
bad = 0
for c in json.load(open(os.path.join(V, 'MANIFEST.json')))['checks']:
    pid, cat = c['property_id'], c['level_claimed']['category']
    path = os.path.join(V, 'evidence', pid + '.json')
    msgs = []
    if not os.path.exists(path):
        msgs.append('no evidence file')
    else:
        ev = json.load(open(path))
        try: jsonschema.validate(ev, schema)
        except jsonschema.ValidationError as e: msgs.append('schema: ' + e.message[:200])
        if ev.get('property_id') != pid: msgs.append('property_id %r' % ev.get('property_id'))
        if ev.get('level') != cat: msgs.append('level %r but MANIFEST claims %r' % (ev.get('level'), cat))
        if tier and ev.get('tier') != tier: msgs.append('tier %r, expected %r' % (ev.get('tier'), tier))
        cov = ev.get('coverage', {})
        if cat == 'proof' and not (cov.get('obligations', 0) >= 1 and cov.get('obligations') == cov.get('discharged')):
            msgs.append('proof-level record with obligations=%r discharged=%r' % (cov.get('obligations'), cov.get('discharged')))
        if ev.get('violations'): msgs.append('violations=%r' % ev['violations'])
    if msgs:
        bad += 1
        print('EVIDENCE-PROBLEM %s: %s' % (pid, '; '.join(msgs)))
print('evidence consistent with MANIFEST.json for %d checks' % len(json.load(open(os.path.join(V, 'MANIFEST.json')))['checks']) if not bad else '%d problems' % bad)
sys.exit(1 if bad else 0)
