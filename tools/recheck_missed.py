#!/usr/bin/env python3
"""Re-run the property's quick check against every seeded change whose meta.json says it was missed (or all with --all);
updates meta.json (`detected_by_check`, `check_with_patch`).  Scratch copies live outside /repo and /verif."""
import json, glob, os, subprocess, sys
V = '/verif'
todo = []
for m in sorted(glob.glob(V + '/seeded/C*-m*/meta.json')):
    d = json.load(open(m))
    if '--all' in sys.argv or not d.get('detected_by_check'): todo.append((m, d))
for m, d in todo:
    name = os.path.basename(os.path.dirname(m)); pid = d['property']
    r = subprocess.run([V + '/tools/with_patch.sh', os.path.dirname(m) + '/patch.diff', V + '/check', pid], capture_output=True, text=True)
    viol = [l[:300] for l in r.stdout.splitlines() if l.startswith('VIOLATION')][:4]
    summ = [l for l in r.stdout.splitlines() if l.startswith(pid + ' ')]
    det = bool(summ) and 'exit=1' in summ[-1]
    d['ran']['check_with_patch'] = {'exit': 1 if det else 0, 'violation_lines': viol, 'summary': summ[-1][:300] if summ else ''}
    d['detected_by_check'] = det
    json.dump(d, open(m, 'w'), indent=1)
    print(name, 'detected' if det else 'MISSED', (viol[0].split('obligation=')[-1][:120] if viol else ''), flush=True)
