#!/bin/bash
# usage: take_quiet.sh <Cxx>: validates /tmp/mut/out_<Cxx>q/quiet{1,2,3}.diff into seeded/quiet/<Cxx>-q<k>/ and removes the worktree
cd /verif
p=$1; src=/tmp/mut/out_${p}q; export QUIET_REUSE_TESTS=1
git -C /repo worktree remove --force /tmp/mut/wt_${p}q 2>/dev/null
mkdir -p seeded/quiet/pending/$p; cp $src/notes.md seeded/quiet/pending/$p/notes.md 2>/dev/null; cp $src/demo.py seeded/quiet/pending/$p/demo.py 2>/dev/null; cp $src/*.json seeded/quiet/pending/$p/ 2>/dev/null
for k in 1 2 3; do
  [ -f $src/quiet$k.diff ] || continue
  python3 tools/validate_quiet.py $p $src/quiet$k.diff $src/demo.py $p-q$k 2>&1 | tail -1
done
