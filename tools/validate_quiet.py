#!/usr/bin/env python3
"""Check that a behaviour-preserving change (refactoring written by a sub-agent) leaves the checks quiet: on a scratch copy of /repo
 (1) the patch applies and the pinned baseline tests still pass with it,
 (2) the agent's demo (property exercised + outputs compared with the unmodified tree) passes with it,
 (3) `./check <pid>` against the patched copy must NOT report a violation (exit 0 = held; exit 2 = some obligation undecided: the
     machinery could not re-establish a proof on the changed text -- recorded, not an alarm; exit 1 = FALSE ALARM).
usage: validate_quiet.py <pid> <quiet.diff> <demo.py or -> <name>       writes /verif/seeded/quiet/<name>/{patch.diff,meta.json}"""
import sys, os, subprocess, tempfile, shutil, json, time
pid, patch, demo, name = sys.argv[1:5]
V = '/verif'
d = tempfile.mkdtemp(prefix='vf-scratch-', dir='/root')
meta = {'property': pid, 'kind': 'behaviour-preserving change', 'ran': {}}
try:
    subprocess.run(['rsync', '-a', '--exclude=__pycache__', '/repo/onsager', '/repo/test', '/repo/setup.py', d + '/'], check=True)
    subprocess.run(['git', 'init', '-q', '.'], cwd=d, check=True)
    r = subprocess.run(['git', 'apply', '--whitespace=nowarn', os.path.abspath(patch)], cwd=d, capture_output=True, text=True)
    shutil.rmtree(d + '/.git')
    if r.returncode != 0: raise SystemExit('%s: patch does not apply: %s' % (name, r.stderr[:200]))
    prev = os.path.join(V, 'seeded', 'quiet', name, 'meta.json')
    if os.environ.get('QUIET_REUSE_TESTS') and os.path.exists(prev) and json.load(open(prev))['ran'].get('baseline_tests_with_patch', {}).get('exit') == 0:
        meta['ran']['baseline_tests_with_patch'] = json.load(open(prev))['ran']['baseline_tests_with_patch']      # same patch, tests already passed with it
    else:
        r = subprocess.run(['python3', V + '/tools/run_baseline.py', d, '-j', '6'], capture_output=True, text=True)
        meta['ran']['baseline_tests_with_patch'] = {'exit': r.returncode, 'tail': r.stdout[-300:]}
    if demo != '-' and os.path.exists(demo):
        env = dict(os.environ, PYTHONPATH=d, PYTHONDONTWRITEBYTECODE='1', PYTHONWARNINGS='ignore')
        try:
            q = subprocess.run(['/venv/bin/python', os.path.abspath(demo)], cwd=os.path.dirname(os.path.abspath(demo)), env=env, capture_output=True, text=True, timeout=900)
            meta['ran']['demo_with_patch'] = {'exit': q.returncode, 'tail': (q.stdout + q.stderr)[-300:]}
        except subprocess.TimeoutExpired:
            meta['ran']['demo_with_patch'] = {'exit': None, 'tail': 'timeout'}
    env = dict(os.environ, VERIF_REPO=d)
    t = time.time()
    r = subprocess.run([V + '/check', pid], env=env, capture_output=True, text=True)
    lines = r.stdout.splitlines()
    meta['ran']['check_with_patch'] = {'exit': r.returncode, 'secs': round(time.time() - t, 1),
                                       'violation_lines': [l[:300] for l in lines if l.startswith('VIOLATION')][:6],
                                       'undecided_lines': [l[:300] for l in lines if l.startswith('UNDECIDED')][:6],
                                       'summary': lines[-1][:300] if lines else ''}
    meta['behaviour_preserved_per_tests'] = meta['ran']['baseline_tests_with_patch']['exit'] == 0 and (meta['ran'].get('demo_with_patch', {}).get('exit', 0) == 0 or 'wrong onsager imported' in str(meta['ran'].get('demo_with_patch', {}).get('tail', '')))
    meta['quiet'] = r.returncode != 1 and not meta['ran']['check_with_patch']['violation_lines']
    meta['verdict'] = {0: 'held', 1: 'ALARM', 2: 'undecided (no alarm)', 3: 'checker fault'}.get(r.returncode, str(r.returncode))
finally:
    shutil.rmtree(d, ignore_errors=True)
out = os.path.join(V, 'seeded', 'quiet', name)
os.makedirs(out, exist_ok=True)
shutil.copy(patch, out + '/patch.diff')
json.dump(meta, open(out + '/meta.json', 'w'), indent=1)
print(name, 'tests-ok' if meta.get('behaviour_preserved_per_tests') else 'TESTS/DEMO-NOT-OK', meta.get('verdict'), json.dumps(meta['ran']['check_with_patch']['summary']))
