#!/usr/bin/env python3
"""Confirm a candidate property-breaking change: on a scratch copy of /repo (outside /repo and /verif)
 (1) the demonstration passes on the unchanged tree and fails with the patch,
 (2) the pinned baseline tests still pass with the patch,
 (3) optionally run our check for the property against the patched copy.
usage: validate_mutant.py <pid> <patch.diff> <demo.py> <outdir-name> [--notes file] [--needs text]
Writes /verif/seeded/<outdir-name>/{patch.diff,demo.py,meta.json}."""
import sys, os, subprocess, tempfile, shutil, json, time, argparse
ap = argparse.ArgumentParser()
ap.add_argument('pid'); ap.add_argument('patch'); ap.add_argument('demo'); ap.add_argument('name')
ap.add_argument('--needs', default=''); ap.add_argument('--what', default=''); ap.add_argument('--skip-tests', action='store_true')
a = ap.parse_args()
V = '/verif'
def scratch(patch=None):
    d = tempfile.mkdtemp(prefix='vf-scratch-', dir='/root')
    subprocess.run(['rsync', '-a', '--exclude=__pycache__', '/repo/onsager', '/repo/test', '/repo/setup.py', d + '/'], check=True)
    if patch:
        subprocess.run(['git', 'init', '-q', '.'], cwd=d, check=True)
        r = subprocess.run(['git', 'apply', '--whitespace=nowarn', os.path.abspath(patch)], cwd=d, capture_output=True, text=True)
        shutil.rmtree(d + '/.git')
        if r.returncode != 0:
            shutil.rmtree(d); raise SystemExit('patch does not apply: ' + r.stderr)
    return d
def demo(d):
    env = dict(os.environ, PYTHONPATH=d, PYTHONDONTWRITEBYTECODE='1', PYTHONWARNINGS='ignore')
    t = time.time()
    r = subprocess.run(['/venv/bin/python', os.path.abspath(a.demo)], cwd=d, env=env, capture_output=True, text=True, timeout=900)
    return r.returncode, (r.stdout + r.stderr)[-600:], round(time.time() - t, 1)
clean = scratch(); mut = scratch(a.patch)
meta = {'property': a.pid, 'what_it_breaks': a.what, 'needs_to_manifest': a.needs, 'ran': {}}
try:
    rc0, out0, t0 = demo(clean); rc1, out1, t1 = demo(mut)
    meta['ran']['demo_on_unchanged_tree'] = {'exit': rc0, 'secs': t0, 'tail': out0[-200:]}
    meta['ran']['demo_with_patch'] = {'exit': rc1, 'secs': t1, 'tail': out1[-300:]}
    ok = rc0 == 0 and rc1 != 0
    if not a.skip_tests:
        r = subprocess.run(['python3', V + '/tools/run_baseline.py', mut, '-j', '8'], capture_output=True, text=True)
        meta['ran']['baseline_tests_with_patch'] = {'exit': r.returncode, 'tail': r.stdout[-400:]}
        ok = ok and r.returncode == 0
    env = dict(os.environ, VERIF_REPO=mut)
    r = subprocess.run([V + '/check', a.pid], env=env, capture_output=True, text=True)
    meta['ran']['check_with_patch'] = {'exit': r.returncode, 'violation_lines': [l[:300] for l in r.stdout.splitlines() if l.startswith('VIOLATION')][:4],
                                       'summary': r.stdout.strip().splitlines()[-1][:300] if r.stdout.strip() else ''}
    meta['confirmed'] = ok
    meta['detected_by_check'] = r.returncode == 1
finally:
    shutil.rmtree(clean, ignore_errors=True); shutil.rmtree(mut, ignore_errors=True)
out = os.path.join(V, 'seeded', a.name)
os.makedirs(out, exist_ok=True)
shutil.copy(a.patch, out + '/patch.diff'); shutil.copy(a.demo, out + '/demo.py')
json.dump(meta, open(out + '/meta.json', 'w'), indent=1)
print(a.name, 'confirmed' if meta.get('confirmed') else 'NOT CONFIRMED', 'detected' if meta.get('detected_by_check') else 'MISSED',
      json.dumps(meta['ran'].get('check_with_patch', {}).get('summary', '')))
