#!/bin/bash
# validate every pending candidate (seeded/pending/<Cxx>/patchN.diff + demoN.py) into seeded/<Cxx>-mN/ ; two at a time
cd /verif
todo=()
for d in seeded/pending/C*; do p=$(basename $d)
  for i in 1 2; do
    [ -f $d/patch$i.diff ] || continue
    [ -f seeded/$p-m$i/meta.json ] && [ -z "$FORCE" ] && continue
    [ -f props/$p.py ] || continue
    todo+=("$p $i")
  done
done
printf '%s\n' "${todo[@]}" | xargs -P 2 -L 1 bash -c '.venv/bin/python tools/validate_mutant.py $0 seeded/pending/$0/patch$1.diff seeded/pending/$0/demo$1.py $0-m$1 --what "see seeded/pending/$0/notes.md (change $1)" 2>&1 | tail -1'
