#!/usr/bin/env python3
"""Regenerates MANIFEST.json from props/*.py metadata (CLAIMS below) so that it is always valid."""
import json, os, sys
V = os.path.dirname(os.path.dirname(os.path.abspath(__file__)))
sys.path.insert(0, V)
from props.claims import CLAIMS, NOT_APPLICABLE
props = [json.loads(l)['id'] for l in open(os.path.join(V, 'properties.jsonl'))]
checks = []
for pid in props:
    if pid in CLAIMS:
        c = CLAIMS[pid]
        checks.append({
            'property_id': pid,
            'quick_cmd': './check %s --tier quick' % pid,
            'thorough_cmd': './check %s --tier thorough' % pid,
            'evidence_file': 'evidence/%s.json' % pid,
            'replay_cmd_template': './check %s --replay {path}' % pid,
            'engine': c['engine'],
            'level_claimed': {'category': c['category'], 'text': c['text'], 'design_ref': 'DESIGN.md section 6, ' + pid},
            'level_note': c['note'],
            'technique': c['technique'],
        })
na = [{'property_id': pid, 'reason': NOT_APPLICABLE.get(pid, 'not built yet in this round (planned, see DESIGN.md section 6); not claimed')}
      for pid in props if pid not in CLAIMS]
m = {
    'version': 1,
    'setup_cmd': './setup.sh',
    'hooks': {'guard': 'none', 'enable': 'no hooks: contracts are sidecars in /verif/contracts, engines read /repo working tree; nothing in /repo is instrumented',
              'baseline_off_cmd': 'cd /repo && /venv/bin/python -m pytest -ra -q -p no:cacheprovider --timeout=900 --continue-on-collection-errors',
              'source_commits': [], 'add_only': True},
    'engines': [
        {'name': 'pyvc (E1)', 'path': 'vf/pyvc', 'kind_free_text': 'AST -> verification conditions -> z3/cvc5; sidecar contracts with loop invariants and ghost fields; bounded re-instantiation + replay on the real function for counterexamples'},
        {'name': 'symx (E4)', 'path': 'vf/symx', 'kind_free_text': 'real bytecode executed on symbolic scalars (sympy / z3); algebraic identities discharged by normal forms / ideal membership'},
        {'name': 'rtc (E3)', 'path': 'vf/rtc', 'kind_free_text': 'run-time evaluation of contracts with brute-force spec functions over an enumerated catalogue (bounded stand-in, never counted as proved)'},
    ],
    'checks': checks,
    'not_applicable': na,
    'notes': 'Exit codes of ./check: 0 held, 1 violation (VIOLATION line), 2 undecided (never a violation), 3 checker fault. known_findings.json is never written at run time.',
}
for e in m['engines']:
    e['serves_properties'] = sorted(p for p, c in CLAIMS.items() if e['name'].split()[0] in c['engine'])
json.dump(m, open(os.path.join(V, 'MANIFEST.json'), 'w'), indent=1)
import jsonschema
jsonschema.validate(m, json.load(open('/root/.vp/MANIFEST.schema.json')))
print('MANIFEST.json: %d checks, %d not_applicable' % (len(checks), len(na)))
