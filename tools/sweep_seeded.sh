#!/bin/bash
# re-run every seeded change against the current quick check of its property: expect exit 1 for each
cd /verif
ls -d seeded/C*-m[0-9] | xargs -P 4 -I{} bash -c 'd={}; pid=$(basename $d | cut -d- -f1); out=$(tools/with_patch.sh $d/patch.diff ./check $pid 2>&1); rc=$(echo "$out" | grep -oE "exit=[0-9]+" | tail -1); first=$(echo "$out" | grep -m1 "^VIOLATION" | sed "s/.*obligation=//" | cut -c1-100); echo "$(basename $d) $rc $first"' 
