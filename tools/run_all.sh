#!/bin/bash
# run every claimed check against /repo (tier = $1, default quick), two at a time; prints the summary line of each
cd /verif
tier=${1:-quick}
ids=$(.venv/bin/python -c "import json;print(' '.join(c['property_id'] for c in json.load(open('MANIFEST.json'))['checks']))")
printf '%s\n' $ids | xargs -P ${2:-2} -I{} bash -c './check {} --tier '$tier' 2>&1 | grep -E "^(C[0-9]+ (OK|NOT-OK)|VIOLATION|UNDECIDED|FAULT)" | cut -c1-260'
# every evidence file just rewritten must validate and carry the level MANIFEST.json claims
.venv/bin/python tools/check_evidence.py $tier
