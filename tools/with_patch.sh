#!/bin/bash
# usage: with_patch.sh <patch.diff> <command...>
# Copies /repo's working tree (onsager/ and test/ only) to a scratch directory outside /repo and /verif,
# applies the patch there, runs the command with VERIF_REPO pointing at the copy, removes the copy.
set -u
patch=$(readlink -f "$1"); shift
d=$(mktemp -d /root/vf-scratch-XXXXXX)
trap 'rm -rf "$d"' EXIT
rsync -a --exclude='__pycache__' /repo/onsager /repo/test /repo/setup.py "$d"/ 
( cd "$d" && git init -q . 2>/dev/null && git apply --whitespace=nowarn "$patch" ) || { echo "patch does not apply"; exit 9; }
rm -rf "$d/.git"
VERIF_REPO="$d" PYTHONDONTWRITEBYTECODE=1 "$@"
