import numpy as np, warnings, itertools
warnings.filterwarnings('ignore')
from onsager import crystal
rng = np.random.default_rng(3)
def inBZ_true(c, k, tol=1e-9):
    k2 = k@k
    for nv in itertools.product(range(-4,5), repeat=c.dim):
        if not any(nv): continue
        G = c.reciplatt @ np.array(nv)
        if (k-G)@(k-G) < k2 - tol: return False
    return True
bad=0; tot=0; wbad=0
for trial in range(40):
    dim = 3 if trial%2==0 else 2
    A = np.eye(dim) + 0.45*rng.normal(size=(dim,dim))
    if abs(np.linalg.det(A))<0.3: continue
    c = crystal.Crystal(A, [np.zeros(dim)])
    N = [int(x) for x in rng.integers(2,7,size=dim)]
    kf = c.fullkptmesh(N)
    out = [k for k in kf if not inBZ_true(c,k)]
    tot+=1
    if out:
        bad+=1
        if bad<=3: print('lattice', np.round(c.lattice,3).tolist(), 'mesh',N,'#outside',len(out),'of',len(kf), 'example |k|^2',out[0]@out[0])
    ks, w = c.reducekptmesh(kf)
    if abs(w.sum()-1)>1e-12 or (w<=0).any(): wbad+=1
    # invariant function integration
    Rs = [c.lattice@np.array(nv) for nv in itertools.product(range(-2,3),repeat=dim)]
    r2 = sorted(set(np.round([R@R for R in Rs],8)))[1:4]
    for rr in r2:
        shell=[R for R in Rs if abs(R@R-rr)<1e-7]
        f=lambda k: sum(np.cos(k@R) for R in shell)
        full=np.mean([f(k) for k in kf]); red=sum(wi*f(k) for k,wi in zip(ks,w))
        if abs(full-red)>1e-10: print('integration mismatch', full, red, 'lattice',np.round(c.lattice,3).tolist(),N); break
print('lattices',tot,'with points outside BZ',bad,'weight problems',wbad)
