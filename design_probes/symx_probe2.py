import numpy as np, sympy as sp, time, types, warnings, itertools
warnings.filterwarnings('ignore')
from onsager import PowerExpansion as PE
T3D = PE.Taylor3D; T3D()
class NPShim(types.ModuleType):
    def __init__(self): super().__init__('npshim')
    def __getattr__(self, name): return getattr(np, name)
    def zeros(self, shape, dtype=None):
        a = np.empty(shape, dtype=object); a.fill(sp.Integer(0)); return a
shim = NPShim()
def with_shim(mod, fn, *a, **k):
    old = mod.np; mod.np = shim
    try: return fn(*a, **k)
    finally: mod.np = old
def symcoef(name, n, l, shape=()):
    P = T3D.powlrange[l]
    arr = np.empty((P,)+shape, dtype=object)
    for idx in np.ndindex(arr.shape): arr[idx] = sp.Symbol(name+'_'+'_'.join(map(str,(n,l)+idx)))
    return (n, l, arr)
x,y,z,r = sp.symbols('x y z r')
def evaluate(coefflist):
    # spec evaluation: sum_n r^n sum_p x^a y^b z^c coeff[p]   (direct definition; u-hat components symbolic)
    tot = 0
    for n,l,c in coefflist:
        for p in range(T3D.powlrange[l]):
            a,b,cc = T3D.ind2pow[p]
            tot = tot + r**n * x**int(a)*y**int(b)*z**int(cc) * c[p]
    return tot
t0=time.time(); nchk=0
for (la,lb) in [(a,b) for a in range(5) for b in range(5) if a+b<=4]:
    A=[symcoef('a',2,la)]; B=[symcoef('b',1,lb), symcoef('c',3,0)]
    Cc = with_shim(PE, T3D.coeffproductcoeff, A, B)
    res = sp.expand(evaluate(Cc) - evaluate(A)*evaluate(B))
    assert res==0, (la,lb,res); nchk+=1
    S = with_shim(PE, T3D.sumcoeff, A, B, 2, -3)
    res = sp.expand(evaluate(S) - (2*evaluate(A) - 3*evaluate(B))); assert res==0; nchk+=1
# matrix shapes
A=[symcoef('a',0,1,(2,2))]; B=[symcoef('b',2,2,(2,2))]
Cc = with_shim(PE, T3D.coeffproductcoeff, A, B)
EA=sp.Matrix(2,2,lambda i,j: evaluate([(n,l,c[:,i,j]) for n,l,c in A])); EB=sp.Matrix(2,2,lambda i,j: evaluate([(n,l,c[:,i,j]) for n,l,c in B]))
EC=sp.Matrix(2,2,lambda i,j: evaluate([(n,l,c[:,i,j]) for n,l,c in Cc]))
assert (EC-EA*EB).expand()==sp.zeros(2,2); nchk+=1
print('checked',nchk,'identities in',round(time.time()-t0,2),'s')
# overflow case (la+lb > Lmax) -- property excludes it; see what happens
A=[symcoef('a',2,3)]; B=[symcoef('b',1,3)]
try:
    Cc = with_shim(PE, T3D.coeffproductcoeff, A, B)
    print('overflow product ran; equal?', sp.expand(evaluate(Cc) - evaluate(A)*evaluate(B))==0)
except Exception as e: print('overflow raises', type(e).__name__, e)
