import numpy as np, warnings, io
warnings.filterwarnings('ignore')
from onsager import crystal, OnsagerCalc, supercell, cluster
import h5py
fcc = crystal.Crystal.FCC(1.0, 'Ni')
sup = supercell.Supercell(fcc, 2*np.eye(3,dtype=int), Nsolute=0)
sup.setocc(0,0)
try:
    sup.setocc(0,1)
except Exception as e:
    print('Nsolute=0 c=1:', type(e).__name__, 'sane after=', sup.__sane__(), 'occ', sup.occ[0], 'chemorder', sup.chemorder)
# C14: alias
sitelist = fcc.sitelist(0); jn = fcc.jumpnetwork(0, 0.75)
d = OnsagerCalc.VacancyMediated(fcc, 0, sitelist, jn, 1)
tr = d.maketracerpreene(preT0=np.ones(1), eneT0=np.zeros(1))
kT=1.
args = d.preene2betafree(kT, preV=np.ones(1), eneV=np.zeros(1), preT0=np.ones(1), eneT0=np.zeros(1), **tr)
L1 = d.Lij(*args)
L0 = L1[0].copy()
L1[0][:] = 7.0
L2 = d.Lij(*args)
print('C14 alias: first L0vv[0,0]=', L0[0,0], ' after caller edit second call L0vv[0,0]=', L2[0][0,0])
print('Lss same?', np.allclose(L1[1], L2[1]))
# hdf5 attribute completeness
f = h5py.File('x.h5', 'w', driver='core', backing_store=False)
d.addhdf5(f.create_group('D'))
d2 = OnsagerCalc.VacancyMediated.loadhdf5(f['D'])
print('missing attrs after load:', sorted(set(vars(d)) - set(vars(d2))))
print('GFcalc missing:', sorted(set(vars(d.GFcalc)) - set(vars(d2.GFcalc))))
print('thermo missing:', sorted(set(vars(d.thermo)) - set(vars(d2.thermo))))
print('vkinetic missing:', sorted(set(vars(d.vkinetic)) - set(vars(d2.vkinetic))))
L3 = d2.Lij(*args)
print('reload equal:', all(np.array_equal(x,y) for x,y in zip(d.Lij(*args), L3)))
try:
    d2.makesupercells(3*np.eye(3,dtype=int)); print('makesupercells after load ok')
except Exception as e:
    print('makesupercells after load:', type(e).__name__, e)
# generate regeneration
d3 = OnsagerCalc.VacancyMediated(fcc, 0, sitelist, jn, 1)
d3.generate(2)
try:
    tr3 = d3.maketracerpreene(preT0=np.ones(1), eneT0=np.zeros(1))
    a3 = d3.preene2betafree(kT, preV=np.ones(1), eneV=np.zeros(1), preT0=np.ones(1), eneT0=np.zeros(1), **tr3)
    print('after generate(2):', d3.Lij(*a3)[1][0,0])
except Exception as e:
    print('after generate(2) w/o generatematrices:', type(e).__name__, e)
d4 = OnsagerCalc.VacancyMediated(fcc, 0, sitelist, jn, 2)
tr4 = d4.maketracerpreene(preT0=np.ones(1), eneT0=np.zeros(1))
a4 = d4.preene2betafree(kT, preV=np.ones(1), eneV=np.zeros(1), preT0=np.ones(1), eneT0=np.zeros(1), **tr4)
print('fresh Nthermo=2:', d4.Lij(*a4)[1][0,0], ' Nthermo=1:', L2[1][0,0])
