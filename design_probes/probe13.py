import numpy as np, warnings, itertools
from functools import reduce
warnings.filterwarnings('ignore')
from onsager import crystal
def subgroups(ops):
    """all subgroups of a finite matrix group given as list of (rot int matrix) via closure of generator pairs"""
    key = lambda g: g.rot.tobytes()
    elems = {key(g): g for g in ops}
    def close(gens):
        S = {key(g): g for g in gens}
        ident = [g for g in ops if np.all(g.rot==np.eye(3,dtype=int))][0]
        S[key(ident)] = ident
        changed=True
        while changed:
            changed=False
            for a in list(S.values()):
                for b in list(S.values()):
                    k = (np.dot(a.rot,b.rot)).tobytes()
                    if k not in S: S[k]=elems[k]; changed=True
        return frozenset(S.keys())
    subs=set()
    L=list(ops)
    for a in L:
        subs.add(close([a]))
    for a,b in itertools.combinations(L,2):
        subs.add(close([a,b]))
    # three generators suffice for all crystallographic point groups
    base=list(subs)
    for s in base:
        for c in L:
            if c.rot.tobytes() not in s:
                subs.add(close([elems[k] for k in s]+[c]))
    return [[elems[k] for k in s] for s in subs]
def check(name, crys):
    ops = [g for g in crys.G]  # single atom at origin: all trans=0
    subs = subgroups(ops)
    badV=badT=0
    for H in subs:
        # character formula
        dimV = round(sum(np.trace(g.cartrot) for g in H)/len(H))
        dimT = round(sum(0.5*(np.trace(g.cartrot)**2 + np.trace(g.cartrot@g.cartrot)) for g in H)/len(H))
        vb = reduce(crystal.CombineVectorBasis, [crystal.VectorBasis(*g.eigen()) for g in H])
        vl = crystal.Crystal.vectlist(vb)
        tb = reduce(crystal.CombineTensorBasis, [crystal.SymmTensorBasis(*g.eigen()) for g in H])
        okV = (len(vl)==dimV) and all(np.allclose(g.cartrot@v, v, atol=1e-8) for g in H for v in vl) and \
              np.allclose(np.array([[a@b for b in vl] for a in vl]) if vl else np.zeros((0,0)), np.eye(len(vl)), atol=1e-8)
        okT = (len(tb)==dimT) and all(np.allclose(g.cartrot@t@g.cartrot.T, t, atol=1e-8) for g in H for t in tb) and \
              np.allclose(np.array([[np.sum(a*b) for b in tb] for a in tb]), np.eye(len(tb)), atol=1e-8)
        if not okV: badV+=1; print(name,'|H|',len(H),'vector basis wrong: got',len(vl),'expected',dimV)
        if not okT: badT+=1; print(name,'|H|',len(H),'tensor basis wrong: got',len(tb),'expected',dimT)
    print(name,'|G|',len(ops),'subgroups',len(subs),'vector failures',badV,'tensor failures',badT)
check('Oh', crystal.Crystal(np.eye(3), [np.zeros(3)]))
hexl = np.array([[0.5,0.5,0],[-np.sqrt(0.75),np.sqrt(0.75),0],[0,0,1.6]])
check('D6h', crystal.Crystal(hexl, [np.zeros(3)]))
# rotated orientation of the cubic group (generic orientation)
th=0.37; Rz=np.array([[np.cos(th),-np.sin(th),0],[np.sin(th),np.cos(th),0],[0,0,1]]); ph=0.81; Rx=np.array([[1,0,0],[0,np.cos(ph),-np.sin(ph)],[0,np.sin(ph),np.cos(ph)]])
check('Oh rotated', crystal.Crystal(Rz@Rx@np.eye(3), [np.zeros(3)]))
check('D6h rotated', crystal.Crystal(Rz@Rx@hexl, [np.zeros(3)]))
