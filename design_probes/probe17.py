import numpy as np, warnings
warnings.filterwarnings('ignore')
from onsager import crystal
L = np.diag([3.,1.,1.])
for order in ([0,1/3,2/3],[0,2/3,1/3]):
    b = [np.array([x,0.,0.]) for x in order]
    try:
        c = crystal.Crystal(L, b)
        print(order, '-> N', c.N, 'volume', c.volume, '|G|', len(c.G))
    except Exception as e:
        print(order, '-> EXC', type(e).__name__, e)
# 2D as well
L2 = np.diag([3.,1.])
for order in ([0,1/3,2/3],[0,2/3,1/3]):
    try:
        c = crystal.Crystal(L2, [np.array([x,0.]) for x in order]); print('2D',order,'-> N',c.N)
    except Exception as e: print('2D',order,'-> EXC',type(e).__name__,e)
# det 5: orders
L5 = np.diag([5.,1.,1.])
import itertools
fails=0; tot=0
for perm in itertools.permutations([1/5,2/5,3/5,4/5]):
    tot+=1
    try: crystal.Crystal(L5, [np.array([0.,0,0])]+[np.array([x,0.,0.]) for x in perm])
    except Exception as e: fails+=1
print('det5 orderings failing', fails, 'of', tot)
