import numpy as np, warnings, itertools
warnings.filterwarnings('ignore')
from onsager import crystal
rng = np.random.default_rng(9)
def group_ok(c, tol=1e-6):
    G = list(c.G); msgs=[]
    dim=c.dim
    def same(p,h): return np.all(p.rot==h.rot) and np.allclose(crystal.inhalf(p.trans-h.trans),0,atol=tol) and p.indexmap==h.indexmap
    for g in G:
        if g.rot.shape!=(dim,dim): msgs.append('shape'); continue
        if abs(abs(round(np.linalg.det(g.rot)))-1)>0: msgs.append('det')
        if not np.allclose(g.cartrot.T@g.cartrot, np.eye(dim), atol=tol): msgs.append('not isometry')
        if not np.allclose(g.cartrot@c.lattice, c.lattice@g.rot, atol=tol): msgs.append('cartrot/rot mismatch')
        for ci,atoms in enumerate(c.basis):
            if sorted(g.indexmap[ci])!=list(range(len(atoms))): msgs.append('indexmap not perm')
            for i,u in enumerate(atoms):
                d = crystal.inhalf(g.rot@u + g.trans - atoms[g.indexmap[ci][i]])
                if not np.allclose(d,0,atol=10*c.threshold): msgs.append('atom map geometry')
    if not any(np.all(g.rot==np.eye(dim,dtype=int)) and np.allclose(crystal.inhalf(g.trans),0,atol=tol) for g in G): msgs.append('no identity')
    for g in G:
        if not any(same(g.inv(),h) for h in G): msgs.append('inverse missing')
        for h in G:
            if not any(same(g*h,k) for k in G): msgs.append('not closed'); break
    return sorted(set(msgs))
cases=[]
hexl = np.array([[0.5,0.5,0],[-np.sqrt(0.75),np.sqrt(0.75),0],[0,0,1.6]])
cases.append(('hcp', lambda: crystal.Crystal.HCP(1.)))
cases.append(('AFM bcc scalar spins', lambda: crystal.Crystal(np.eye(3), [np.zeros(3), np.array([.5,.5,.5])], spins=[1,-1])))
cases.append(('vector spins sc2', lambda: crystal.Crystal(np.eye(3), [np.zeros(3), np.array([.5,.5,.5])], spins=[np.array([0,0,1.]), np.array([0,0,-1.])])))
cases.append(('complex spins', lambda: crystal.Crystal(hexl, [np.array([1/3,2/3,.25]), np.array([2/3,1/3,.75])], spins=[1, np.exp(2j*np.pi/3)])))
cases.append(('2D square 2 species', lambda: crystal.Crystal(np.eye(2), [[np.zeros(2)],[np.array([.5,.5])]])))
cases.append(('2D oblique', lambda: crystal.Crystal(np.array([[1,0.3],[0,1.2]]), [np.zeros(2), np.array([.3,.6])])))
for k in range(6):
    dim = 3 if k%2 else 2
    A = np.eye(dim)+0.3*rng.normal(size=(dim,dim))
    nat = int(rng.integers(1,4))
    b = [rng.uniform(0,1,dim) for _ in range(nat)]
    cases.append((f'random{k} dim{dim}', (lambda A=A,b=b: crystal.Crystal(A, b))))
    cases.append((f'random{k} strained', (lambda A=A,b=b,dim=dim: crystal.Crystal(A, b).strain(1e-3*rng.normal(size=(dim,dim))))))
for name, mk in cases:
    try:
        c = mk(); print(f'{name}: |G|={len(c.G)} N={c.N}', group_ok(c) or 'OK')
    except Exception as e:
        print(name, 'EXC', type(e).__name__, e)
# C19: reduction from supercells
def supercell_desc(c, M, rng):
    Minv = np.linalg.inv(M)
    newb=[]
    for atoms in c.basis:
        lst=[]
        for u in atoms:
            for n in itertools.product(range(-4,5), repeat=c.dim):
                v = Minv@(u+np.array(n))
                if np.all(v>-1e-9) and np.all(v<1-1e-9): lst.append(crystal.incell(v))
        # dedupe
        ded=[]
        for v in lst:
            if not any(np.allclose(crystal.inhalf(v-w),0,atol=1e-7) for w in ded): ded.append(v)
        rng.shuffle(ded); newb.append(ded)
    return c.lattice@M, newb
for name, c in (('fcc',crystal.Crystal.FCC(1.)),('hcp',crystal.Crystal.HCP(1.)),('B2',crystal.Crystal(np.eye(3),[[np.zeros(3)],[np.array([.5,.5,.5])]])),('honeycomb',crystal.Crystal(np.array([[1,0],[-0.5,np.sqrt(0.75)]]).T, [np.array([1/3,2/3]), np.array([2/3,1/3])]))):
    for t in range(4):
        while True:
            M = rng.integers(-2,3,size=(c.dim,c.dim))
            det = round(np.linalg.det(M))
            if 2<=abs(det)<=4: break
        L,b = supercell_desc(c,M,rng)
        if any(len(x)!=abs(det)*len(y) for x,y in zip(b,c.basis)): print(name,'spec builder wrong count'); continue
        try:
            c2 = crystal.Crystal(L,b)
            ok = (abs(c2.volume/c2.N - c.volume/c.N)<1e-8 and [len(x) for x in c2.basis]==[len(x) for x in c.basis] and np.linalg.det(c2.lattice)>0 and len(c2.G)==len(c.G))
            print(f'{name} det {det}: N {c2.N} |G| {len(c2.G)} vs {len(c.G)} ok {ok}')
        except Exception as e:
            print(f'{name} det {det}: EXC {type(e).__name__} {e}')
