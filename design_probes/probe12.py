import numpy as np, warnings
warnings.filterwarnings('ignore')
from onsager import crystal, OnsagerCalc
rng = np.random.default_rng(4)
crys = crystal.Crystal.FCC(1.); chem=0
sl = crys.sitelist(chem); jn = crys.jumpnetwork(chem, 0.75)
d = OnsagerCalc.VacancyMediated(crys, chem, sl, jn, 1)
N=len(sl); J=len(jn)
td = {'preV': np.ones(N), 'eneV': np.zeros(N), 'preS': np.ones(N), 'eneS': np.zeros(N),
      'preSV': rng.uniform(.5,2,d.thermo.Nstars), 'eneSV': rng.uniform(-.5,.5,d.thermo.Nstars),
      'preT0': rng.uniform(.5,2,J), 'eneT0': 1+rng.uniform(0,1,J)}
td.update(d.makeLIMBpreene(**td))
td['eneT1'] = td['eneT1'] + rng.uniform(-.3,.3,len(td['eneT1']))
base = td['preT2'].copy()
for s in (1e8, 1e10, 1e12, 1e13, 1e14, 1e15, 1e16):
    td['preT2'] = base*s
    L0vv, Lss, Lsv, L1vv = d.Lij(*d.preene2betafree(1.0, **td))
    print(f'{s:.0e} Lss {Lss[0,0]:.12g} Lsv {Lsv[0,0]:.12g} L1vv {L1vv[0,0]:.12g}  offdiag max {max(abs(Lss[0,1]),abs(Lsv[0,1]),abs(L1vv[0,1])):.1e} iso dev {abs(L1vv[0,0]-L1vv[1,1]):.1e}')
