import numpy as np
np.Inf = np.inf
import sys, unittest
sys.path.insert(0,'/repo')
from test import test_cluster
suite = unittest.TestSuite()
for cls in (test_cluster.MonteCarloTests, test_cluster.VacancyMonteCarloTests):
    suite.addTest(cls('testSampler_Run_jit'))
r = unittest.TextTestRunner(verbosity=1).run(suite)
