import numpy as np, warnings
warnings.filterwarnings('ignore')
from onsager import crystal
# 2D NOSYM
try:
    c = crystal.Crystal(np.eye(2), [np.zeros(2), np.array([0.5,0.3])], NOSYM=True)
    print('2D NOSYM ok', len(c.G), [g.rot.shape for g in c.G])
except Exception as e:
    print('2D NOSYM (2 atoms):', type(e).__name__, e)
try:
    c = crystal.Crystal(np.eye(2), [np.zeros(2)], NOSYM=True)
    print('2D NOSYM 1 atom ok', [g.rot.shape for g in c.G], c.pointG[0][0] is c.G)
    print(c.VectorBasis((0,0)))
except Exception as e:
    print('2D NOSYM (1 atom):', type(e).__name__, e)
# group closure for non-reduced cell
def closed(c):
    G = list(c.G)
    bad = 0
    for g1 in G:
        for g2 in G:
            p = (g1*g2)
            if not any(np.all(p.rot==h.rot) and np.allclose(crystal.inhalf(p.trans-h.trans),0,atol=1e-6) for h in G): bad += 1
    return len(G), bad
hexl = np.array([[1,0,0],[-0.5,np.sqrt(0.75),0],[0,0,1.6]]).T
print('hex reduced', closed(crystal.Crystal(hexl, [np.zeros(3)])))
M = np.array([[1,2,0],[0,1,0],[0,0,1]])
print('hex sheared noreduce', closed(crystal.Crystal(hexl@M, [np.zeros(3)], noreduce=True)))
M = np.array([[1,3,1],[0,1,2],[0,0,1]])
print('fcc sheared noreduce', closed(crystal.Crystal(crystal.Crystal.FCC(1.).lattice@M, [np.zeros(3)], noreduce=True)))
print('fcc sheared reduce', closed(crystal.Crystal(crystal.Crystal.FCC(1.).lattice@M, [np.zeros(3)])))
