import numpy as np, sympy as sp, time, types, warnings
warnings.filterwarnings('ignore')
from onsager import crystal, OnsagerCalc
# --- numpy shim: same namespace, object-dtype aware creators and ufuncs
class NPShim(types.ModuleType):
    def __init__(self): super().__init__('npshim')
    def __getattr__(self, name): return getattr(np, name)
    def zeros(self, shape, dtype=None): 
        a = np.empty(shape, dtype=object); a.fill(sp.Integer(0)); return a
    def exp(self, x):
        if isinstance(x, np.ndarray): return np.vectorize(sp.exp, otypes=[object])(x)
        return sp.exp(x)
    def sqrt(self, x):
        if isinstance(x, np.ndarray): return np.vectorize(sp.sqrt, otypes=[object])(x)
        return sp.sqrt(x)
    def array(self, x, *a, **k): return np.array(x, dtype=object)
shim = NPShim()
def sym_solve(A, b, **kw):
    M = sp.Matrix(A.tolist()); v = sp.Matrix(b.tolist())
    return np.array(list(M.LUsolve(v)), dtype=object)
def run_sym(fn, *args):
    g = fn.__globals__
    saved = {k: g.get(k) for k in ('np','solve','min','sum')}
    g['np'] = shim; g['solve'] = sym_solve
    g['min'] = lambda xs: sp.Symbol('m_'+str(len(xs)))  # opaque reference value (proved irrelevant separately)
    try: return fn(*args)
    finally:
        for k,v in saved.items():
            if v is None: g.pop(k, None)
            else: g[k]=v
# HCP with octahedral+tetrahedral interstitials
hcp = crystal.Crystal.HCP(1., chemistry='Mg')
uoct = np.array([0.,0.,0.5]); utet = np.array([1/3,2/3,0.625])
cr = hcp.addbasis(hcp.Wyckoffpos(uoct)+hcp.Wyckoffpos(utet), chemistry=['O'])
chem=1; sitelist = cr.sitelist(chem); jn = cr.jumpnetwork(chem, 0.7)
D = OnsagerCalc.Interstitial(cr, chem, sitelist, jn)
print('N',D.N,'NV',D.NV,'njn',len(jn),'invertible',D.omega_invertible)
# numeric reference
pre=[1.,2.]; be=[0.,0.3]; preT=[1.+0.1*k for k in range(len(jn))]; beT=[1.+0.2*k for k in range(len(jn))]
Dnum, Dbnum = D.diffusivity(pre,be,preT,beT,CalcDeriv=True)
# symbolic
ps = sp.symbols('p0:%d'%len(sitelist), positive=True); es = sp.symbols('e0:%d'%len(sitelist), real=True)
pT = sp.symbols('q0:%d'%len(jn), positive=True); eT = sp.symbols('t0:%d'%len(jn), real=True)
D.bias_solver = lambda omega,b: -sym_solve(-omega,b)
t0=time.time()
Dsym, Dbsym = run_sym(OnsagerCalc.Interstitial.diffusivity, D, list(ps), list(es), list(pT), list(eT), True)
print('symbolic exec', round(time.time()-t0,2),'s')
sub = {**dict(zip(ps,pre)), **dict(zip(es,be)), **dict(zip(pT,preT)), **dict(zip(eT,beT)), sp.Symbol('m_2'): 0.0}
print('num check D', np.allclose(np.array(sp.Matrix(Dsym.tolist()).subs(sub)).astype(float), Dnum))
print('num check Db', np.allclose(np.array(sp.Matrix(Dbsym.tolist()).subs(sub)).astype(float), Dbnum))
# derivative identity: Db == -(sum e dD/de + sum t dD/dt)
t0=time.time()
lam = sp.Symbol('lam')
ok=True
for a in []:
    for b in range(a,3):
        expr = Dsym[a,b]
        dd = sum(e*sp.diff(expr,e) for e in es) + sum(t*sp.diff(expr,t) for t in eT)
        r = sp.simplify(Dbsym[a,b] + dd)
        if r != 0:
            ok=False; print('residual',a,b, sp.count_ops(r))

import random
random.seed(1)
for trial in range(3):
    sub = {}
    for s in list(ps)+list(pT): sub[s] = random.uniform(0.5,2)
    for s in list(es)+list(eT): sub[s] = random.uniform(-1,2)
    sub[sp.Symbol('m_2')] = random.uniform(-1,1)
    expr = Dsym[2,2]
    dd = sum(e*sp.diff(expr,e) for e in es) + sum(t*sp.diff(expr,t) for t in eT)
    print('trial',trial,'Db', float(Dbsym[2,2].subs(sub)), '-dD/dbeta', float(-dd.subs(sub)))
    # finite difference on real numeric code
    pre=[float(sub[s]) for s in ps]; be=[float(sub[s]) for s in es]; prT=[float(sub[s]) for s in pT]; bT=[float(sub[s]) for s in eT]
    h=1e-6
    Dp = D0 = None
    D.bias_solver = lambda omega, b: -OnsagerCalc.solve(-omega, b, assume_a='pos')
    Dp = D.diffusivity(pre,[(1+h)*x for x in be],prT,[(1+h)*x for x in bT])
    Dm = D.diffusivity(pre,[(1-h)*x for x in be],prT,[(1-h)*x for x in bT])
    Dc, Dbc = D.diffusivity(pre,be,prT,bT,CalcDeriv=True)
    print('   numeric code Db[2,2]=',Dbc[2,2],' FD -dD/dbeta=', -(Dp-Dm)[2,2]/(2*h))
