import numpy as np, z3, types
class SV:
    """scalar wrapper over a z3 arithmetic term"""
    __array_priority__ = 1000
    def __init__(s, t): s.t = t
    @staticmethod
    def lift(x):
        if isinstance(x, SV): return x.t
        if isinstance(x, (int, np.integer)): return z3.IntVal(int(x))
        if isinstance(x, (float, np.floating)): return z3.RealVal(repr(float(x)))
        raise TypeError(type(x))
    def __add__(s,o): return SV(s.t + SV.lift(o))
    __radd__ = __add__
    def __sub__(s,o): return SV(s.t - SV.lift(o))
    def __rsub__(s,o): return SV(SV.lift(o) - s.t)
    def __mul__(s,o): return SV(s.t * SV.lift(o))
    __rmul__ = __mul__
    def __neg__(s): return SV(-s.t)
    def rint(s):   # np.round on object arrays dispatches here
        r = s.t if s.t.is_real() else z3.ToReal(s.t)
        return SV(z3.ToInt(r + z3.RealVal('1/2')))
    def floor(s):
        r = s.t if s.t.is_real() else z3.ToReal(s.t)
        return SV(z3.ToInt(r))
    def __repr__(s): return 'SV(%s)'%s.t
def vec(name, n, sort): return np.array([SV(sort(f'{name}{i}')) for i in range(n)], dtype=object)
latt = np.array([[0.,.5,.5],[.5,0.,.5],[.5,.5,0.]])
R = vec('R',3,z3.Int); u = vec('u',3,z3.Real)
x = np.dot(latt, R + u)
print(type(x), x.dtype, x[0])
rot = np.array([[0,1,0],[0,0,1],[1,0,0]])
print(np.dot(rot, R)[0])
try:
    y = np.round(np.dot(rot,u) + u - u); print('round ->', y[0])
except Exception as e: print('round fails', type(e).__name__, e)
try:
    print('floor ->', np.floor(u + 1e-8)[0])
except Exception as e: print('floor fails', type(e).__name__, e)
try:
    z = y.astype(int); print('astype ->', z.dtype)
except Exception as e: print('astype fails', type(e).__name__, e)
