import numpy as np, warnings
warnings.filterwarnings('ignore')
from onsager import crystal, OnsagerCalc
exec(open('probe7.py').read().split("def build")[0])   # reuse D_spec, loss_spec
rng = np.random.default_rng(5)
# wurtzite-like polar host (no inversion)
a, c, u = 1.0, 1.63, 0.38
latt = np.array([[a/2, a/2, 0],[-a*np.sqrt(0.75), a*np.sqrt(0.75), 0],[0,0,c]])
wz = crystal.Crystal(latt, [[np.array([1/3,2/3,0.]), np.array([2/3,1/3,0.5])],[np.array([1/3,2/3,u]), np.array([2/3,1/3,0.5+u])]], chemistry=['Zn','O'])
print('wurtzite |G|', len(wz.G), 'inversion', any(np.allclose(g.cartrot,-np.eye(3)) for g in wz.G))
ws = wz.addbasis(wz.Wyckoffpos(np.array([0.,0.,0.2]))+wz.Wyckoffpos(np.array([0.5,0.,0.7])), ['X'])
chem=2
for cutoff in (0.75, 0.9):
    d = OnsagerCalc.Interstitial(ws, chem, ws.sitelist(chem), ws.jumpnetwork(chem, cutoff))
    print('cutoff',cutoff,'N',d.N,'NV',d.NV,'invertible',d.omega_invertible,'njn',len(d.jumpnetwork))
    Ns, Nj = len(d.sitelist), len(d.jumpnetwork)
    for t in range(4):
        pre = rng.uniform(.5,2,Ns); be = rng.uniform(-1,2,Ns); preT = rng.uniform(.5,2,Nj); beT = be.max()+rng.uniform(0.2,3,Nj)
        D = d.diffusivity(pre,be,preT,beT); Ds = D_spec(d,pre,be,preT,beT); sc=np.abs(D).max()
        print('   D-spec', f'{np.abs(D-Ds).max()/sc:.1e}', 'eig', np.round(np.linalg.eigvalsh(D)/sc,4))
