import numpy as np, warnings, h5py, yaml, traceback
warnings.filterwarnings('ignore')
from onsager import crystal, OnsagerCalc, GFcalc, crystalStars as stars, cluster
def roundtrip(crys, chem, cutoff, Nthermo, label):
    try:
        sl = crys.sitelist(chem); jn = crys.jumpnetwork(chem, cutoff)
        d = OnsagerCalc.VacancyMediated(crys, chem, sl, jn, Nthermo)
        N=len(sl); rng=np.random.default_rng(1)
        td = {'preV':np.ones(N),'eneV':rng.normal(size=N)*0.2,'preT0':np.ones(len(jn)),'eneT0':1+rng.normal(size=len(jn))*0.1}
        td.update(d.maketracerpreene(**td))
        args = d.preene2betafree(1.0, **td)
        L = d.Lij(*args)
        f = h5py.File(label+'.h5','w',driver='core',backing_store=False)
        d.addhdf5(f.create_group('D'))
        d2 = OnsagerCalc.VacancyMediated.loadhdf5(f['D'])
        L2 = d2.Lij(*args)
        print(label, 'dim',crys.dim,'Nsites',d.N,'roundtrip exact:', all(np.array_equal(a,b) for a,b in zip(L,L2)), 'tags eq', d.tags==d2.tags)
        # fresh (no cache) load
        d.clearcache(); f2 = h5py.File(label+'b.h5','w',driver='core',backing_store=False); d.addhdf5(f2.create_group('D'))
        d3 = OnsagerCalc.VacancyMediated.loadhdf5(f2['D']); L3 = d3.Lij(*args)
        print('   nocache roundtrip exact:', all(np.array_equal(a,b) for a,b in zip(L,L3)), max(np.abs(a-b).max() for a,b in zip(L,L3)))
    except Exception as e:
        print(label, 'FAILED', type(e).__name__, e); traceback.print_exc(limit=3)
sq = crystal.Crystal(np.eye(2), [np.zeros(2)])
roundtrip(sq, 0, 1.01, 1, 'square2D')
hon = crystal.Crystal(np.array([[1,0],[-0.5,np.sqrt(0.75)]]).T, [np.array([1/3,2/3]), np.array([2/3,1/3])])
roundtrip(hon, 0, 0.6, 1, 'honeycomb2D')
hcp = crystal.Crystal.HCP(1.)
roundtrip(hcp, 0, 1.01, 1, 'hcp')
# multi-Wyckoff: B2-like with two different... use L12 sublattice? simple: orthorhombic 2 inequivalent sites same chem
ortho = crystal.Crystal(np.diag([1.,1.1,1.3]), [[np.zeros(3), np.array([0.5,0.5,0.1])]])
print('ortho sitelist', ortho.sitelist(0))
roundtrip(ortho, 0, 0.85, 1, 'ortho2W')
