import numpy as np, warnings, itertools
warnings.filterwarnings('ignore')
from onsager import crystal, OnsagerCalc, GFcalc
rng = np.random.default_rng(7)
def D_spec(diff, pre, be, preT, beT):
    N, dim = diff.N, diff.dim
    rho = diff.siteprob(pre, be)
    rates = diff.ratelist(pre, be, preT, beT)
    W = np.zeros((N,N)); b = np.zeros((N,dim)); D0 = np.zeros((dim,dim))
    for jl, rl in zip(diff.jumpnetwork, rates):
        for ((i,j),dx), r in zip(jl, rl):
            W[i,j] += np.sqrt(rho[i]/rho[j])*r ; W[i,i] -= r
            b[i] += np.sqrt(rho[i])*r*dx
            D0 += 0.5*np.outer(dx,dx)*rho[i]*r
    return D0 + b.T @ np.linalg.pinv(W, hermitian=True) @ b
def loss_spec(diff, pre, be, dip):
    rho = diff.siteprob(pre, be); P = diff.siteDipoles(dip)
    avg = np.tensordot(rho, P, 1)
    return np.einsum('i,iab,icd->abcd', rho, P, P) - np.einsum('ab,cd->abcd', avg, avg)
def build(cr, chem, cutoff):
    return OnsagerCalc.Interstitial(cr, chem, cr.sitelist(chem), cr.jumpnetwork(chem, cutoff))
cases = []
hcp = crystal.Crystal.HCP(1., chemistry='Mg')
cases.append(('hcpOT', build(hcp.addbasis(hcp.Wyckoffpos(np.array([0.,0.,0.5]))+hcp.Wyckoffpos(np.array([1/3,2/3,0.625])), ['O']), 1, 0.7)))
fcc = crystal.Crystal.FCC(1., chemistry='Ni')
cases.append(('fccOT', build(fcc.addbasis(fcc.Wyckoffpos(np.array([.5,.5,.5]))+fcc.Wyckoffpos(np.array([.25,.25,.25])), ['O']), 1, 0.48)))
# low symmetry: orthorhombic host with a general-position interstitial set (no inversion? check)
orth = crystal.Crystal(np.diag([1.,1.15,1.31]), [np.zeros(3)], chemistry=['A'])
lo = orth.addbasis(orth.Wyckoffpos(np.array([0.21,0.33,0.12])), ['X'])
cases.append(('orthoGen', build(lo, 1, 0.75)))
mono = crystal.Crystal(np.array([[1.,0,0],[0.2,1.1,0],[0,0,1.3]]).T, [np.zeros(3)], chemistry=['A'])
lm = mono.addbasis(mono.Wyckoffpos(np.array([0.2,0.3,0.1]))+mono.Wyckoffpos(np.array([0.6,0.1,0.4])), ['X'])
cases.append(('monoGen', build(lm, 1, 0.8)))
for name, d in cases:
    Ns, Nj = len(d.sitelist), len(d.jumpnetwork)
    worst = 0; worstsym=0; worstinv=0; mineig=1; worstloss=0; worstGF=0
    try:
        gf = GFcalc.GFCrystalcalc(d.crys, d.chem, d.sitelist, d.jumpnetwork, 2)
    except Exception as e:
        gf=None; print(name,'GF build fail',e)
    for t in range(5):
        pre = rng.uniform(.5,2,Ns); be = rng.uniform(-1,2,Ns); preT = rng.uniform(.5,2,Nj); beT = be.max()+rng.uniform(0.2,3,Nj)
        D = d.diffusivity(pre,be,preT,beT); Ds = D_spec(d,pre,be,preT,beT)
        sc = np.abs(D).max()
        worst = max(worst, np.abs(D-Ds).max()/sc)
        worstsym = max(worstsym, np.abs(D-D.T).max()/sc)
        worstinv = max(worstinv, max(np.abs(g.cartrot@D@g.cartrot.T - D).max() for g in d.crys.G)/sc)
        mineig = min(mineig, np.linalg.eigvalsh(0.5*(D+D.T)).min()/sc)
        dip = [rng.normal(size=(3,3)) for _ in range(Ns)]
        LL = d.losstensors(pre,be,dip,preT,beT)
        tot = sum(L for l,L in LL) if LL else np.zeros((3,3,3,3))
        ls = loss_spec(d,pre,be,dip)
        worstloss = max(worstloss, np.abs(tot-ls).max()/max(np.abs(ls).max(),1e-300))
        if gf is not None:
            try:
                gf.SetRates(pre,be,preT,beT); worstGF = max(worstGF, np.abs(gf.D-D).max()/sc)
            except Exception as e: worstGF = str(e)
    print(f'{name}: N={d.N} NV={d.NV} inv={d.omega_invertible} |G|={len(d.crys.G)} D-spec {worst:.1e} sym {worstsym:.1e} ginv {worstinv:.1e} mineig/scale {mineig:.2e} loss-sumrule {worstloss:.1e} GF.D-D {worstGF}')
