import numpy as np, warnings
warnings.filterwarnings('ignore')
from onsager import crystal, OnsagerCalc, supercell, cluster
# C36: vTK.__ne__
vTK = OnsagerCalc.vacancyThermoKinetics
a = vTK(np.ones(1), np.zeros(1), np.ones(1), np.zeros(1))
b = vTK(np.ones(1), np.zeros(1), np.ones(1), np.zeros(1)+1e-9)
print('eq', a==b, 'hash eq', hash(a)==hash(b))
try:
    print('ne', a!=b)
except Exception as e:
    print('ne raises', type(e).__name__, e)
# C28: setocc range
fcc = crystal.Crystal.FCC(1.0, 'Ni')
sup = supercell.Supercell(fcc, 2*np.eye(3,dtype=int), Nsolute=2)
print('Nchem', sup.Nchem, 'crys.Nchem', fcc.Nchem, 'chemorder lists', len(sup.chemorder))
for c in (-2,-1,0,1,2,3):
    s = sup.copy()
    try:
        s.setocc(0, 0); s.setocc(0, c)
        print('c=',c,'accepted; sane=', s.__sane__(), 'occ0', s.occ[0])
    except Exception as e:
        print('c=',c,'raises', type(e).__name__, '; sane after=', s.__sane__())
