import numpy as np, warnings, itertools
warnings.filterwarnings('ignore')
from onsager import crystal, crystalStars as stars
PS = stars.PairState
def bfs(crys, chem, jn, N, origin=False):
    jl = [PS.fromcrys(crys, chem, ij, dx) for lst in jn for ij,dx in lst]
    cur = set(jl) if N>0 else set(); allst = set(cur)
    for _ in range(N-1):
        nxt=set()
        for s in cur:
            for j in jl:
                if s.j==j.i:
                    t = s+j
                    if not t.iszero(): nxt.add(t)
        allst |= nxt; cur = nxt
    if origin:
        for i in range(len(crys.basis[chem])): allst.add(PS.zero(i, crys.dim))
    return allst
def orbit(crys, chem, s): return frozenset(s.g(crys, chem, g) for g in crys.G)
def check(name, crys, chem, cutoff, Nmax=2):
    jn = crys.jumpnetwork(chem, cutoff)
    for N in range(1, Nmax+1):
        for origin in (False, True):
            ss = stars.StarSet(jn, crys, chem, N, originstates=origin)
            spec = bfs(crys, chem, jn, N, origin)
            ok_states = set(ss.states)==spec and len(ss.states)==len(spec)
            # stars = complete orbits partition
            ok_orb = True
            seen=set()
            for st in ss.stars:
                members = frozenset(ss.states[i] for i in st)
                if members != orbit(crys, chem, ss.states[st[0]]): ok_orb=False
                if seen & members: ok_orb=False
                seen |= members
            ok_orb = ok_orb and seen==set(ss.states)
            ok_idx = all(ss.stateindex(ss.states[i])==i and ss.starindex(ss.states[i])==si and ss.index[i]==si for si,st in enumerate(ss.stars) for i in st)
            # vector stars count via character formula
            vs = stars.VectorStarSet(ss)
            expect = 0
            for st in ss.stars:
                s0 = ss.states[st[0]]
                stab = [g for g in crys.G if s0.g(crys,chem,g)==s0]
                expect += round(sum(np.trace(g.cartrot) for g in stab)/len(stab))
            # orthonormality
            gram = np.zeros((vs.Nvstars,vs.Nvstars))
            for a in range(vs.Nvstars):
                for b in range(vs.Nvstars):
                    da = dict(zip(vs.vecpos[a], vs.vecvec[a])); db = dict(zip(vs.vecpos[b], vs.vecvec[b]))
                    gram[a,b] = sum(da[k]@db[k] for k in da if k in db)
            ok_vs = (vs.Nvstars==expect) and np.allclose(gram, np.eye(vs.Nvstars), atol=1e-10)
            print(f'{name} N={N} origin={origin}: states {len(ss.states)} stars {ss.Nstars} states_ok {ok_states} orbits_ok {ok_orb} index_ok {ok_idx} Nvstars {vs.Nvstars} expected {expect} orthonormal {np.allclose(gram, np.eye(vs.Nvstars), atol=1e-10)}')
    # addition
    s1 = stars.StarSet(jn, crys, chem, 1); s2 = stars.StarSet(jn, crys, chem, 2); s3 = stars.StarSet(jn, crys, chem, 3)
    sa = s1 + s2
    print(f'{name} add 1+2 == generate(3):', set(sa.states)==set(s3.states), sorted(map(len,sa.stars))==sorted(map(len,s3.stars)))
check('fcc', crystal.Crystal.FCC(1.), 0, 0.75)
check('hcp', crystal.Crystal.HCP(1.), 0, 1.01)
check('honeycomb', crystal.Crystal(np.array([[1,0],[-0.5,np.sqrt(0.75)]]).T, [np.array([1/3,2/3]), np.array([2/3,1/3])]), 0, 0.6)
# omega-like two Wyckoff sets
omega = crystal.Crystal(np.array([[0.5,0.5,0],[-np.sqrt(0.75),np.sqrt(0.75),0],[0,0,0.61]]), [np.zeros(3), np.array([1/3,2/3,0.5]), np.array([2/3,1/3,0.5])])
print('omega sitelist', omega.sitelist(0))
check('omega', omega, 0, 0.66)
x,y,z = 0.21,0.13,0.17
A = [np.array(p) for p in ((x,y,z),(-x,-y,z),(y,-x,-z),(-y,x,-z))]
s4 = crystal.Crystal(np.diag([1.,1.,1.3]), [A, [np.zeros(3), np.array([.5,.5,.5])]], chemistry=['A','B'])
print('S4 crystal sitelist', s4.sitelist(1), '|G|', len(s4.G))
check('S4site', s4, 1, 1.05, Nmax=1)
