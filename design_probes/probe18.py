import numpy as np, warnings, itertools
warnings.filterwarnings('ignore')
from onsager import crystal, cluster, supercell
rng = np.random.default_rng(21)
def run(name, crys, chem, spect, superlatt, cutoff_cl, cutoff_jump, maxorder=3):
    sup = supercell.ClusterSupercell(crys, superlatt, spectator=spect)
    clexp = cluster.makeclusters(crys, cutoff_cl, maxorder)
    jn = crys.jumpnetwork(chem, cutoff_jump)
    TS = cluster.makeTSclusters(crys, chem, jn, clexp)
    Ev = rng.normal(size=len(clexp)+1); TSv = rng.normal(size=len(TS)); KRA = rng.uniform(0.5,1.5,size=len(jn))
    socc = rng.integers(0,2,size=sup.Nspec*sup.size)
    MC = cluster.MonteCarloSampler(sup, socc, clexp, Ev, chem, jn, KRAvalues=KRA, TSclusters=TS, TSvalues=TSv)
    MC0 = cluster.MonteCarloSampler(sup, socc, clexp, Ev)
    Nm = sup.Nmobile*sup.size
    worstE=0; worstDB=0; worstdE=0; nconf=0; ntrans=0; missing=0
    confs = itertools.product((0,1), repeat=Nm) if Nm<=10 else (tuple(rng.integers(0,2,size=Nm)) for _ in range(200))
    for conf in confs:
        occ = np.array(conf); nconf+=1
        Ebrute = float(np.dot(sup.evalcluster(occ, socc, clexp), Ev))
        MC.start(occ.copy()); E1 = MC.E()
        worstE = max(worstE, abs(E1-Ebrute))
        ij, Q, dx = MC.transitions()
        for (i,j), q, d in zip(ij, Q, dx):
            ntrans+=1
            occ2 = occ.copy(); occ2[i]=0; occ2[j]=1
            dEt = MC.deltaE_trial((j,),(i,))
            E2 = float(np.dot(sup.evalcluster(occ2, socc, clexp), Ev))
            worstdE = max(worstdE, abs(dEt-(E2-Ebrute)))
            MC2 = cluster.MonteCarloSampler.__new__(cluster.MonteCarloSampler); MC2.__dict__.update(MC.__dict__)
            MC2.start(occ2.copy())
            ij2, Q2, dx2 = MC2.transitions()
            found=False
            for (a,b), q2, d2 in zip(ij2,Q2,dx2):
                if a==j and b==i and np.allclose(d2,-d):
                    found=True; worstDB = max(worstDB, abs((q-q2)-(E2-Ebrute)))
            if not found: missing+=1
    print(f'{name}: mobile sites {Nm} clusters {sum(len(c) for c in clexp)} TS {sum(len(c) for c in TS)} configs {nconf} transitions {ntrans}: |E-brute| {worstE:.1e} |dEtrial-dE| {worstdE:.1e} detailed-balance {worstDB:.1e} reverse missing {missing}')
fcc = crystal.Crystal.FCC(1.)
run('fcc 2x2x2(prim)', fcc, 0, (), 2*np.eye(3,dtype=int), 0.8, 0.75)
b2 = crystal.Crystal(np.eye(3), [[np.zeros(3)],[np.array([.5,.5,.5])]], chemistry=['A','B'])
run('B2 mobile A, spectator B', b2, 0, (1,), np.array([[2,0,0],[0,2,0],[0,0,2]]), 1.01, 1.01)
hcp = crystal.Crystal.HCP(1.)
run('hcp 2x2x1', hcp, 0, (), np.array([[2,0,0],[0,2,0],[0,0,1]]), 1.01, 1.01)
run('hcp nondiag', hcp, 0, (), np.array([[2,1,0],[0,2,0],[0,0,1]]), 1.01, 1.01)
