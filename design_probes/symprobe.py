import sympy as sp, time
A=sp.Matrix(3,3,sp.symbols('A:9')); C=sp.Matrix(3,3,sp.symbols('C:9')); R=sp.Matrix(3,3,sp.symbols('R:9'))
n=sp.Matrix(sp.symbols('n:3')); u=sp.Matrix(sp.symbols('u:3')); w=sp.Matrix(sp.symbols('w:3')); t=sp.Matrix(sp.symbols('t:3')); d=sp.Matrix(sp.symbols('d:3'))
hyp = list(C*A - A*R) + list(d - (R*u + t - w))
goal = list(A*(R*n + d + w) - (C*(A*(n+u)) + A*t))
t0=time.time()
# substitute d (linear hyp) then reduce modulo the CA=AR relations
gens = list(A)+list(C)+list(R)+list(n)+list(u)+list(w)+list(t)+list(d)
for g in goal:
    q, r = sp.reduced(sp.expand(g), hyp, *gens, order='grevlex')
    print(r, end=' ')
print('\n', round(time.time()-t0,2))
