import numpy as np, warnings, time
warnings.filterwarnings('ignore')
from onsager import crystal, OnsagerCalc
rng = np.random.default_rng(11)
def tracer_check(name, crys, chem, cutoff, Nthermo=1, trials=3):
    t0=time.time()
    sl = crys.sitelist(chem); jn = crys.jumpnetwork(chem, cutoff)
    d = OnsagerCalc.VacancyMediated(crys, chem, sl, jn, Nthermo)
    tb=time.time()-t0
    worst = [0,0,0,0]; 
    for t in range(trials):
        N=len(sl); J=len(jn)
        td = {'preV': rng.uniform(.5,2,N), 'eneV': rng.uniform(0,1.5,N), 'preT0': rng.uniform(.5,2,J), 'eneT0': 1.5+rng.uniform(0,2,J)}
        td.update(d.maketracerpreene(**td))
        L0vv, Lss, Lsv, L1vv = d.Lij(*d.preene2betafree(1.0, **td))
        sc = np.abs(L0vv).max()
        worst[0] = max(worst[0], np.abs(Lsv+L0vv).max()/sc)
        worst[1] = max(worst[1], np.abs(L1vv).max()/sc)
        worst[2] = max(worst[2], -np.linalg.eigvalsh(Lss).min()/sc)
        worst[3] = max(worst[3], -np.linalg.eigvalsh(L0vv-Lss).min()/sc)
    print(f'{name}: sites {d.N} Wyck {len(sl)} om0 {len(jn)} Nvstars {d.vkinetic.Nvstars} build {tb:.1f}s total {time.time()-t0:.1f}s |Lsv+L0vv| {worst[0]:.1e} |L1vv| {worst[1]:.1e} -minEig(Lss) {worst[2]:.1e} -minEig(L0vv-Lss) {worst[3]:.1e}', flush=True)
tracer_check('fcc', crystal.Crystal.FCC(1.), 0, 0.75)
tracer_check('bcc', crystal.Crystal.BCC(1.), 0, 0.9)
tracer_check('square2D', crystal.Crystal(np.eye(2), [np.zeros(2)]), 0, 1.01)
tracer_check('honeycomb2D', crystal.Crystal(np.array([[1,0],[-0.5,np.sqrt(0.75)]]).T, [np.array([1/3,2/3]), np.array([2/3,1/3])]), 0, 0.6)
tracer_check('hcp', crystal.Crystal.HCP(1.), 0, 1.01)
# two inequivalent Wyckoff sets, same chemistry: tetragonal cell with sites at origin and body centre displaced
tet = crystal.Crystal(np.diag([1.,1.,1.2]), [[np.zeros(3), np.array([0.5,0.5,0.4])]])
print('tet sitelist', tet.sitelist(0), '|G|', len(tet.G))
tracer_check('tet2W', tet, 0, 0.95)
tracer_check('fccN2', crystal.Crystal.FCC(1.), 0, 0.75, Nthermo=2, trials=1)
