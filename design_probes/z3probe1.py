# hand-encoded feasibility probe: setocc WF preservation with array-of-lists model
from z3 import *
import time
L, K = Ints('L K')            # number of sites, number of chem lists (= self.Nchem)
occ = Array('occ', IntSort(), IntSort())
colen = Array('colen', IntSort(), IntSort())           # len(chemorder[c])
co = Array('co', IntSort(), ArraySort(IntSort(), IntSort()))  # chemorder[c][k]
def WF(occ, colen, co):
    c,k,k2,i = Ints('c k k2 i')
    return And(
        ForAll([i], Implies(And(0<=i,i<L), And(-1<=occ[i], occ[i]<K))),
        ForAll([c], Implies(And(0<=c,c<K), colen[c]>=0)),
        ForAll([c,k], Implies(And(0<=c,c<K,0<=k,k<colen[c]), And(0<=co[c][k], co[c][k]<L, occ[co[c][k]]==c))),
        ForAll([c,k,k2], Implies(And(0<=c,c<K,0<=k,k<k2,k2<colen[c]), co[c][k]!=co[c][k2])),
        # every occupied site is listed: use a ghost position function
    )
pos = Function('pos', IntSort(), IntSort())  # ghost: index of site i inside chemorder[occ[i]]
def LISTED(occ, colen, co, pos):
    i = Int('i')
    return ForAll([i], Implies(And(0<=i,i<L,occ[i]>=0), And(0<=pos(i), pos(i)<colen[occ[i]], co[occ[i]][pos(i)]==i)))
ind, cnew = Ints('ind cnew')
s = Solver(); s.set('timeout', 20000)
s.add(L>0, K>0, 0<=ind, ind<L, WF(occ,colen,co), LISTED(occ,colen,co,pos))
# code path: range check passes (current code): not (c < -2 or c > crysNchem)
crysN = Int('crysN'); Nsol = Int('Nsol')
s.add(crysN>=1, Nsol>=0, K == If(Nsol>0, crysN+Nsol, crysN))
s.add(Not(Or(cnew < -2, cnew > crysN)))
corig = occ[ind]
# path corig != c, corig>=0, c>=0 : pop + append
kidx = Int('kidx')
path = And(corig != cnew)
# model pop on list corig (if corig>=0)
colen1 = If(corig>=0, Store(colen, corig, colen[corig]-1), colen)
j = Int('j')
lst = co[corig]
lst1 = Array('lst1', IntSort(), IntSort())
s.add(Implies(corig>=0, And(0<=kidx, kidx<colen[corig], lst[kidx]==ind,
        ForAll([j], Implies(And(0<=j, j<kidx), And(lst[j]!=ind, lst1[j]==lst[j]))),
        ForAll([j], Implies(j>=kidx, lst1[j]==lst[j+1])))))
co1 = If(corig>=0, Store(co, corig, lst1), co)
# append (if c>=0) -- note: real code indexes chemorder[c]; IndexError if c>=K : obligation "no exception"
colen2 = If(cnew>=0, Store(colen1, cnew, colen1[cnew]+1), colen1)
co2 = If(cnew>=0, Store(co1, cnew, Store(co1[cnew], colen1[cnew], ind)), co1)
occ2 = Store(occ, ind, cnew)
s.add(path)
# obligation 1: no IndexError on chemorder[c]
s.push(); s.add(cnew>=0, Not(cnew<K)); t=time.time(); r=s.check(); print('chemorder[c] in range? cex:', r, round(time.time()-t,2)); 
if r==sat:
    m=s.model(); print({str(d):m[d] for d in [cnew,crysN,Nsol,K]})
s.pop()
# obligation 2: WF preserved
s.push(); s.add(cnew<K); s.add(Not(WF(occ2,colen2,co2))); t=time.time(); r=s.check(); print('WF preserved? cex:', r, round(time.time()-t,2))
if r==sat:
    m=s.model(); print({str(d):m[d] for d in [cnew,crysN,Nsol,K,ind]})
s.pop()
# with fixed precondition -1<=c<K
s.push(); s.add(cnew>=-1, cnew<K); s.add(Not(WF(occ2,colen2,co2))); t=time.time(); r=s.check(); print('WF preserved under -1<=c<K? cex:', r, round(time.time()-t,2)); s.pop()
