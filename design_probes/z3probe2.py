from z3 import *
import time, itertools
def mat(name, sort=Real): return [[sort(f'{name}{i}{j}') for j in range(3)] for i in range(3)]
def vec(name, sort=Real): return [sort(f'{name}{i}') for i in range(3)]
def mm(A,B): return [[sum(A[i][k]*B[k][j] for k in range(3)) for j in range(3)] for i in range(3)]
def mv(A,v): return [sum(A[i][k]*v[k] for k in range(3)) for i in range(3)]
def va(u,v): return [a+b for a,b in zip(u,v)]
def vs(u,v): return [a-b for a,b in zip(u,v)]
A=mat('A'); C=mat('C'); R=mat('R',Int); Rv=vec('n',Int); u=vec('u'); up=vec('w'); t=vec('t'); d=vec('d',Int)
s=Solver(); s.set('timeout',60000)
CA=mm(C,A); AR=mm(A,[[ToReal(x) for x in row] for row in R])
for i in range(3):
    for j in range(3): s.add(CA[i][j]==AR[i][j])
Rr=[[ToReal(x) for x in row] for row in R]
Ru=mv(Rr,u)
for i in range(3): s.add(ToReal(d[i]) == Ru[i]+t[i]-up[i])
# real code: delu = round(R u + t - u') ; under hypothesis it's d exactly. g_pos returns R n + d, index'
newR=[ToReal(sum(R[i][k]*Rv[k] for k in range(3)) + d[i]) for i in range(3)]
lhs = mv(A, va(newR, up))                       # pos2cart(g_pos(...))
rhs = va(mv(C, mv(A, va([ToReal(x) for x in Rv], u))), mv(A,t))   # g_cart(g, pos2cart(R,ind))
s.add(Or(*[lhs[i]!=rhs[i] for i in range(3)]))
t0=time.time(); print(s.check(), round(time.time()-t0,2))
