import numpy as np, warnings
warnings.filterwarnings('ignore')
from onsager import crystal
x,y,z = 0.21,0.13,0.17
A = [np.array(p) for p in ((x,y,z),(-x,-y,z),(y,-x,-z),(-y,x,-z))]
c = crystal.Crystal(np.diag([1.,1.,1.3]), [A, [np.zeros(3)]], chemistry=['A','B'])
print('|G|', len(c.G), 'optypes', sorted(crystal.GroupOp.optype(g.rot) for g in c.G))
ind = (1,0)
H = c.pointG[1][0]
print('site point group size', len(H))
vb = c.VectorBasis(ind); print('VectorBasis dim', vb[0], vb[1])
expected = round(sum(np.trace(g.cartrot) for g in H)/len(H)); print('expected invariant dim', expected)
for v in c.vectlist(vb):
    print(' v', v, 'invariant under all?', all(np.allclose(g.cartrot@v, v) for g in H))
VB, VV = c.FullVectorBasis(1); print('FullVectorBasis count for B', len(VB))
