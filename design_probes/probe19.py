import numpy as np, warnings, itertools
warnings.filterwarnings('ignore')
from onsager import crystal, cluster, supercell
rng = np.random.default_rng(33)
def run(name, crys, chem, superlatt, cutoff_cl, cutoff_jump, maxorder=2):
    clexp0 = cluster.makeclusters(crys, cutoff_cl, maxorder)
    vac = cluster.makeVacancyClusters(crys, chem, clexp0)
    clexp = clexp0 + vac
    jn = crys.jumpnetwork(chem, cutoff_jump)
    TS = cluster.makeTSclusters(crys, chem, jn, clexp)
    Ev = rng.normal(size=len(clexp)+1); TSv = rng.normal(size=len(TS)); KRA = rng.uniform(0.5,1.5,size=len(jn))
    def sampler(v):
        sup = supercell.ClusterSupercell(crys, superlatt); sup.addvacancy(v)
        return sup, cluster.MonteCarloSampler(sup, np.zeros(0,dtype=int), clexp, Ev, chem, jn, KRAvalues=KRA, TSclusters=TS, TSvalues=TSv)
    sup0, MC0 = sampler(0)
    Nm = sup0.Nmobile*sup0.size
    samplers = {0:(sup0,MC0)}
    worstE=0; worstDB=0; nconf=0; ntr=0; missing=0
    others = [i for i in range(Nm) if i!=0]
    for conf in itertools.product((0,1), repeat=len(others)):
        occ = np.zeros(Nm,dtype=int); occ[others]=conf; occ[0]=-1; nconf+=1
        mocc = occ.copy(); mocc[0]=0
        Eb = float(np.dot(sup0.evalcluster(mocc, np.zeros(0,dtype=int), clexp), Ev))
        MC0.start(occ.copy()); E0 = MC0.E(); worstE=max(worstE,abs(E0-Eb))
        ij,Q,dx = MC0.transitions()
        for (i,j),q,d in zip(ij,Q,dx):
            ntr+=1
            if j not in samplers: samplers[j]=sampler(j)
            sup2,MC2 = samplers[j]
            occ2 = occ.copy(); occ2[i],occ2[j] = occ[j],occ[i]
            MC2.start(occ2.copy()); E2=MC2.E()
            found=False
            for (a,b),q2,d2 in zip(*MC2.transitions()):
                if a==j and b==i and np.allclose(d2,-d):
                    found=True; worstDB=max(worstDB, abs((E0+q)-(E2+q2)))
            if not found: missing+=1
    print(f'{name}: sites {Nm} vac-clusters {sum(len(c) for c in vac)} TS {sum(len(c) for c in TS)} configs {nconf} transitions {ntr}: |E-brute| {worstE:.1e} detailed-balance {worstDB:.1e} reverse missing {missing}')
fcc = crystal.Crystal.FCC(1.)
run('fcc 2x2x2 vacancy', fcc, 0, 2*np.eye(3,dtype=int), 0.8, 0.75)
hcp = crystal.Crystal.HCP(1.)
run('hcp 2x2x1 vacancy', hcp, 0, np.array([[2,0,0],[0,2,0],[0,0,1]]), 1.01, 1.01)
