import numpy as np, warnings
warnings.filterwarnings('ignore')
from onsager import crystal, OnsagerCalc
rng = np.random.default_rng(4)
def run(name, crys, chem, cutoff):
    sl = crys.sitelist(chem); jn = crys.jumpnetwork(chem, cutoff)
    d = OnsagerCalc.VacancyMediated(crys, chem, sl, jn, 1)
    N=len(sl); J=len(jn)
    td = {'preV': np.ones(N), 'eneV': np.zeros(N), 'preS': np.ones(N), 'eneS': np.zeros(N),
          'preSV': rng.uniform(.5,2,d.thermo.Nstars), 'eneSV': rng.uniform(-.5,.5,d.thermo.Nstars),
          'preT0': rng.uniform(.5,2,J), 'eneT0': 1+rng.uniform(0,1,J)}
    td.update(d.makeLIMBpreene(**td))
    td['eneT1'] = td['eneT1'] + rng.uniform(-.3,.3,len(td['eneT1']))
    base = td['preT2'].copy()
    prev=None
    for s in (1e-3, 1, 1e3, 1e6, 1e8, 1e10, 1e12, 1e14, 1e16):
        td['preT2'] = base*s
        args = d.preene2betafree(1.0, **td)
        Ld = d.Lij(*args)
        Ll = d.Lij(*args, large_om2=0.)
        Ls = d.Lij(*args, large_om2=np.inf)
        sc = max(np.abs(x).max() for x in Ld[1:])
        fin = all(np.isfinite(x).all() for x in Ld)
        sym = max(np.abs(x-x.T).max() for x in Ld)/sc
        dls = max(np.abs(a-b).max() for a,b in zip(Ll[1:],Ls[1:]))/sc
        dld = max(np.abs(a-b).max() for a,b in zip(Ll[1:],Ld[1:]))/sc
        step = None if prev is None else max(np.abs(a-b).max() for a,b in zip(prev[1:],Ld[1:]))/sc
        prev = Ld
        print(f'{name} scale {s:.0e}: finite {fin} sym {sym:.1e} |large-std| {dls:.1e} |large-default| {dld:.1e} step {step if step is None else format(step,".1e")}  Lss00 {Ld[1][0,0]:.6g}')
run('fcc', crystal.Crystal.FCC(1.), 0, 0.75)
run('hcp', crystal.Crystal.HCP(1.), 0, 1.01)
