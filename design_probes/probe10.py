import numpy as np, warnings, itertools
warnings.filterwarnings('ignore')
from onsager import crystal
rng = np.random.default_rng(2)
def brute(c, chem, cutoff, closest=None, win=4):
    out = []
    basis = c.basis[chem]
    for i,u0 in enumerate(basis):
        for j,u1 in enumerate(basis):
            for n in itertools.product(range(-win,win+1), repeat=c.dim):
                dx = c.lattice @ (np.array(n) + u1 - u0)
                d2 = dx@dx
                if 1e-12 < d2 < cutoff**2:
                    ok = True
                    if closest is not None:
                        x0 = c.lattice @ u0
                        for cc, atoms in enumerate(c.basis):
                            if cc == chem: continue
                            for ua in atoms:
                                for m in itertools.product(range(-win,win+1), repeat=c.dim):
                                    xa = c.lattice @ (np.array(m)+ua) - x0
                                    t = xa@dx
                                    if 0 <= t <= d2:
                                        perp2 = (xa@xa*d2 - t*t)/d2
                                        if perp2 < closest**2 + 1e-9: ok=False
                    if ok: out.append((i,j,dx))
    return out
def compare(c, chem, cutoff, closest=None):
    jn = c.jumpnetwork(chem, cutoff, closest if closest is not None else 0) if closest is not None else c.jumpnetwork(chem, cutoff)
    flat = [(i,j,dx) for jl in jn for (i,j),dx in jl]
    br = brute(c, chem, cutoff, closest)
    def key(t): return (t[0],t[1])+tuple(np.round(t[2],6))
    A = sorted(map(key, flat)); B = sorted(map(key, br))
    dup = len(A) - len(set(A))
    return len(A), len(B), dup, set(A)==set(B)
bad=0
for trial in range(14):
    dim = 3 if trial%3 else 2
    A = np.eye(dim) + 0.3*rng.normal(size=(dim,dim))
    nat = int(rng.integers(1,4))
    basis = [rng.uniform(0,1,dim) for _ in range(nat)]
    try:
        c = crystal.Crystal(A, [basis, [rng.uniform(0,1,dim)]])
    except Exception as e:
        print('construct fail', e); continue
    shells = sorted(set(np.round([np.sqrt(d[2]@d[2]) for d in brute(c,0,1.6,None,3)],5)))
    if len(shells)<3: continue
    cutoff = 0.5*(shells[1]+shells[2])
    r = compare(c, 0, cutoff); r2 = compare(c, 0, cutoff, closest=0.25)
    flag = '' if (r[3] and r[2]==0 and r2[3] and r2[2]==0) else '  <-- MISMATCH'
    if flag: bad+=1
    print(f'trial {trial} dim {dim} nat {nat} |G| {len(c.G)} cutoff {cutoff:.3f}: code {r[0]} brute {r[1]} dup {r[2]} equal {r[3]} | obstructed: code {r2[0]} brute {r2[1]} equal {r2[3]}{flag}')
print('mismatches', bad)
