"""Verification framework for DallasTrinkle/Onsager (contract-based deductive verification).
See /verif/DESIGN.md."""
