"""E1 -- pyvc: a forward symbolic executor over the Python AST of functions extracted from /repo
on every run.  It produces verification conditions (obligations) for sidecar contracts and
discharges them with z3 (cvc5 on `unknown`).

Python semantics assumed by this encoder (repeated in every evidence file that uses it):
  * ints are mathematical integers; numpy integer arrays do not overflow; floats are reals;
  * lists / 1-D arrays are (length, Array Int -> elem); a list of lists is (length, lengths,
    Array Int -> Array Int -> elem) and its inner lists are distinct objects (no aliasing between
    rows -- a separate syntactic obligation checks every assignment to such a field is a fresh
    comprehension/literal);
  * subscripts follow CPython/numpy: an obligation -len <= i < len is generated (IndexError otherwise) and negative
    indices count from the end;
  * list.index / list.pop / list.append / set.add / set.remove / `in` / dict get-set follow the
    CPython documentation (specified primitives, part of the trusted base, cross-checked at run
    time by evaluating the same contract on the real function);
  * iteration over a list/array/range is in index order; the iterable is not mutated by the body
    (checked syntactically against the body's write set).
Anything outside the supported subset raises Undecided: the obligations of that function are then
reported undecided (exit 2), never passed and never a violation."""
import ast, itertools, time
import z3
from ..common import Undecided, CheckerFault
from .. import spec as S

INT, REAL, BOOL = z3.IntSort(), z3.RealSort(), z3.BoolSort()
_ctr = itertools.count()


def _has_quantifier(f):
    seen = set(); todo = [f]
    while todo:
        t = todo.pop()
        if not isinstance(t, z3.ExprRef): continue
        if t.get_id() in seen: continue
        seen.add(t.get_id())
        if z3.is_quantifier(t): return True
        todo.extend(t.children())
        if len(seen) > 4000: return True
    return False


def fresh(name, sort):
    return z3.Const('%s!%d' % (name, next(_ctr)), sort)


def zint(x):
    if isinstance(x, z3.ExprRef): return x
    if isinstance(x, bool): return z3.BoolVal(x)
    if isinstance(x, int): return z3.IntVal(x)
    if isinstance(x, float): return z3.RealVal(repr(x))
    raise Undecided('cannot make a term of %r' % (x,))


def zbool(x):
    if isinstance(x, z3.BoolRef): return x
    if isinstance(x, bool): return z3.BoolVal(x)
    if isinstance(x, z3.ArithRef): return x != 0
    if isinstance(x, int): return z3.BoolVal(x != 0)
    raise Undecided('truth value of %r' % (x,))


# ---------------------------------------------------------------------------------------------
# heap values (immutable python objects; "mutation" replaces the heap entry)

class SSeq:
    """list / 1-D array: same view API as spec.CSeq"""
    kind = 'seq'

    def __init__(self, length, arr):
        self.len, self.arr = length, arr

    def __getitem__(self, i): return z3.Select(self.arr, zint(i))

    def store(self, i, v): return SSeq(self.len, z3.Store(self.arr, zint(i), zint(v)))

    @property
    def esort(self): return self.arr.sort().range()

    @staticmethod
    def fresh(name, esort=INT):
        return SSeq(fresh(name + '.len', INT), fresh(name, z3.ArraySort(INT, esort)))


class SSeq2:
    """list of lists: same view API as spec.CSeq2"""
    kind = 'seq2'

    def __init__(self, length, lens, arrs):
        self.len, self.lens, self.arrs = length, lens, arrs

    def lenof(self, c): return z3.Select(self.lens, zint(c))

    def at(self, c, k): return z3.Select(z3.Select(self.arrs, zint(c)), zint(k))

    def row(self, c): return SSeq(self.lenof(c), z3.Select(self.arrs, zint(c)))

    def setrow(self, c, seq):
        return SSeq2(self.len, z3.Store(self.lens, zint(c), seq.len), z3.Store(self.arrs, zint(c), seq.arr))

    @staticmethod
    def fresh(name, esort=INT):
        return SSeq2(fresh(name + '.len', INT), fresh(name + '.lens', z3.ArraySort(INT, INT)),
                     fresh(name, z3.ArraySort(INT, z3.ArraySort(INT, esort))))


class SRecSeq:
    """list of tuples of one fixed nested shape whose leaves are integers (identifiers, indices): one array per leaf.
    `shape` is the nesting: None for a leaf, a tuple of shapes for a tuple."""
    kind = 'recseq'

    def __init__(self, length, arrs, shape): self.len, self.arrs, self.shape = length, list(arrs), shape

    def leaf(self, j, k): return z3.Select(self.arrs[j], zint(k))

    def item(self, k):
        it = iter(range(len(self.arrs)))
        def build(sh):
            if sh is None: return self.leaf(next(it), k)
            return Tup([build(x) for x in sh])
        return build(self.shape)

    @staticmethod
    def flatten(v):
        """Tup of ints / Tups -> (leaves, shape)"""
        if isinstance(v, Tup):
            leaves, shapes = [], []
            for x in v.items:
                l, sh = SRecSeq.flatten(x); leaves += l; shapes.append(sh)
            return leaves, tuple(shapes)
        return [zint(v)], None

    def appended(self, v):
        leaves, sh = SRecSeq.flatten(v)
        if sh != self.shape: raise Undecided('record of a different shape appended to a list of records')
        return SRecSeq(self.len + 1, [z3.Store(a, self.len, x) for a, x in zip(self.arrs, leaves)], self.shape)

    @staticmethod
    def fresh(name, shape, nleaves):
        return SRecSeq(fresh(name + '.len', INT), [fresh('%s.f%d' % (name, j), z3.ArraySort(INT, INT)) for j in range(nleaves)], shape)


class SMat:
    """2-D array with `nrows` rows; row i is (ncols, data[i]) -- same API as SSeq2 with constant lenof"""
    kind = 'mat'

    def __init__(self, nrows, ncols, data):
        self.len, self.ncols, self.data = nrows, ncols, data

    def lenof(self, c): return self.ncols

    def at(self, i, j): return z3.Select(z3.Select(self.data, zint(i)), zint(j))

    def row(self, i): return SSeq(self.ncols, z3.Select(self.data, zint(i)))

    def store(self, i, j, v):
        r = z3.Store(z3.Select(self.data, zint(i)), zint(j), zint(v))
        return SMat(self.len, self.ncols, z3.Store(self.data, zint(i), r))

    @staticmethod
    def fresh(name, esort=INT):
        return SMat(fresh(name + '.nrows', INT), fresh(name + '.ncols', INT),
                    fresh(name, z3.ArraySort(INT, z3.ArraySort(INT, esort))))


class SSet:
    kind = 'set'

    def __init__(self, mem): self.mem = mem

    def has(self, i): return z3.Select(self.mem, zint(i))

    def add(self, i): return SSet(z3.Store(self.mem, zint(i), z3.BoolVal(True)))

    def remove(self, i): return SSet(z3.Store(self.mem, zint(i), z3.BoolVal(False)))

    @staticmethod
    def empty(): return SSet(z3.K(INT, z3.BoolVal(False)))

    @staticmethod
    def fresh(name): return SSet(fresh(name, z3.ArraySort(INT, BOOL)))


class SDict:
    kind = 'dict'

    def __init__(self, dom, val): self.dom, self.val = dom, val

    def has(self, k): return z3.Select(self.dom, zint(k))

    def get(self, k): return z3.Select(self.val, zint(k))

    def set(self, k, v):
        return SDict(z3.Store(self.dom, zint(k), z3.BoolVal(True)), z3.Store(self.val, zint(k), zint(v)))

    @staticmethod
    def empty(vsort=INT): return SDict(z3.K(INT, z3.BoolVal(False)), fresh('dict0', z3.ArraySort(INT, vsort)))

    @staticmethod
    def fresh(name, vsort=INT):
        return SDict(fresh(name + '.dom', z3.ArraySort(INT, BOOL)), fresh(name, z3.ArraySort(INT, vsort)))


class Obj:
    kind = 'obj'

    def __init__(self, fields): self.fields = dict(fields)

    def with_field(self, k, v):
        f = dict(self.fields); f[k] = v
        return Obj(f)


class Ref:
    __slots__ = ('loc',)

    def __init__(self, loc): self.loc = loc

    def __repr__(self): return 'Ref(%d)' % self.loc


class InnerRef:
    """reference to inner list `idx` of the list-of-lists at `loc`"""
    __slots__ = ('loc', 'idx')

    def __init__(self, loc, idx): self.loc, self.idx = loc, idx


class Tup:
    def __init__(self, items): self.items = list(items)


class Opaque:
    """a value the encoder does not model (strings, callables); only passed around"""
    def __init__(self, what): self.what = what


def fresh_like(v, name):
    if isinstance(v, bool): return fresh(name, BOOL)
    if isinstance(v, int): return fresh(name, INT)
    if isinstance(v, float): return fresh(name, REAL)
    if isinstance(v, SSeq): return SSeq.fresh(name, v.esort)
    if isinstance(v, SSeq2): return SSeq2.fresh(name, v.arrs.sort().range().range())
    if isinstance(v, SRecSeq): return SRecSeq.fresh(name, v.shape, len(v.arrs))
    if isinstance(v, SMat): return SMat(v.len, v.ncols, fresh(name, v.data.sort()))   # shape is immutable
    if isinstance(v, SSet): return SSet.fresh(name)
    if isinstance(v, SDict): return SDict.fresh(name, v.val.sort().range())
    if isinstance(v, z3.ExprRef): return fresh(name, v.sort())
    raise Undecided('cannot havoc %r' % (v,))


def make_shape(shape, name, heap):
    """Build a symbolic value of the declared shape; containers are allocated in `heap`."""
    def alloc(v):
        loc = next(_ctr); heap[loc] = v
        return Ref(loc)
    if isinstance(shape, dict):
        return alloc(Obj({k: make_shape(v, name + '.' + k, heap) for k, v in shape.items()}))
    if isinstance(shape, tuple) and shape[0] == 'tuple':
        return Tup([make_shape(s, '%s[%d]' % (name, i), heap) for i, s in enumerate(shape[1])])
    if isinstance(shape, tuple) and shape[0] == 'const':
        return shape[1]
    if shape == 'int': return fresh(name, INT)
    if shape == 'real': return fresh(name, REAL)
    if shape == 'bool': return fresh(name, BOOL)
    if shape == 'seq_int': return alloc(SSeq.fresh(name, INT))
    if shape == 'seq_real': return alloc(SSeq.fresh(name, REAL))
    if shape == 'seq2_int': return alloc(SSeq2.fresh(name, INT))
    if shape == 'mat_int': return alloc(SMat.fresh(name, INT))
    if shape == 'set_int': return alloc(SSet.fresh(name))
    if shape == 'dict_int_int': return alloc(SDict.fresh(name, INT))
    if shape == 'opaque': return Opaque(name)
    raise CheckerFault('unknown shape %r' % (shape,))


# ---------------------------------------------------------------------------------------------
# views handed to contracts

class ObjView:
    def __init__(self, ps, obj): self._ps, self._obj = ps, obj

    def __getattr__(self, k):
        if k.startswith('_'): raise AttributeError(k)
        try: v = self._obj.fields[k]
        except KeyError: raise Undecided('contract refers to field %s which the state does not have' % k)
        return view_of(self._ps, v)


def view_of(ps, v):
    if isinstance(v, Ref):
        hv = ps.heap[v.loc]
        return ObjView(ps, hv) if isinstance(hv, Obj) else hv
    if isinstance(v, InnerRef): return ps.heap[v.loc].row(v.idx)
    if isinstance(v, Tup):
        if len(v.items) == 1 and isinstance(v.items[0], dict): return {k: view_of(ps, x) for k, x in v.items[0].items()}      # dict display
        return tuple(view_of(ps, x) for x in v.items)
    return v


class LocalsView:
    def __init__(self, ps): self._ps = ps

    def __getitem__(self, k):
        if k not in self._ps.env: raise Undecided('invariant refers to local %r which does not exist (renamed?)' % k)
        return view_of(self._ps, self._ps.env[k])

    def __contains__(self, k): return k in self._ps.env


class StateView:
    """what a contract sees: .self (fields), .v[name] (locals / parameters)"""
    def __init__(self, ps):
        self._ps = ps
        self.v = LocalsView(ps)

    @property
    def self(self): return view_of(self._ps, self._ps.env['self'])


# ---------------------------------------------------------------------------------------------

class PS:
    """path state"""
    def __init__(self, env=None, heap=None, pc=None):
        self.env, self.heap, self.pc = env or {}, heap or {}, pc or []

    def fork(self): return PS(dict(self.env), dict(self.heap), list(self.pc))


class Obligation:
    def __init__(self, name, hyps, goal, line=0, kind='post'):
        self.name, self.hyps, self.goal, self.line, self.kind = name, hyps, goal, line, kind


MUTATORS = {'append', 'pop', 'add', 'remove', 'sort', 'clear', 'extend', 'insert', 'update', 'discard', 'fill'}


class Contract:
    """Sidecar contract of one function.  Subclass / instantiate with:
      relpath, qualname           where the function lives in /repo
      self_shape, params          symbolic shapes (params: ordered dict name -> shape)
      pre(s)                      s = StateView of the entry state (s.self.<field>, s.v[param])
      raises = {exc: cond(s)}     raised iff cond (under pre) and then `modifies` are unchanged
      post(old, new, result)      on normal return
      modifies = [fields of self] every other field must be provably unchanged
      loops = {ordinal: inv(cur, k, old)}
      foreach = {ordinal: True}   loop over an abstracted iterable (membership facts only)
      callees = {method name: Contract}
      facts(s) -> [z3]            extra axioms (ghost function definitions, proved lemmas)
    """
    relpath = qualname = None
    self_shape, params = {}, {}
    modifies = ()
    raises = {}
    loops = {}
    callees = {}
    consts = {}        # names resolved to constants / opaque globals

    def pre(self, s): return True

    def post(self, old, new, result): return True

    # ---- concrete side (run-time evaluation of the same contract on the real function) -------------
    def ghost_concrete(self, obj): return {}

    def abstract(self, obj, args, result=None):
        """real object + argument tuple -> NS(self=NS(...fields as concrete views...), v={param: value})"""
        def conv(shape, val):
            if isinstance(shape, dict): return S.NS(**{k: conv(sh, getattr(val, k)) for k, sh in shape.items() if not k.startswith('g_')})
            if isinstance(shape, tuple) and shape[0] == 'tuple': return tuple(conv(sh, v) for sh, v in zip(shape[1], val))
            if shape == 'int': return int(val)
            if shape == 'real': return float(val)
            if shape == 'bool': return bool(val)
            if shape == 'seq_int': return S.CSeq([int(x) for x in val])
            if shape == 'seq_real': return S.CSeq([float(x) for x in val])
            if shape == 'seq2_int': return S.CSeq2([[int(x) for x in row] for row in val])
            if shape == 'mat_int': return S.CSeq2([[int(x) for x in row] for row in val])
            if shape == 'set_int': return S.CSet(val)
            return val
        sv = None
        if self.self_shape is not None:
            sv = conv(self.self_shape, obj)
            for k, v in self.ghost_concrete(obj).items(): setattr(sv, k, v)
        v = {k: conv(sh, a) for (k, sh), a in zip(self.params.items(), args)}
        v.update(self.ghost_params_concrete(obj, args))
        return S.NS(self=sv, v=v)

    def ghost_params_concrete(self, obj, args): return {}

    def abstract_result(self, result): return result

    def call(self, obj, args):
        return getattr(obj, self.qualname.split('.')[-1])(*args)

    def build(self, conc):
        """concrete pre-state (from a solver model) -> (real object, args) or (None, None)"""
        return None, None

    @staticmethod
    def same_field(a, b):
        return a == b

    def frame_fields(self):
        return [f for f in (self.self_shape or {}) if f not in self.modifies and not f.startswith('g_')
                and not isinstance(self.self_shape[f], dict) and self.self_shape[f] != 'opaque']

    def facts(self, s): return []

    def lemma_obligations(self, s):
        """[(name, hypotheses, goal)]: lemmas about ghost functions (induction base/step) proved as obligations of
        their own; `facts` may then assume the universally quantified lemma"""
        return []

    def ghost_exit(self, old, new):
        """ghost fields at function exit: {field: (length, fn(index) -> term)}; the real code never
        touches ghost fields, the contract defines them as a function of the old ghost and the states"""
        return {}

    ghost_step = {}    # loop ordinal -> fn(before_iteration_view, after_iteration_view, k) -> {field: (len, fn)}


class Exec:
    def __init__(self, contract, extracted, timeout_ms=10000):
        self.c, self.fn, self.timeout = contract, extracted, timeout_ms
        self.obligations = []
        self.loop_nodes = extracted.loops()
        self.notes = []
        self.covers = []   # (name, pc) reachability covers

    # ---- helpers -------------------------------------------------------------------------
    def oblige(self, name, ps, goal, line=0, kind='safety', extra_hyps=()):
        goal = goal if isinstance(goal, z3.ExprRef) else z3.BoolVal(bool(goal))
        self.obligations.append(Obligation(name, list(ps.pc) + list(extra_hyps), goal, line, kind))

    def oblige_inv(self, name, line, ps, inv):
        if isinstance(inv, dict):
            for k, g in inv.items(): self.oblige('%s:%s@L%d' % (name, k, line), ps, g, line, 'invariant')
        else:
            self.oblige('%s@L%d' % (name, line), ps, inv, line, 'invariant')

    @staticmethod
    def inv_formula(inv):
        if isinstance(inv, dict): inv = S.And(*inv.values())
        return zbool(inv) if isinstance(inv, z3.ExprRef) else z3.BoolVal(bool(inv))

    def alloc(self, ps, v):
        loc = next(_ctr); ps.heap[loc] = v
        return Ref(loc)

    def deref(self, ps, v):
        if isinstance(v, Ref): return ps.heap[v.loc]
        if isinstance(v, InnerRef): return ps.heap[v.loc].row(v.idx)
        return v

    def write(self, ps, ref, newval):
        if isinstance(ref, Ref): ps.heap[ref.loc] = newval
        elif isinstance(ref, InnerRef): ps.heap[ref.loc] = ps.heap[ref.loc].setrow(ref.idx, newval)
        else: raise Undecided('write through non-reference')

    def in_range(self, ps, i, n, node, what='index'):
        """CPython/numpy index semantics: -n <= i < n must hold (else IndexError), negative indices count from the
        end.  Returns the normalised index."""
        i, n = zint(i), zint(n)
        ok = z3.And(i >= -n, i < n)
        self.oblige('%s-in-range@L%d' % (what, node.lineno), ps, ok, node.lineno)
        ps.pc.append(ok)
        if z3.is_int_value(i): return i if i.as_long() >= 0 else z3.simplify(i + n)
        return z3.If(i < 0, i + n, i)

    def raise_if(self, ps, cond, exc, exits):
        """fork an exceptional exit under cond; continue the current path under not cond"""
        cond = zbool(cond)
        p = ps.fork(); p.pc.append(cond)
        exits.append((p, 'raise', exc))
        ps.pc.append(z3.Not(cond))

    # ---- expressions ---------------------------------------------------------------------
    def ev(self, e, ps, exits):
        ab = getattr(self.c, 'abstractions', None)
        if ab:
            key = ast.unparse(e)
            if key in ab:
                # an expression outside the encoder subset, replaced by a fresh value about which only the stated property is assumed
                # (every abstraction is listed with its justification in the evidence file; the rest of the function is the real code)
                shape, fn = ab[key]
                self.notes.append('abstracted: ' + key)
                with S.symbolic_mode():
                    if shape == 'expr': return fn(StateView(ps))
                    v = make_shape(shape, 'abs%d' % next(_ctr), ps.heap)
                    a = fn(view_of(ps, v), StateView(ps))
                    fact = zbool(a) if isinstance(a, z3.ExprRef) else z3.BoolVal(bool(a))
                    ps.pc.append(fact)
                    stack = getattr(self, '_abs_stack', None)
                    if stack:
                        if not isinstance(v, z3.ExprRef): raise Undecided('abstraction of a container-valued expression inside a comprehension element (line %d)' % e.lineno)
                        stack[-1].append((v, fact))
                return v
        m = getattr(self, 'ev_' + type(e).__name__, None)
        if m is None: raise Undecided('unsupported expression %s at line %d' % (type(e).__name__, e.lineno))
        return m(e, ps, exits)

    def ev_Constant(self, e, ps, exits):
        v = e.value
        if isinstance(v, (bool, int, float)) or v is None: return v
        return Opaque(repr(v))

    def ev_Name(self, e, ps, exits):
        if e.id in ps.env: return ps.env[e.id]
        if e.id in self.c.consts: return self.c.consts[e.id]
        if e.id in ('True', 'False', 'None'): return {'True': True, 'False': False, 'None': None}[e.id]
        if e.id == '__debug__': return True
        raise Undecided('unknown name %r at line %d' % (e.id, e.lineno))

    def ev_Tuple(self, e, ps, exits): return Tup([self.ev(x, ps, exits) for x in e.elts])

    def ev_Attribute(self, e, ps, exits):
        if isinstance(e.value, ast.Name) and e.value.id == 'np' and e.attr in ('inf', 'Inf', 'infty'):
            import numpy
            if not hasattr(numpy, e.attr):
                # external reference that does not resolve: AttributeError at run/compile time -- a definite failure
                self.oblige('external-reference-resolves:np.%s@L%d' % (e.attr, e.lineno), ps, z3.BoolVal(False), e.lineno, 'external')
            return z3.Real('np.inf')
        base = self.ev(e.value, ps, exits)
        if isinstance(base, Ref) and isinstance(ps.heap[base.loc], Obj):
            o = ps.heap[base.loc]
            if e.attr in o.fields: return o.fields[e.attr]
            raise Undecided('attribute %s not in declared shape (line %d)' % (e.attr, e.lineno))
        return ('boundmethod', base, e.attr, e)

    def ev_UnaryOp(self, e, ps, exits):
        v = self.ev(e.operand, ps, exits)
        if isinstance(e.op, ast.Not):
            return z3.Not(zbool(v)) if isinstance(v, z3.ExprRef) else (not v)
        if isinstance(e.op, ast.USub): return -v
        raise Undecided('unary op at line %d' % e.lineno)

    def ev_BoolOp(self, e, ps, exits):
        vals = [self.ev(x, ps, exits) for x in e.values]    # eager: operands must not raise conditionally
        vals = [zbool(v) if isinstance(v, z3.ExprRef) else bool(v) for v in vals]
        return S.And(*vals) if isinstance(e.op, ast.And) else S.Or(*vals)

    def ev_BinOp(self, e, ps, exits):
        a, b = self.ev(e.left, ps, exits), self.ev(e.right, ps, exits)
        if isinstance(a, (Ref, InnerRef, Tup, Opaque)) or isinstance(b, (Ref, InnerRef, Tup, Opaque)):
            raise Undecided('container arithmetic at line %d' % e.lineno)
        op = e.op
        if isinstance(op, ast.Add): return a + b
        if isinstance(op, ast.Sub): return a - b
        if isinstance(op, ast.Mult): return a * b
        if isinstance(op, ast.FloorDiv):
            if isinstance(b, int) and b > 0: return a / b if isinstance(a, z3.ExprRef) else a // b   # z3 int division floors for positive divisor
            if isinstance(b, z3.ArithRef) and b.is_int() and (isinstance(a, int) or (isinstance(a, z3.ArithRef) and a.is_int())):
                # symbolic positive divisor: z3's integer division / modulo agree with Python's floor semantics when the divisor is positive,
                # which is made an obligation (a zero divisor would raise ZeroDivisionError, a negative one rounds the other way)
                self.oblige('divisor-positive@L%d' % e.lineno, ps, b > 0, e.lineno)
                ps.pc.append(b > 0)
                return zint(a) / b
            raise Undecided('floor division by a symbolic value at line %d' % e.lineno)
        if isinstance(op, ast.Mod):
            if isinstance(b, int) and b > 0: return a % b
            if isinstance(b, z3.ArithRef) and b.is_int() and (isinstance(a, int) or (isinstance(a, z3.ArithRef) and a.is_int())):
                self.oblige('divisor-positive@L%d' % e.lineno, ps, b > 0, e.lineno)
                ps.pc.append(b > 0)
                return zint(a) % b
            raise Undecided('modulo by a symbolic value at line %d' % e.lineno)
        raise Undecided('binary operator %s at line %d' % (type(op).__name__, e.lineno))

    def ev_Compare(self, e, ps, exits):
        left = self.ev(e.left, ps, exits)
        out = []
        for op, right_e in zip(e.ops, e.comparators):
            right = self.ev(right_e, ps, exits)
            out.append(self.compare(op, left, right, ps, e))
            left = right
        return S.And(*out)

    def compare(self, op, a, b, ps, node):
        if isinstance(op, (ast.In, ast.NotIn)):
            r = self.contains(ps, b, a, node)
            return S.Not(r) if isinstance(op, ast.NotIn) else r
        if isinstance(op, (ast.Is, ast.IsNot)):
            if a is None or b is None:
                r = (a is None and b is None)
                if (a is None) != (b is None) and not (isinstance(a, (z3.ExprRef, Ref, InnerRef, Tup, int)) or isinstance(b, (z3.ExprRef, Ref, InnerRef, Tup, int))):
                    raise Undecided('is-comparison at line %d' % node.lineno)
                return (not r) if isinstance(op, ast.IsNot) else r
            raise Undecided('is-comparison at line %d' % node.lineno)
        for x in (a, b):
            if isinstance(x, (Ref, InnerRef, Tup, Opaque)) or x is None:
                raise Undecided('comparison of non-scalars at line %d' % node.lineno)
        if isinstance(op, ast.Eq): return a == b
        if isinstance(op, ast.NotEq): return a != b
        if isinstance(op, ast.Lt): return a < b
        if isinstance(op, ast.LtE): return a <= b
        if isinstance(op, ast.Gt): return a > b
        if isinstance(op, ast.GtE): return a >= b
        raise Undecided('comparison operator at line %d' % node.lineno)

    def contains(self, ps, container, x, node):
        cv = self.deref(ps, container)
        if isinstance(cv, SSeq):
            return S.exists(0, cv.len, lambda k: cv[k] == zint(x), name='in')
        if isinstance(cv, SSet): return cv.has(x)
        if isinstance(cv, SDict): return cv.has(x)
        if isinstance(cv, Tup) or isinstance(container, Tup):
            items = container.items
            return S.Or(*[it == x for it in items])
        raise Undecided('`in` on unsupported container at line %d' % node.lineno)

    def ev_IfExp(self, e, ps, exits):
        c = self.ev(e.test, ps, exits)
        a, b = self.ev(e.body, ps, exits), self.ev(e.orelse, ps, exits)
        if not isinstance(c, z3.ExprRef): return a if c else b
        return z3.If(zbool(c), zint(a), zint(b))

    def ev_Subscript(self, e, ps, exits):
        base = self.ev(e.value, ps, exits)
        bv = self.deref(ps, base)
        if isinstance(e.slice, ast.Slice):
            sl = e.slice
            if sl.lower is None and sl.step is None and sl.upper is not None and isinstance(bv, SSeq):
                n = self.ev(sl.upper, ps, exits)
                # a[:n] with 0 <= n <= len (python clamps; we require it not to rely on clamping)
                self.oblige('slice-bound-in-range@L%d' % e.lineno, ps, z3.And(zint(n) >= 0, zint(n) <= bv.len), e.lineno)
                ps.pc.append(z3.And(zint(n) >= 0, zint(n) <= bv.len))
                return self.alloc(ps, SSeq(zint(n), bv.arr))     # a fresh view/copy: callers only read it
            raise Undecided('slice form at line %d' % e.lineno)
        if isinstance(bv, Tup):
            i = self.ev(e.slice, ps, exits)
            if isinstance(i, int): return bv.items[i]
            raise Undecided('tuple indexed by a symbolic value at line %d' % e.lineno)
        if isinstance(bv, SSeq):
            i = self.ev(e.slice, ps, exits)
            i = self.in_range(ps, i, bv.len, e)
            return bv[i]
        if isinstance(bv, SSeq2):
            i = self.ev(e.slice, ps, exits)
            i = self.in_range(ps, i, bv.len, e)
            if not isinstance(base, Ref): raise Undecided('nested list reached through a non-reference')
            return InnerRef(base.loc, zint(i))
        if isinstance(bv, SMat):
            idx = self.ev(e.slice, ps, exits)
            if isinstance(idx, Tup):
                i, j = idx.items
                i = self.in_range(ps, i, bv.len, e, 'row'); j = self.in_range(ps, j, bv.ncols, e, 'column')
                return bv.at(i, j)
            idx = self.in_range(ps, idx, bv.len, e, 'row')
            return self.alloc(ps, bv.row(idx))       # row view; read-only use
        if isinstance(bv, SDict):
            k = self.ev(e.slice, ps, exits)
            self.raise_if(ps, z3.Not(bv.has(k)), 'KeyError', exits)
            return bv.get(k)
        raise Undecided('subscript of unsupported value at line %d' % e.lineno)

    def ev_Call(self, e, ps, exits):
        f = e.func
        # --- builtins / library by name
        if isinstance(f, ast.Name):
            name = f.id
            if name == 'isinstance':
                key = ast.unparse(e)
                if key in self.c.consts: return self.c.consts[key]
                raise Undecided('isinstance test %s not declared by the contract' % key)
            if name in ('any', 'all') and len(e.args) == 1 and isinstance(e.args[0], ast.GeneratorExp) and not e.keywords:
                return self.ev_quantifier(name, e.args[0], ps, exits)
            args = [self.ev(a, ps, exits) for a in e.args]
            if name == 'len':
                v = self.deref(ps, args[0])
                if isinstance(v, (SSeq, SSeq2, SMat, SRecSeq)): return v.len
                if isinstance(v, Tup): return len(v.items)
                raise Undecided('len of unsupported value at line %d' % e.lineno)
            if name == 'set' and not args: return self.alloc(ps, SSet.empty())
            if name == 'set' and len(args) == 1:
                v = self.deref(ps, args[0])
                if isinstance(v, SSeq):
                    st = SSet.fresh('setof')
                    ps.pc.append(S.forall_int(lambda x: st.has(x) == S._b(S.exists(0, v.len, lambda j: v[j] == x, 'so')), 'sx',
                                              lambda x: st.has(x)))
                    return self.alloc(ps, st)
                raise Undecided('set() of unsupported value at line %d' % e.lineno)
            if name == 'isinstance':
                key = ast.unparse(e)
                if key in self.c.consts: return self.c.consts[key]
                raise Undecided('isinstance test %s not declared by the contract' % key)
            if name == 'abs':
                a = args[0]
                return z3.If(a >= 0, a, -a) if isinstance(a, z3.ExprRef) else abs(a)
            if name in ('int',): return args[0]
            if name == 'tuple' and len(args) == 1:
                v = self.deref(ps, args[0])
                # an immutable snapshot of a list: a new object with the same elements
                if isinstance(v, SSeq): return self.alloc(ps, SSeq(v.len, v.arr))
                if isinstance(v, SSeq2): return self.alloc(ps, SSeq2(v.len, v.lens, v.arrs))
                raise Undecided('tuple() of unsupported value at line %d' % e.lineno)
            if name == 'max' and len(args) == 1:
                v = self.deref(ps, args[0])
                if isinstance(v, SSeq):
                    self.raise_if(ps, v.len == 0, 'ValueError', exits)
                    m = fresh('max', v.arr.sort().range()); k = fresh('argmax', INT)
                    ps.pc.append(z3.And(k >= 0, k < v.len, v[k] == m, S.forall(0, v.len, lambda j: v[j] <= m, name='mx')))
                    return m
                raise Undecided('max of unsupported value at line %d' % e.lineno)
            raise Undecided('call to %s at line %d' % (name, e.lineno))
        if isinstance(f, ast.Attribute):
            # np.<fn>
            if isinstance(f.value, ast.Name) and f.value.id == 'np':
                return self.np_call(f.attr, e, ps, exits)
            base = self.ev(f.value, ps, exits)
            # self.method(...)
            if isinstance(f.value, ast.Name) and f.value.id == 'self' and f.attr in self.c.callees:
                return self.call_contract(self.c.callees[f.attr], e, ps, exits)
            args = [self.ev(a, ps, exits) for a in e.args]
            return self.method_call(base, f.attr, args, e, ps, exits)
        raise Undecided('call form at line %d' % e.lineno)

    def np_call(self, name, e, ps, exits):
        args = [self.ev(a, ps, exits) for a in e.args]
        if name == 'zeros_like':
            v = self.deref(ps, args[0])
            kw = {k.arg: ast.unparse(k.value) for k in e.keywords}
            if isinstance(v, SSeq) and (kw.get('dtype') == 'int' or v.esort == INT):
                return self.alloc(ps, SSeq(v.len, z3.K(INT, z3.IntVal(0))))
        if name == 'array' and len(args) == 1 and not e.keywords:
            v = self.deref(ps, args[0])
            if isinstance(v, SSeq): return self.alloc(ps, SSeq(v.len, v.arr))      # a new 1-D array with the same elements
        if name in ('zeros', 'ones') and len(args) == 1 and not isinstance(args[0], (Tup, Ref)):
            kw = {k.arg: ast.unparse(k.value) for k in e.keywords}
            one = 1 if name == 'ones' else 0
            if kw.get('dtype') == 'int' or (name == 'zeros' and not getattr(self.c, 'float_arrays', False)):
                return self.alloc(ps, SSeq(zint(args[0]), z3.K(INT, z3.IntVal(one))))
            # numpy's default dtype is float: a real-valued array (contracts that store reals declare float_arrays = True)
            return self.alloc(ps, SSeq(zint(args[0]), z3.K(INT, z3.RealVal(one))))
        raise Undecided('np.%s at line %d' % (name, e.lineno))

    def method_call(self, base, meth, args, e, ps, exits):
        bv = self.deref(ps, base)
        if isinstance(bv, SSeq):
            if meth == 'index':
                x = zint(args[0])
                absent = z3.Not(S.exists(0, bv.len, lambda k: bv[k] == x, name='idx'))
                self.raise_if(ps, absent, 'ValueError', exits)
                k = fresh('index', INT)
                ps.pc.append(z3.And(k >= 0, k < bv.len, bv[k] == x,
                                    S.forall(0, k, lambda j: bv[j] != x, name='idxf')))
                return k
            if meth == 'pop':
                if args:
                    k = self.in_range(ps, zint(args[0]), bv.len, e, 'pop-index')
                else:
                    k = bv.len - 1
                    self.raise_if(ps, bv.len == 0, 'IndexError', exits)
                newarr = fresh('popped', bv.arr.sort())
                ps.pc.append(S.forall_int(lambda j: z3.Select(newarr, j) == z3.If(j < k, z3.Select(bv.arr, j), z3.Select(bv.arr, j + 1)),
                                          'j', lambda j: z3.Select(newarr, j)))
                val = bv[k]
                self.write(ps, base, SSeq(bv.len - 1, newarr))
                return val
            if meth == 'append':
                self.write(ps, base, SSeq(bv.len + 1, z3.Store(bv.arr, bv.len, zint(args[0]))))
                return None
            if meth == 'copy':
                return self.alloc(ps, SSeq(bv.len, bv.arr))
        if isinstance(bv, SSet):
            if meth == 'add':
                self.write(ps, base, bv.add(args[0])); return None
            if meth == 'remove':
                self.raise_if(ps, z3.Not(bv.has(args[0])), 'KeyError', exits)
                self.write(ps, base, bv.remove(args[0])); return None
            if meth == 'discard':
                self.write(ps, base, bv.remove(args[0])); return None
        if isinstance(bv, SRecSeq) and meth == 'append' and len(args) == 1:
            self.write(ps, base, bv.appended(args[0])); return None
        if isinstance(bv, SSeq2) and meth == 'append' and len(args) == 1:
            row = self.deref(ps, args[0])
            if isinstance(row, SSeq) and row.esort == INT:
                # the appended list becomes the last row (the row object is not mutated afterwards in the supported subset: value semantics)
                self.write(ps, base, SSeq2(bv.len + 1, z3.Store(bv.lens, bv.len, row.len), z3.Store(bv.arrs, bv.len, row.arr)))
                return None
        if isinstance(bv, SSeq2) and meth == 'copy':
            raise Undecided('shallow copy of a nested list at line %d' % e.lineno)
        raise Undecided('method %s on %s at line %d' % (meth, type(bv).__name__, e.lineno))

    def ev_quantifier(self, which, g, ps, exits):
        """any(cond for target in iterable) / all(...): one generator, no filter, over a list the encoder models -> bounded quantifier"""
        if len(g.generators) != 1 or g.generators[0].ifs: raise Undecided('%s() over several generators / filters at line %d' % (which, g.lineno))
        gen = g.generators[0]
        n, binder = self.iter_spec(gen.iter, ps, exits, g)
        if n is None: raise Undecided('%s() over an unbounded iterable at line %d' % (which, g.lineno))
        k = fresh('qk', INT)
        sub = ps.fork(); sub.pc.append(z3.And(k >= 0, k < n))
        self.bind(gen.target, binder(k, sub), sub)
        subexits = []
        cond = self.ev(g.elt, sub, subexits)
        if subexits: raise Undecided('%s(): the condition may raise at line %d' % (which, g.lineno))
        if isinstance(cond, bool): cond = z3.BoolVal(cond)
        cond = zbool(cond)
        mk = S.exists if which == 'any' else S.forall
        return S._b(mk(0, n, lambda j: z3.substitute(cond, (k, zint(j))), name='q' + which))

    def ev_ListComp(self, e, ps, exits, nested=False):
        """[elt for target in iterable] (one generator, no filter) -> the mapped sequence.  The element is
        evaluated once for a symbolic index k (obligations raised inside hold for an arbitrary k in range);
        the result is a fresh array defined by a quantified axiom (substituting k)."""
        if len(e.generators) != 1 or e.generators[0].ifs:
            raise Undecided('comprehension with several generators / filters at line %d (needs an abstraction)' % e.lineno)
        g = e.generators[0]
        special = isinstance(g.iter, ast.Call) and isinstance(g.iter.func, ast.Name) and g.iter.func.id in ('range', 'zip')
        it = None if special else self.ev(g.iter, ps, exits)
        itv = self.deref(ps, it) if it is not None else None
        k = fresh('ck', INT)
        sub = ps.fork()
        if isinstance(itv, SSeq):
            n = itv.len; self.bind(g.target, itv[k], sub)
        elif isinstance(itv, SSeq2):
            n = itv.len; self.bind(g.target, InnerRef(it.loc, k), sub)
        elif special and g.iter.func.id == 'range' and len(g.iter.args) == 1:
            n = zint(self.ev(g.iter.args[0], ps, exits)); self.bind(g.target, k, sub)
        elif special and g.iter.func.id == 'zip':
            its = [self.ev(a, ps, exits) for a in g.iter.args]
            vs = [self.deref(ps, x) for x in its]
            n = vs[0].len
            for v in vs[1:]:
                # zip truncates: equal lengths are required so that no element is silently dropped
                self.oblige('zip-equal-length@L%d' % e.lineno, ps, v.len == n, e.lineno)
                ps.pc.append(v.len == n); sub.pc.append(v.len == n)
            if not isinstance(g.target, ast.Tuple): raise Undecided('zip target at line %d' % e.lineno)
            for t, x, v in zip(g.target.elts, its, vs):
                self.bind(t, InnerRef(x.loc, k) if isinstance(v, SSeq2) else v[k], sub)
        else:
            raise Undecided('comprehension iterable at line %d' % e.lineno)
        sub.pc.append(z3.And(k >= 0, k < n))
        if isinstance(e.elt, ast.List) and not e.elt.elts and not nested:
            # n distinct empty lists (each evaluation of the element expression creates a new object: no aliasing between rows)
            nn = zint(n)
            return self.alloc(ps, SSeq2(z3.If(nn >= 0, nn, z3.IntVal(0)), z3.K(INT, z3.IntVal(0)), fresh('rows', z3.ArraySort(INT, z3.ArraySort(INT, INT)))))
        subexits = []
        if not hasattr(self, '_abs_stack'): self._abs_stack = []
        self._abs_stack.append([])
        try:
            if isinstance(e.elt, ast.ListComp):
                inner = self.ev_ListComp(e.elt, sub, subexits, nested=True)
            else:
                inner = self.ev(e.elt, sub, subexits)
        finally:
            abstracted = self._abs_stack.pop()
        if abstracted:
            # a value abstracted inside the element is one value PER element: replace the constant by a function of the index and
            # assume the stated property for every index in range
            if nested or not isinstance(inner, z3.ExprRef): raise Undecided('abstraction inside a nested comprehension element (line %d)' % e.lineno)
            pairs = []
            for (v, fact) in abstracted:
                fa = fresh('absf', z3.ArraySort(INT, v.sort()))
                pairs.append((v, z3.Select(fa, k)))
            inner = z3.substitute(inner, *pairs)
            for (v, fact) in abstracted:
                f2 = z3.substitute(fact, *pairs)
                ps.pc.append(S.forall_int(lambda j: z3.Implies(z3.And(j >= 0, j < n), z3.substitute(f2, (k, j))), 'caj'))
        if subexits: raise Undecided('comprehension element may raise at line %d' % e.lineno)
        if isinstance(inner, tuple) and inner and inner[0] == 'lazyseq':
            _, n2, k2, term = inner
            if nested: raise Undecided('comprehension nested three deep at line %d' % e.lineno)
            lens = fresh('comp.lens', z3.ArraySort(INT, INT)); arrs = fresh('comp', z3.ArraySort(INT, z3.ArraySort(INT, INT)))
            ps.pc.append(S.forall_int(lambda c: z3.Implies(z3.And(c >= 0, c < n), z3.Select(lens, c) == z3.substitute(n2, (k, c))), 'cc'))
            def body(c, j):
                return z3.Implies(z3.And(c >= 0, c < n, j >= 0, j < z3.substitute(n2, (k, c))),
                                  z3.Select(z3.Select(arrs, c), j) == z3.substitute(term, (k, c), (k2, j)))
            ps.pc.append(S.forall_int(lambda c: S.forall_int(lambda j: body(c, j), 'cj'), 'cc'))
            return self.alloc(ps, SSeq2(n, lens, arrs))
        if isinstance(inner, (z3.ExprRef, int)):
            term = zint(inner)
            if nested: return ('lazyseq', n, k, term)
            arr = fresh('comp', z3.ArraySort(INT, term.sort()))
            ps.pc.append(S.forall_int(lambda j: z3.Implies(z3.And(j >= 0, j < n), z3.Select(arr, j) == z3.substitute(term, (k, j))), 'cj'))
            return self.alloc(ps, SSeq(n, arr))
        raise Undecided('comprehension element kind at line %d' % e.lineno)

    def ev_Dict(self, e, ps, exits):
        # a dict display with literal string keys (a record of results): modelled as a mapping name -> value, only passed around / returned
        out = {}
        for k, v in zip(e.keys, e.values):
            if not (isinstance(k, ast.Constant) and isinstance(k.value, str)): raise Undecided('dict display with a non-literal key at line %d' % e.lineno)
            out[k.value] = self.ev(v, ps, exits)
        return Tup([out])

    def ev_List(self, e, ps, exits):
        if not e.elts: return self.alloc(ps, SSeq(z3.IntVal(0), z3.K(INT, z3.IntVal(0))))
        raw = [self.ev(x, ps, exits) for x in e.elts]
        if all(isinstance(x, Tup) for x in raw):
            # a list of tuples of one shape: a list of records
            leaves0, sh = SRecSeq.flatten(raw[0])
            rs = SRecSeq(z3.IntVal(0), [z3.K(INT, z3.IntVal(0)) for _ in leaves0], sh)
            for x in raw: rs = rs.appended(x)
            return self.alloc(ps, rs)
        vals = [zint(x) for x in raw]
        arr = z3.K(vals[0].sort() if False else INT, z3.IntVal(0))
        for i, v in enumerate(vals): arr = z3.Store(arr, i, v)
        return self.alloc(ps, SSeq(z3.IntVal(len(vals)), arr))

    # ---- contract calls ------------------------------------------------------------------
    def call_contract(self, callee, e, ps, exits):
        args = [self.ev(a, ps, exits) for a in e.args]
        pnames = list(callee.params)
        if len(args) != len(pnames) or e.keywords: raise Undecided('call shape at line %d' % e.lineno)
        # callee sees the same `self` and its own parameters
        cps = PS({'self': ps.env['self'], **dict(zip(pnames, args))}, ps.heap, ps.pc)
        with S.symbolic_mode():
            pre = callee.pre(StateView(cps))
            self.oblige('call-pre:%s@L%d' % (callee.qualname, e.lineno), ps, pre, e.lineno, 'call')
            ps.pc.append(zbool(pre) if isinstance(pre, z3.ExprRef) else z3.BoolVal(bool(pre)))
            old = PS(dict(cps.env), dict(ps.heap), [])
            for exc, cond in callee.raises.items():
                c = cond(StateView(old))
                self.raise_if(ps, c, exc, exits)
            # havoc what the callee may modify
            selfobj = ps.heap[ps.env['self'].loc]
            for fld in callee.modifies:
                ref = selfobj.fields[fld]
                if isinstance(ref, Ref): ps.heap[ref.loc] = fresh_like(ps.heap[ref.loc], 'call.' + fld)
                else: selfobj = selfobj.with_field(fld, fresh_like(ref, 'call.' + fld))
            ps.heap[ps.env['self'].loc] = selfobj
            new = PS(dict(cps.env), ps.heap, [])
            res_shape = getattr(callee, 'result_shape', None)
            result = make_shape(res_shape, 'result', ps.heap) if res_shape else None
            cpost = callee.post(StateView(old), StateView(new), view_of(ps, result))
            if isinstance(cpost, dict): cpost = S.And(*cpost.values())
            ps.pc.append(zbool(cpost))
        return result

    # ---- statements ----------------------------------------------------------------------
    def bind(self, target, value, ps):
        if isinstance(target, ast.Name):
            ps.env[target.id] = value
        elif isinstance(target, ast.Tuple):
            if not isinstance(value, Tup) or len(value.items) != len(target.elts):
                raise Undecided('tuple unpacking at line %d' % target.lineno)
            for t, v in zip(target.elts, value.items): self.bind(t, v, ps)
        else:
            raise Undecided('binding target at line %d' % target.lineno)

    def assign(self, target, value, ps, exits):
        if isinstance(target, ast.Name):
            return self.bind(target, value, ps)
        if isinstance(target, ast.Tuple):
            if not isinstance(value, Tup) or len(value.items) != len(target.elts):
                raise Undecided('tuple unpacking at line %d' % target.lineno)
            for t, v in zip(target.elts, value.items): self.assign(t, v, ps, exits)
            return
        if isinstance(target, ast.Attribute):
            base = self.ev(target.value, ps, exits)
            if isinstance(base, Ref) and isinstance(ps.heap[base.loc], Obj):
                ps.heap[base.loc] = ps.heap[base.loc].with_field(target.attr, value)
                return
            raise Undecided('attribute store at line %d' % target.lineno)
        if isinstance(target, ast.Subscript):
            base = self.ev(target.value, ps, exits)
            bv = self.deref(ps, base)
            if isinstance(target.slice, ast.Slice):
                sl = target.slice
                if sl.lower is None and sl.upper is None and sl.step is None and isinstance(bv, SSeq) and isinstance(value, (int, float, z3.ExprRef)):
                    return self.write(ps, base, SSeq(bv.len, z3.K(INT, zint(value)) if bv.esort == INT else z3.K(INT, z3.ToReal(zint(value)) if zint(value).sort() == INT else zint(value))))
                raise Undecided('slice store at line %d' % target.lineno)
            idx = self.ev(target.slice, ps, exits)
            if isinstance(bv, SSeq):
                idx = self.in_range(ps, idx, bv.len, target, 'store-index')
                return self.write(ps, base, bv.store(idx, value))
            if isinstance(bv, SMat) and isinstance(idx, Tup):
                i, j = idx.items
                i = self.in_range(ps, i, bv.len, target, 'store-row'); j = self.in_range(ps, j, bv.ncols, target, 'store-column')
                return self.write(ps, base, bv.store(i, j, value))
            if isinstance(bv, SDict):
                return self.write(ps, base, bv.set(idx, value))
            if isinstance(bv, SSeq2):
                idx = self.in_range(ps, idx, bv.len, target, 'store-index')
                return self.write(ps, base, bv.setrow(idx, self.deref(ps, value)))
            raise Undecided('subscript store on %s at line %d' % (type(bv).__name__, target.lineno))
        raise Undecided('assignment target at line %d' % target.lineno)

    def exec_block(self, stmts, ps):
        """returns list of (ps, ctrl, payload); ctrl in next/return/raise/break/continue"""
        paths = [(ps, 'next', None)]
        for st in stmts:
            nxt = []
            for (p, ctrl, payload) in paths:
                if ctrl != 'next':
                    nxt.append((p, ctrl, payload)); continue
                nxt.extend(self.exec_stmt(st, p))
            paths = nxt
            if len(paths) > 400: raise Undecided('path explosion')
        return paths

    def exec_stmt(self, st, ps):
        exits = []
        m = getattr(self, 'st_' + type(st).__name__, None)
        if m is None: raise Undecided('unsupported statement %s at line %d' % (type(st).__name__, st.lineno))
        out = m(st, ps, exits)
        return list(exits) + out

    def st_Expr(self, st, ps, exits):
        if isinstance(st.value, ast.Constant): return [(ps, 'next', None)]
        self.ev(st.value, ps, exits)
        return [(ps, 'next', None)]

    def st_Pass(self, st, ps, exits): return [(ps, 'next', None)]

    def st_Assign(self, st, ps, exits):
        if isinstance(st.value, ast.List) and not st.value.elts and len(st.targets) == 1 and isinstance(st.targets[0], ast.Name) \
                and getattr(self.c, 'local_shapes', {}).get(st.targets[0].id) == 'seq2_int':
            # `name = []` that is going to hold lists (declared in the sidecar): an empty list of lists
            ps.env[st.targets[0].id] = self.alloc(ps, SSeq2(z3.IntVal(0), z3.K(INT, z3.IntVal(0)), z3.K(INT, z3.K(INT, z3.IntVal(0)))))
            return [(ps, 'next', None)]
        v = self.ev(st.value, ps, exits)
        for t in st.targets: self.assign(t, v, ps, exits)
        return [(ps, 'next', None)]

    def concat(self, ps, a, b):
        """a + b for sequences: a fresh array defined by a quantified axiom"""
        if a.esort != b.esort: raise Undecided('concatenation of sequences of different element sorts')
        arr = fresh('cat', a.arr.sort())
        ps.pc.append(S.forall_int(lambda j: z3.Select(arr, j) == z3.If(j < a.len, z3.Select(a.arr, j), z3.Select(b.arr, j - a.len)), 'cj',
                                  lambda j: z3.Select(arr, j)))
        return SSeq(a.len + b.len, arr)

    def st_AugAssign(self, st, ps, exits):
        if isinstance(st.op, ast.Add) and isinstance(st.target, ast.Name) and isinstance(ps.env.get(st.target.id), Ref) \
                and isinstance(ps.heap[ps.env[st.target.id].loc], SSeq):
            # list += iterable extends the list object IN PLACE (every alias sees it); the right operand is not modified
            ref = ps.env[st.target.id]
            rv = self.deref(ps, self.ev(st.value, ps, exits))
            if not isinstance(rv, SSeq): raise Undecided('list += non-list at line %d' % st.lineno)
            self.write(ps, ref, self.concat(ps, ps.heap[ref.loc], rv))
            return [(ps, 'next', None)]
        load = ast.copy_location(ast.BinOp(left=self._as_load(st.target), op=st.op, right=st.value), st)
        ast.fix_missing_locations(load)
        v = self.ev(load, ps, exits)
        self.assign(st.target, v, ps, exits)
        return [(ps, 'next', None)]

    @staticmethod
    def _as_load(t):
        import copy
        t2 = copy.deepcopy(t)
        for n in ast.walk(t2):
            if hasattr(n, 'ctx'): n.ctx = ast.Load()
        return t2

    def st_Return(self, st, ps, exits):
        v = self.ev(st.value, ps, exits) if st.value is not None else None
        return [(ps, 'return', v)]

    def st_Raise(self, st, ps, exits):
        exc = st.exc
        name = exc.func.id if isinstance(exc, ast.Call) and isinstance(exc.func, ast.Name) else \
            (exc.id if isinstance(exc, ast.Name) else 'Exception')
        return [(ps, 'raise', name)]

    def st_Assert(self, st, ps, exits):
        # `assert cond`: raises AssertionError when cond is false (an exception the contract has to allow, or -- the usual case -- an
        # obligation that the assertion never fires); execution continues under cond
        c = self.ev(st.test, ps, exits)
        if isinstance(c, bool):
            if c: return [(ps, 'next', None)]
            return [(ps, 'raise', 'AssertionError')]
        self.raise_if(ps, z3.Not(zbool(c)), 'AssertionError', exits)
        return [(ps, 'next', None)]

    def st_Break(self, st, ps, exits): return [(ps, 'break', None)]

    def st_Continue(self, st, ps, exits): return [(ps, 'continue', None)]

    def feasible(self, ps):
        """cheap over-approximation (quantified hypotheses dropped): exploring an infeasible path is harmless"""
        s = z3.Solver(); s.set('timeout', 400)
        s.add(*[f for f in ps.pc if not _has_quantifier(f)])
        return s.check() != z3.unsat

    def st_If(self, st, ps, exits):
        c = self.ev(st.test, ps, exits)
        if not isinstance(c, z3.ExprRef):
            return self.exec_block(st.body if c else st.orelse, ps)
        c = zbool(c)
        out = []
        pt = ps.fork(); pt.pc.append(c)
        pf = ps; pf.pc.append(z3.Not(c))
        if self.feasible(pt):
            self.covers.append(('then@L%d' % st.lineno, list(pt.pc)))
            out += self.exec_block(st.body, pt)
        if self.feasible(pf):
            out += self.exec_block(st.orelse, pf)
        return out

    # ---- loops ---------------------------------------------------------------------------
    def write_set(self, body, ps):
        """names assigned and heap locations mutated by `body` (syntactic, conservative)."""
        names, locs, fields = set(), set(), set()

        def base_loc(expr):
            try:
                v = self.ev(expr, ps.fork(), [])
            except Undecided:
                # xs[i].append(..) with i bound inside the body: the container xs is what is mutated
                return base_loc(expr.value) if isinstance(expr, ast.Subscript) else None
            if isinstance(v, Ref): return v.loc
            if isinstance(v, InnerRef): return v.loc
            return None
        for n in ast.walk(ast.Module(body=body, type_ignores=[])):
            targets = []
            if isinstance(n, ast.Assign): targets = n.targets
            elif isinstance(n, ast.AugAssign): targets = [n.target]
            elif isinstance(n, ast.For): targets = [n.target]
            for t in targets:
                if isinstance(n, ast.AugAssign) and isinstance(n.op, ast.Add) and isinstance(t, ast.Name) and isinstance(ps.env.get(t.id), Ref) \
                        and isinstance(ps.heap[ps.env[t.id].loc], SSeq):
                    locs.add(ps.env[t.id].loc); continue          # in-place extension: the object changes, the binding does not
                for tt in ast.walk(t):
                    if isinstance(tt, ast.Name) and isinstance(tt.ctx, ast.Store): names.add(tt.id)
                if isinstance(t, ast.Subscript):
                    l = base_loc(t.value)
                    if l is None: raise Undecided('loop body stores through an unresolved reference (line %d)' % t.lineno)
                    locs.add(l)
                if isinstance(t, ast.Attribute):
                    if isinstance(t.value, ast.Name) and t.value.id == 'self': fields.add(t.attr)
                    else: raise Undecided('loop body stores an attribute of a non-self object (line %d)' % t.lineno)
            if isinstance(n, ast.Call) and isinstance(n.func, ast.Attribute):
                if n.func.attr in MUTATORS:
                    l = base_loc(n.func.value)
                    if l is None and isinstance(n.func.value, ast.Name) and not isinstance(ps.env.get(n.func.value.id), (Ref, InnerRef)):
                        # a container created inside the body (`name = []` / a comprehension) and not bound to any object on loop entry:
                        # mutating it changes no location that exists before the iteration
                        nm0 = n.func.value.id
                        made = [a for b in body for a in ast.walk(b) if isinstance(a, ast.Assign) and any(isinstance(t, ast.Name) and t.id == nm0 for t in a.targets)]
                        if made and all(isinstance(a.value, (ast.List, ast.ListComp)) for a in made): continue
                    if l is None:
                        # a local bound inside the body (e.g. co = self.chemorder[c]); resolve through its definition
                        raise Undecided('loop body mutates through an unresolved reference (line %d)' % n.lineno)
                    locs.add(l)
                if isinstance(n.func.value, ast.Name) and n.func.value.id == 'self' and n.func.attr in self.c.callees:
                    cal = self.c.callees[n.func.attr]
                    selfobj = ps.heap[ps.env['self'].loc]
                    for fld in cal.modifies:
                        r = selfobj.fields[fld]
                        if isinstance(r, Ref): locs.add(r.loc)
                        else: fields.add(fld)
        return names, locs, fields

    def iter_spec(self, it, ps, exits, node):
        """-> (n, binder(k, ps) -> value for target) for index-ordered iteration"""
        if isinstance(it, ast.Call) and isinstance(it.func, ast.Name):
            fn = it.func.id
            if fn == 'range':
                a = [self.ev(x, ps, exits) for x in it.args]
                if len(a) == 1: return zint(a[0]), (lambda k, p: k)
                if len(a) == 2: return zint(a[1]) - zint(a[0]), (lambda k, p, lo=zint(a[0]): lo + k)
                raise Undecided('range with step at line %d' % node.lineno)
            if fn == 'enumerate':
                n, b = self.iter_spec(it.args[0], ps, exits, node)
                return n, (lambda k, p: Tup([k, b(k, p)]))
            if fn == 'zip':
                subs = [self.iter_spec(a, ps, exits, node) for a in it.args]
                finite = [n for n, b in subs if n is not None]
                if not finite: raise Undecided('zip of infinite iterables')
                n0 = finite[0]
                for n in finite[1:]:
                    self.oblige('zip-equal-length@L%d' % node.lineno, ps, n == n0, node.lineno)
                    ps.pc.append(n == n0)
                return n0, (lambda k, p: Tup([b(k, p) for n, b in subs]))
        if isinstance(it, ast.Call) and isinstance(it.func, ast.Attribute) and \
                isinstance(it.func.value, ast.Name) and it.func.value.id == 'itertools' and it.func.attr == 'count' and not it.args:
            return None, (lambda k, p: k)
        v = self.ev(it, ps, exits)
        vv = self.deref(ps, v)
        if isinstance(vv, SSeq): return vv.len, (lambda k, p, vv=vv: vv[k])
        if isinstance(vv, SSeq2): return vv.len, (lambda k, p, loc=v.loc: InnerRef(loc, k))
        if isinstance(vv, SRecSeq): return vv.len, (lambda k, p, vv=vv: vv.item(k))
        if isinstance(vv, SMat): return vv.len, (lambda k, p, vv=vv: self.alloc(p, vv.row(k)))
        raise Undecided('iteration over unsupported value at line %d' % node.lineno)

    def st_For(self, st, ps, exits):
        if st.orelse: raise Undecided('for-else at line %d' % st.lineno)
        ordinal = self.loop_nodes.index(st)
        inv = self.c.loops.get(ordinal)
        n, binder = self.iter_spec(st.iter, ps, exits, st)
        if n is None: raise Undecided('unbounded iteration at line %d' % st.lineno)
        if inv is None:
            raise Undecided('loop %d (line %d) has no invariant in the sidecar' % (ordinal, st.lineno))
        ps.pc.append(n >= 0) if not z3.is_int_value(n) else None
        old = self.entry
        lg_init = getattr(self.c, 'loop_ghost_init', {}).get(ordinal)
        lg_step = getattr(self.c, 'loop_ghost_step', {}).get(ordinal)
        if lg_init is not None:
            with S.symbolic_mode(): self.install_ghost(ps, lg_init(StateView(ps), StateView(old)), local=True)
        # an invariant may take a 4th argument: the state on entry to THIS loop (values of the locals the body is going to change)
        import inspect
        if len(inspect.signature(inv).parameters) >= 4:
            _inv0, _entry = inv, StateView(ps.fork())
            inv = lambda view, kk, oldview: _inv0(view, kk, oldview, _entry)
        with S.symbolic_mode():
            self.oblige_inv('loop%d-invariant-on-entry' % ordinal, st.lineno, ps, inv(StateView(ps), z3.IntVal(0), StateView(old)))
        names, locs, fields = self.write_set(st.body, ps)
        # the iterable must not be mutated by the body
        hv = ps.fork()
        keeps = getattr(self.c, 'loop_keeps', {}).get(ordinal, ())      # locals every continuing iteration leaves as they were (obligation below)
        for nm in names:
            if nm in keeps: continue
            if nm in hv.env:
                v = hv.env[nm]
                want = {'real': REAL, 'int': INT, 'bool': BOOL}.get(getattr(self.c, 'local_sorts', {}).get(nm))
                if want is not None: hv.env[nm] = fresh('h.' + nm, want)
                elif isinstance(v, z3.ExprRef): hv.env[nm] = fresh('h.' + nm, v.sort())
                elif isinstance(v, (int, bool)): hv.env[nm] = fresh('h.' + nm, INT if not isinstance(v, bool) else BOOL)
                else: del hv.env[nm]
        # locals FIRST assigned inside this loop and read after it (declared by the sidecar with their shape): defined at the loop head /
        # exit by an arbitrary value constrained by the invariant only; using them after the loop needs at least one iteration (a loop
        # that does not run would leave them unbound: NameError)
        for nm, shp in getattr(self.c, 'loop_defines', {}).get(ordinal, {}).items():
            if nm not in hv.env:
                hv.env[nm] = make_shape(shp, 'ld.' + nm, hv.heap)
                self.oblige('loop%d-runs-at-least-once(defines %s)@L%d' % (ordinal, nm, st.lineno), ps, n >= 1, st.lineno, 'safety')
        for l in locs: hv.heap[l] = fresh_like(hv.heap[l], 'h%d' % l)
        if lg_init is not None:      # ghost locals of this loop are part of its write set
            for nm in [n_ for n_ in hv.env if n_.startswith('g_') and isinstance(hv.env[n_], Ref)]:
                hv.env[nm] = self.alloc(hv, fresh_like(hv.heap[hv.env[nm].loc], 'h.' + nm))
        if fields:
            so = hv.heap[hv.env['self'].loc]
            for fld in fields:
                r = so.fields[fld]
                if isinstance(r, Ref):
                    nl = next(_ctr); hv.heap[nl] = fresh_like(hv.heap[r.loc], 'h.' + fld); so = so.with_field(fld, Ref(nl))
                else: so = so.with_field(fld, fresh_like(r, 'h.' + fld))
            hv.heap[hv.env['self'].loc] = so
        k = fresh('iter', INT)
        body = hv.fork()
        with S.symbolic_mode():
            body.pc += [k >= 0, k < n, self.inv_formula(inv(StateView(body), k, StateView(old)))]
        self.bind(st.target, binder(k, body), body)
        body0 = body.fork()
        out = []
        after_break = []
        for (p, ctrl, payload) in self.exec_block(st.body, body):
            if ctrl in ('next', 'continue'):
                with S.symbolic_mode():
                    if ordinal in self.c.ghost_step:
                        self.install_ghost(p, self.c.ghost_step[ordinal](StateView(body0), StateView(p), k))
                    if lg_step is not None:
                        self.install_ghost(p, lg_step(StateView(body0), StateView(p), k), local=True)
                    self.oblige_inv('loop%d-invariant-preserved' % ordinal, st.lineno, p, inv(StateView(p), k + 1, StateView(old)))
                    for nm in keeps:
                        a, b = p.env.get(nm), body0.env.get(nm)
                        same = (a is b) or (isinstance(a, z3.ExprRef) and isinstance(b, z3.ExprRef) and a.eq(b)) or (isinstance(a, Ref) and isinstance(b, Ref) and a.loc == b.loc and p.heap[a.loc] is body0.heap[b.loc])
                        self.oblige('loop%d-keeps:%s@L%d' % (ordinal, nm, st.lineno), p, z3.BoolVal(bool(same)), st.lineno, 'invariant')
            elif ctrl == 'break':
                after_break.append((p, 'next', None))
            else:
                out.append((p, ctrl, payload))
        after = hv.fork()
        with S.symbolic_mode():
            after.pc.append(self.inv_formula(inv(StateView(after), n, StateView(old))))
        # the loop variable keeps its last value; not modelled: drop it
        for t in ast.walk(st.target):
            if isinstance(t, ast.Name): after.env.pop(t.id, None)
        out.append((after, 'next', None))
        return out + after_break

    # ---- top level -----------------------------------------------------------------------
    def prepare_entry(self):
        c = self.c
        heap = {}
        env = {}
        if c.self_shape is not None:
            env['self'] = make_shape(c.self_shape, 'self', heap)
        for pn, sh in c.params.items():
            env[pn] = make_shape(sh, pn, heap)
        for pn, sh in getattr(c, 'ghost_params', {}).items():
            env[pn] = make_shape(sh, pn, heap)
        ps = PS(env, heap, [])
        self.entry = PS(dict(env), dict(heap), [])
        with S.symbolic_mode():
            pre = c.pre(StateView(ps))
            ps.pc.append(zbool(pre) if isinstance(pre, z3.ExprRef) else z3.BoolVal(bool(pre)))
            for f in c.facts(StateView(ps)): ps.pc.append(f)
        self.pre_pc = list(ps.pc)
        return ps

    def size_constraints(self, bound):
        """finite shape for the counterexample search: every container of the entry state has length <= bound"""
        out = []
        for v in self.entry.heap.values():
            if isinstance(v, SSeq): out.append(v.len <= bound)
            elif isinstance(v, SSeq2):
                out.append(v.len <= bound)
                out += [z3.Select(v.lens, i) <= bound for i in range(bound + 1)]
            elif isinstance(v, SMat):
                out += [v.len <= bound, v.ncols <= bound]
        return out

    def run(self):
        with S.symbolic_mode():
            return self._run()

    def _run(self):
        c = self.c
        ps = self.prepare_entry()
        with S.symbolic_mode():
            for (nm, hyps, goal) in c.lemma_obligations(StateView(ps)):
                self.obligations.append(Obligation('lemma:' + nm, list(hyps), goal, 0, 'lemma'))
        body = self.fn.body
        start = getattr(c, 'body_from', None)
        if start is not None:
            # the contract covers the function from the named statement on (the dropped prefix and what is assumed of it are listed in the evidence)
            idx = [i for i, st in enumerate(body) if ast.unparse(st) == start]
            if len(idx) != 1: raise Undecided('statement %r that starts the part under contract occurs %d times in %s' % (start, len(idx), c.qualname))
            self.notes.append('dropped prefix: statements 1..%d of the body (lines %d-%d)' % (idx[0], body[0].lineno, body[idx[0] - 1].end_lineno if idx[0] else body[0].lineno))
            body = body[idx[0]:]
        paths = self.exec_block(body, ps)
        old = StateView(self.entry)
        nret = nraise = 0
        with S.symbolic_mode():
            raise_conds = {exc: zbool(cond(old)) for exc, cond in c.raises.items()}
            for (p, ctrl, payload) in paths:
                if ctrl in ('break', 'continue'): raise CheckerFault('loop control escaped')
                if ctrl in ('next', 'return'):
                    nret += 1
                    ln = 'exit%d' % nret
                    for exc, cnd in raise_conds.items():
                        self.oblige('must-raise-%s-when-specified[%s]' % (exc, ln), p, z3.Not(cnd), 0, 'raises')
                    res = view_of(p, payload) if payload is not None else None
                    self.install_ghost(p, c.ghost_exit(old, StateView(p)))
                    post = c.post(old, StateView(p), res)
                    if isinstance(post, dict):
                        for nm, g in post.items(): self.oblige('post:%s[%s]' % (nm, ln), p, g, 0, 'post')
                    else:
                        self.oblige('post[%s]' % ln, p, post, 0, 'post')
                    self.frame(p, ln)
                else:
                    nraise += 1
                    ln = 'raise%d:%s' % (nraise, payload)
                    if payload not in raise_conds:
                        self.oblige('no-unspecified-exception:%s[%s]' % (payload, ln), p, z3.BoolVal(False), 0, 'raises')
                    else:
                        self.oblige('raises-%s-only-when-specified[%s]' % (payload, ln), p, raise_conds[payload], 0, 'raises')
                        self.unchanged(p, ln)
                        self.frame(p, ln)
        return self.obligations

    def install_ghost(self, p, defs, local=False):
        """ghost fields of self (or ghost locals when local=True) defined as (length, index -> term)"""
        if not defs: return
        so = p.heap[p.env['self'].loc] if 'self' in p.env else None
        for fld, (n, fn) in defs.items():
            arr = fresh('ghost.' + fld, z3.ArraySort(INT, INT))
            p.pc.append(S.forall_int(lambda j: z3.Select(arr, j) == zint(fn(j)), 'g', lambda j: z3.Select(arr, j)))
            if local: p.env[fld] = self.alloc(p, SSeq(zint(n), arr))
            else: so = so.with_field(fld, self.alloc(p, SSeq(zint(n), arr)))
        if not local: p.heap[p.env['self'].loc] = so

    def frame(self, p, ln):
        """fields outside `modifies` are unchanged (same reference, same content)"""
        if self.c.self_shape is None: return
        o0 = self.entry.heap[self.entry.env['self'].loc]
        o1 = p.heap[p.env['self'].loc]
        for fld, v0 in o0.fields.items():
            if fld in self.c.modifies: continue
            self._same(fld, v0, o1.fields[fld], p, 'frame:%s[%s]' % (fld, ln))

    def unchanged(self, p, ln):
        o0 = self.entry.heap[self.entry.env['self'].loc]
        o1 = p.heap[p.env['self'].loc]
        for fld in self.c.modifies:
            self._same(fld, o0.fields[fld], o1.fields[fld], p, 'unchanged-on-raise:%s[%s]' % (fld, ln))

    def _same(self, fld, v0, v1, p, name):
        a = self.entry.heap[v0.loc] if isinstance(v0, Ref) else v0
        b = p.heap[v1.loc] if isinstance(v1, Ref) else v1
        if a is b: return
        if isinstance(a, z3.ExprRef) and isinstance(b, z3.ExprRef):
            if a.eq(b): return
            return self.oblige(name, p, a == b, 0, 'frame')
        if isinstance(a, SSeq) and isinstance(b, SSeq):
            if a.len.eq(b.len) and a.arr.eq(b.arr): return
            return self.oblige(name, p, S.seq_eq(a, b), 0, 'frame')
        if isinstance(a, SSeq2) and isinstance(b, SSeq2):
            if a.len.eq(b.len) and a.lens.eq(b.lens) and a.arrs.eq(b.arrs): return
            return self.oblige(name, p, S.seq2_eq(a, b), 0, 'frame')
        if isinstance(a, SMat) and isinstance(b, SMat):
            if a.data.eq(b.data): return
            return self.oblige(name, p, z3.BoolVal(False), 0, 'frame')
        if isinstance(a, (SSet,)) and isinstance(b, SSet):
            if a.mem.eq(b.mem): return
            return self.oblige(name, p, a.mem == b.mem, 0, 'frame')
        if a is b or (isinstance(a, (Opaque, Obj)) and a is b): return
        if isinstance(a, Obj) and isinstance(b, Obj) and a.fields == b.fields: return
        if isinstance(a, Opaque) or isinstance(a, Tup):
            if v0 is v1: return
        self.oblige(name, p, z3.BoolVal(False), 0, 'frame')


# ---------------------------------------------------------------------------------------------
# discharge

def _uses_recfun(f, cache={}):
    seen = set(); todo = [f]
    while todo:
        t = todo.pop()
        if not isinstance(t, z3.ExprRef) or t.get_id() in seen: continue
        seen.add(t.get_id())
        if z3.is_app(t) and t.decl().kind() == z3.Z3_OP_RECURSIVE: return True
        if z3.is_quantifier(t): todo.append(t.body())
        else: todo.extend(t.children())
    return False


def discharge(ob, timeout_ms=10000):
    """-> (status, backend, secs, detail) with status in ok / refuted / unknown"""
    t = time.time()
    # stage 1 (sound: dropping hypotheses only weakens what we may use): goals that do not mention the ghost
    # recursive sums are tried without the hypotheses that do -- recursive definitions + quantifiers make z3 unfold forever
    if not _uses_recfun(ob.goal):
        light = [h for h in ob.hyps if not _uses_recfun(h)]
        if len(light) < len(ob.hyps):
            s = z3.Solver(); s.set('timeout', min(timeout_ms, 3000))
            s.add(*light); s.add(z3.Not(ob.goal))
            if s.check() == z3.unsat: return 'ok', 'z3', time.time() - t, ''
    s = z3.Solver(); s.set('timeout', timeout_ms)
    s.add(*ob.hyps); s.add(z3.Not(ob.goal))
    r = s.check()
    if r == z3.unknown and timeout_ms >= 2000:
        # quantifier instantiation is sensitive to the search order: two more attempts with other seeds before giving up
        for seed in (7, 23):
            s2 = z3.Solver(); s2.set('timeout', timeout_ms); s2.set('random_seed', seed); s2.set('smt.random_seed', seed)
            s2.add(*ob.hyps); s2.add(z3.Not(ob.goal))
            r2 = s2.check()
            if r2 != z3.unknown:
                r, s = r2, s2; break
    dt = time.time() - t
    if r == z3.unsat: return 'ok', 'z3', dt, ''
    if r == z3.sat:
        m = s.model()
        txt = '; '.join('%s=%s' % (d.name(), m[d]) for d in m.decls()[:40] if d.arity() == 0 and 'q!' not in d.name())
        return 'refuted', 'z3', dt, 'counter-model: ' + txt[:1500]
    # unknown: try cvc5 on the same query
    try:
        st, det = _cvc5(s.to_smt2(), timeout_ms)
        dt = time.time() - t
        if st == 'unsat': return 'ok', 'cvc5', dt, ''
        if st == 'sat': return 'refuted', 'cvc5', dt, det
    except Exception as ex:      # cvc5 not usable on this query (lambdas etc.)
        det = 'cvc5: %s' % ex
    return 'unknown', 'z3+cvc5', time.time() - t, 'z3: %s; %s' % (s.reason_unknown(), det if 'det' in dir() else '')


def _cvc5(smt2, timeout_ms):
    import subprocess, tempfile, os
    with tempfile.NamedTemporaryFile('w', suffix='.smt2', delete=False, dir=os.environ.get('VF_SCRATCH', None)) as f:
        f.write('(set-logic ALL)\n' + smt2); path = f.name
    try:
        p = subprocess.run(['/usr/bin/cvc5', '--tlimit=%d' % timeout_ms, path], capture_output=True, text=True, timeout=timeout_ms / 1000 + 5)
        out = p.stdout.strip().splitlines()
        return (out[0] if out else 'unknown'), (p.stdout + p.stderr)[:400]
    finally:
        os.unlink(path)
