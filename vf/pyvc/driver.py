"""Drives E1 for one function under contract:
  extract (current tree) -> symbolic execution -> obligations -> discharge (parallel, z3 then cvc5)
  -> for every obligation not discharged: re-run in bounded mode (quantifiers expanded over a
     small finite shape, quantifier-free), ask z3 for a model, turn it into real objects through
     the contract's `build`, call the REAL function and evaluate the same contract concretely
     (replay) -> violation only if the real code breaks the contract (or z3 refuted the
     unbounded obligation outright);
  -> vacuity checks (precondition satisfiable, minimum obligation count, covers);
  -> run-time evaluation of the same contract on concrete states (bounded stand-in + cross-check
     of the encoder: a concrete failure while all obligations are discharged is an engine fault)."""
import os, time, random, traceback, multiprocessing as mp
import z3
from .. import spec as S
from ..common import Ob, Undecided, CheckerFault, SEED
from .. import extract
from . import engine as E

_OBS = []      # obligations shared with forked workers


def _work(i):
    ob, tmo = _OBS[i]
    try:
        return (i,) + E.discharge(ob, tmo)
    except Exception as ex:
        return (i, 'unknown', 'z3', 0.0, 'discharge crashed: %r' % ex)


def discharge_all(obs, timeout_ms=8000, procs=None):
    global _OBS
    # first pass in-process with a short budget (most obligations take milliseconds) ...
    _OBS = [(ob, 300) for ob in obs]
    res = {}
    hard = []
    for i in range(len(obs)):
        r = _work(i)
        if r[1] == 'unknown': hard.append(i)
        else: res[i] = r
    # ... the rest in forked workers with the full budget
    if hard:
        _OBS = [(ob, timeout_ms) for ob in obs]
        if len(hard) <= 1 or os.environ.get('VF_SERIAL'):
            rs = [_work(i) for i in hard]
        else:
            ctx = mp.get_context('fork')
            with ctx.Pool(min(procs or 16, len(hard))) as pool:
                rs = pool.map(_work, hard, chunksize=1)
        for r in rs: res[r[0]] = r
        # an obligation that is still open gets one more attempt with five times the budget: a verdict must not flip to "undecided"
        # because the machine is busy (all cores loaded by other checks); unprovable obligations cost the extra budget once, in parallel
        again = [i for i in hard if res[i][1] == 'unknown']
        if again and not os.environ.get('VF_NO_RETRY'):
            _OBS = [(ob, timeout_ms * 5) for ob in obs]
            if len(again) <= 1 or os.environ.get('VF_SERIAL'):
                rs = [_work(i) for i in again]
            else:
                ctx = mp.get_context('fork')
                with ctx.Pool(min(procs or 16, len(again))) as pool:
                    rs = pool.map(_work, again, chunksize=1)
            for r in rs:
                if r[1] != 'unknown': res[r[0]] = r
    return [res[i][1:] for i in range(len(obs))]


# ---------------------------------------------------------------------------------------------
# concrete side

def concrete_value(model, v):
    """symbolic view -> concrete view under a model"""
    ev = lambda t: model.eval(t, model_completion=True)
    if isinstance(v, E.SSeq):
        n = ev(v.len).as_long()
        if not (0 <= n <= 64): raise ValueError('model length %d' % n)
        if v.esort == E.INT: return S.CSeq([ev(v[i]).as_long() for i in range(n)])
        return S.CSeq([float(ev(v[i]).as_fraction()) for i in range(n)])
    if isinstance(v, E.SSeq2):
        n = ev(v.len).as_long()
        if not (0 <= n <= 64): raise ValueError('model length %d' % n)
        rows = []
        for c in range(n):
            m = ev(v.lenof(c)).as_long()
            if not (0 <= m <= 64): raise ValueError('model length %d' % m)
            rows.append([ev(v.at(c, k)).as_long() for k in range(m)])
        return S.CSeq2(rows)
    if isinstance(v, E.SMat):
        nr, nc = ev(v.len).as_long(), ev(v.ncols).as_long()
        if not (0 <= nr <= 64 and 0 <= nc <= 64): raise ValueError('model shape')
        return S.CSeq2([[ev(v.at(i, j)).as_long() for j in range(nc)] for i in range(nr)])
    if isinstance(v, E.SSet):
        return S.CSet([i for i in range(-1, 66) if z3.is_true(ev(v.has(i)))])
    if isinstance(v, E.ObjView):
        return S.NS(**{k: concrete_value(model, E.view_of(v._ps, f)) for k, f in v._obj.fields.items()})
    if isinstance(v, tuple): return tuple(concrete_value(model, x) for x in v)
    if isinstance(v, z3.ExprRef):
        r = ev(v)
        if z3.is_int_value(r): return r.as_long()
        if z3.is_true(r): return True
        if z3.is_false(r): return False
        if z3.is_rational_value(r): return float(r.as_fraction())
        raise ValueError('model value %s' % r)
    return v


class ConcreteOutcome:
    def __init__(self, status, failed=(), detail='', old=None, new=None, exc=None):
        self.status, self.failed, self.detail, self.old, self.new, self.exc = status, list(failed), detail, old, new, exc


def check_concrete(c, obj, args):
    """Evaluate contract c on the REAL function for the real object/arguments."""
    with S.symbolic_mode(False):
        old = c.abstract(obj, args)
        try:
            pre = c.pre(old)
        except (IndexError, KeyError, TypeError) as ex:
            return ConcreteOutcome('pre-false', detail='pre not evaluable: %r' % ex)
        if not pre: return ConcreteOutcome('pre-false')
        expected = [e for e, cond in c.raises.items() if cond(old)]
        exc = None; result = None
        try:
            result = c.call(obj, args)
        except Exception as ex:
            exc = ex
        new = c.abstract(obj, args, result=result)
        new.v = old.v       # contracts refer to entry values of the parameters
        if exc is not None:
            en = type(exc).__name__
            if en not in expected:
                return ConcreteOutcome('violated', ['no-unspecified-exception:%s' % en] if en not in c.raises else
                                       ['raises-%s-only-when-specified' % en], repr(exc), old, new, en)
            bad = [f for f in c.modifies if not c.same_field(getattr(old.self, f), getattr(new.self, f))]
            if bad: return ConcreteOutcome('violated', ['unchanged-on-raise:%s' % f for f in bad], repr(exc), old, new, en)
            return ConcreteOutcome('ok', old=old, new=new, exc=en)
        if expected:
            return ConcreteOutcome('violated', ['must-raise-%s-when-specified' % e for e in expected], 'returned normally', old, new)
        try:
            post = c.post(old, new, c.abstract_result(result))
        except (IndexError, KeyError) as ex:
            return ConcreteOutcome('violated', ['post-not-evaluable'], repr(ex), old, new)
        if not isinstance(post, dict): post = {'': post}
        bad = ['post:%s' % k for k, v in post.items() if not v]
        frame = [f for f in c.frame_fields() if not c.same_field(getattr(old.self, f), getattr(new.self, f))]
        bad += ['frame:%s' % f for f in frame]
        if bad: return ConcreteOutcome('violated', bad, '', old, new)
        return ConcreteOutcome('ok', old=old, new=new)


# ---------------------------------------------------------------------------------------------

def base_name(obname):
    """obligation name without the path label: post:WF-x[exit2] -> post:WF-x"""
    return obname.split('[')[0].split('@')[0]   # path label and line number are not part of the identity


def verify_function(c, rep, tier='quick', timeout_ms=8000, bound=3):
    """Adds Ob entries to rep for contract c.  Returns list of Ob."""
    t0 = time.time()
    qn = '%s::%s' % (c.relpath, c.qualname)
    out = []
    try:
        fn = extract.get(c.relpath, c.qualname)
    except KeyError as ex:
        out.append(rep.add(Ob('extract:' + qn, 'P', 'undecided', 'extract', 0, str(ex), function=qn)))
        return out
    rep.under_contract(qn, c.relpath, fn.l0, fn.l1)
    if not getattr(c, 'symbolic', True):
        # run-time contract only (function outside the encoder subset by design): bounded stand-in, never P
        return runtime_contract(c, rep, tier, all_proved=False)
    try:
        ex = E.Exec(c, fn)
        obs = ex.run()
    except Undecided as u:
        out.append(rep.add(Ob('encode:' + qn, 'P', 'undecided', 'pyvc', time.time() - t0,
                              'outside the supported subset: %s' % u, function=qn)))
        obs = None
    except RecursionError:
        out.append(rep.add(Ob('encode:' + qn, 'P', 'undecided', 'pyvc', time.time() - t0, 'recursion limit', function=qn)))
        obs = None
    except (AttributeError, TypeError, KeyError, IndexError, ValueError, z3.Z3Exception) as ex2:
        # the sidecar contract (an invariant, a postcondition, an abstraction) no longer fits the text of the function -- a local it names
        # now holds a value of another kind, say: the proof cannot be re-established on this text; that is "undecided", never a verdict
        import traceback
        tb = traceback.extract_tb(ex2.__traceback__)
        where = next(('%s:%d' % (os.path.basename(f.filename), f.lineno) for f in reversed(tb) if '/contracts/' in f.filename), '%s:%d' % (os.path.basename(tb[-1].filename), tb[-1].lineno))
        out.append(rep.add(Ob('encode:' + qn, 'P', 'undecided', 'pyvc', time.time() - t0,
                              'the contract does not fit the current text of the function (%s at %s: %s)' % (type(ex2).__name__, where, str(ex2)[:200]), function=qn)))
        obs = None
    if obs is not None:
        # vacuity: precondition satisfiable (bounded instance), obligation count
        if len(obs) < getattr(c, 'min_obligations', 1):
            out.append(rep.add(Ob('vacuity:obligation-count:' + qn, 'P', 'fault', 'pyvc', 0,
                                  '%d obligations generated, contract header expects at least %d' % (len(obs), c.min_obligations), function=qn)))
        res = discharge_all(obs, timeout_ms)
        pending = []
        for ob, (st, be, dt, det) in zip(obs, res):
            name = '%s::%s' % (c.qualname, ob.name)
            if st == 'ok':
                out.append(rep.add(Ob(name, 'P', 'ok', be, dt, function=qn)))
            else:
                pending.append((ob, name, st, be, dt, det))
        bonly = getattr(c, 'bounded_only', ())
        if pending and bonly:
            pending = bounded_discharge(c, fn, pending, bonly, bound, out, rep, qn)
        if pending:
            wit = bounded_counterexample(c, fn, {base_name(p[0].name) for p in pending}, bound)
            for ob, name, st, be, dt, det in pending:
                w = wit.get(base_name(ob.name)) or wit.get('*')
                if w is not None:
                    out.append(rep.add(Ob(name, 'P', 'fail', be + '+replay', dt, det + ' | replay on the real function: ' + w['observed'], witness=w, function=qn)))
                elif st == 'refuted':
                    out.append(rep.add(Ob(name, 'P', 'fail', be, dt, det, witness={'replayed': False, 'signature': base_name(ob.name)}, function=qn)))
                else:
                    out.append(rep.add(Ob(name, 'P', 'undecided', be, dt, det, function=qn)))
        # precondition satisfiable
        s = z3.Solver(); s.set('timeout', 5000)
        try:
            with S.bounded_mode(bound):
                ex2 = E.Exec(c, fn); ex2.prepare_entry()
                s.add(*ex2.pre_pc)
                r = s.check()
        except Undecided:
            r = z3.unknown
        # canary: `False` under the entry hypotheses (precondition + facts) must NOT be discharged by the same pipeline
        try:
            cst, cbe, cdt, cdet = E.discharge(E.Obligation('canary', list(ex.pre_pc), z3.BoolVal(False), 0, 'canary'), 2000)
        except Exception as exn:
            cst, cbe, cdt, cdet = 'unknown', 'z3', 0., repr(exn)
        out.append(rep.add(Ob('%s::vacuity:canary-false-is-not-provable' % c.qualname, 'P', 'fault' if cst == 'ok' else 'ok', cbe, cdt,
                              'the entry hypotheses prove False: contradictory precondition or broken pipeline' if cst == 'ok' else '', function=qn)))
        out.append(rep.add(Ob('%s::vacuity:precondition-satisfiable' % c.qualname, 'P',
                              'ok' if r == z3.sat else 'fault', 'z3', 0, '' if r == z3.sat else 'precondition has no small model: %s' % r, function=qn)))
    # run-time evaluation of the same contract on concrete states (bounded stand-in / cross-check)
    out += runtime_contract(c, rep, tier, all_proved=obs is not None and all(o.status == 'ok' for o in out))
    return out


def bounded_discharge(c, fn, pending, bonly, bound, out, rep, qn):
    """Obligations the contract marks `bounded_only` (counting / pigeonhole arguments no SMT solver does
    unprompted) are decided on the finite instance: every container of the entry state has length <= bound and
    quantifiers are expanded; the query is quantifier-free.  They are labelled S, never P."""
    rest = []
    todo = [p for p in pending if base_name(p[0].name) in bonly]
    rest = [p for p in pending if base_name(p[0].name) not in bonly]
    if not todo: return pending
    try:
        with S.bounded_mode(bound):
            ex = E.Exec(c, fn); obs = ex.run(); limits = ex.size_constraints(bound)
        byname = {}
        for ob in obs: byname.setdefault(ob.name, []).append(ob)
        for (ob, name, st, be, dt, det) in todo:
            cands = byname.get(ob.name, [])
            t = time.time(); ok = bool(cands); why = ''
            for b in cands:
                s_ = z3.Solver(); s_.set('timeout', 20000)
                s_.add(*b.hyps); s_.add(*limits); s_.add(z3.Not(b.goal))
                r = s_.check()
                if r != z3.unsat:
                    ok = False; why = 'bounded instance: %s' % r; break
            if ok:
                out.append(rep.add(Ob(name, 'S', 'ok', 'z3-bounded', time.time() - t,
                                      'decided on the finite instance only: all containers of length <= %d, quantifier-free' % bound, function=qn)))
            else:
                rest.append((ob, name, st, be, dt, det + ' | ' + why))
    except Undecided as u:
        rest += todo
    return rest


def bounded_counterexample(c, fn, wanted, bound):
    """Re-run symbolic execution with quantifiers expanded over a finite shape; for each failing base
    obligation try to get a model and replay it on the real function.  -> {base name: witness}"""
    found = {}
    try:
        with S.bounded_mode(bound):
            ex = E.Exec(c, fn)
            obs = ex.run()
            entry = E.StateView(ex.entry)
            size_limits = ex.size_constraints(bound)
            for ob in obs:
                b = base_name(ob.name)
                if b not in wanted or b in found: continue
                s = z3.Solver(); s.set('timeout', 8000)
                s.add(*ob.hyps); s.add(*size_limits); s.add(z3.Not(ob.goal))
                tries = 0
                while tries < 4 and s.check() == z3.sat:
                    tries += 1
                    m = s.model()
                    try:
                        conc = S.NS(self=concrete_value(m, entry.self) if c.self_shape is not None else None,
                                    v={k: concrete_value(m, entry.v[k]) for k in list(c.params) + list(getattr(c, 'ghost_params', {}))})
                        obj, args = c.build(conc)
                    except Exception as exn:
                        break
                    if obj is None: break
                    oc = check_concrete(c, obj, args)
                    if oc.status == 'violated':
                        w = {'replayed': True, 'signature': ','.join(sorted(oc.failed)),
                             'input': repr(conc), 'observed': 'contract clauses violated: %s %s' % (oc.failed, oc.detail),
                             'state_after': repr(oc.new), 'how': 'model of the bounded instance of the failed obligation, built into real objects by the sidecar and run through the real function'}
                        found[b] = w
                        for f in oc.failed: found.setdefault(base_name(f), w)
                        break
                    # spurious for the real code (bounded-mode artefact): block this input and retry
                    blk = [d() != m[d] for d in m.decls() if d.arity() == 0 and z3.is_int_value(m[d])]
                    if not blk: break
                    s.add(z3.Or(*blk[:30]))
    except Undecided:
        pass
    return found


def runtime_contract(c, rep, tier, all_proved):
    """Evaluate the contract on the real function over the sidecar's enumerated concrete states."""
    gen = getattr(c, 'concrete_states', None)
    if gen is None: return []
    qn = '%s::%s' % (c.relpath, c.qualname)
    rng = random.Random(SEED * 7919 + 13)
    n = nviol = npre = 0
    first = None
    t0 = time.time()
    with S.symbolic_mode(False):
        for obj, args in gen(rng, tier):
            oc = check_concrete(c, obj, args)
            if oc.status == 'pre-false':
                npre += 1; continue
            n += 1
            rep.case('%s|%r' % (c.qualname, (repr(oc.old), oc.exc)))
            if n <= 2: rep.sample({'function': c.qualname, 'input': repr(oc.old)[:300], 'outcome': oc.exc or 'returned', 'contract': 'held' if oc.status == 'ok' else oc.failed})
            if oc.status == 'violated':
                nviol += 1
                if first is None: first = oc
    name = '%s::runtime-contract' % c.qualname
    if n == 0:
        return [rep.add(Ob(name, 'B', 'fault', 'rtc', time.time() - t0, 'no concrete state satisfied the precondition (%d tried)' % npre, function=qn))]
    if first is not None:
        w = {'replayed': True, 'signature': ','.join(sorted(first.failed)), 'input': repr(first.old),
             'observed': 'contract clauses violated on the real function: %s %s' % (first.failed, first.detail), 'state_after': repr(first.new)}
        return [rep.add(Ob(name, 'B', 'fail', 'rtc', time.time() - t0,
                           '%d of %d concrete evaluations violate the contract%s' % (nviol, n, ' ALTHOUGH every obligation was discharged: encoder or contract fault' if all_proved else ''),
                           witness=w, function=qn))]
    return [rep.add(Ob(name, 'B', 'ok', 'rtc', time.time() - t0, '%d concrete evaluations (%d skipped: precondition false)' % (n, npre), function=qn))]
