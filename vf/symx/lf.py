"""E4b -- lf: exact "lazy fraction" scalars for running the REAL numeric source on symbolic rate data.

Why a second scalar domain next to sympy expressions (sx.py): the calculators divide by sums (rho / sum(rho)) and solve
small linear systems, so results are rational functions in ~20 symbols whose coefficients are the exact values of the
doubles the crystal geometry consists of (53-bit rationals).  sympy's expression trees need `cancel`/`together` (multivariate
gcds) to decide such identities and do not finish for a 5 x 5 solve.  Here a scalar is

        numerator polynomial in QQ[gens]   /   product of denominator factors (a dict  factor-polynomial -> power)

and NO gcd is ever taken: sums bring both operands to the least common multiple of the *factor dictionaries*, a division by a
polynomial adds it as a factor.  `a == b` as rational functions is decided exactly by cross-multiplication and a zero test of
one polynomial (after rewriting square-root generators, W^2 -> the polynomial W is the root of).

Symbols and what they stand for (the soundness argument of every identity proved with this domain):
  * energy generators E: arbitrary reals;  X_E stands for exp(E/2): an arbitrary positive real, algebraically independent of
    E (an identity that holds for independent E and X holds in particular for X = exp(E/2));
  * exp(a) is defined for a linear form a = sum c_k E_k with 2 c_k integers and is the monomial prod X_k^(2 c_k);
    anything else raises Undecided;
  * sqrt(q) is defined when numerator and every denominator factor of q is a monomial with even exponents or a registered
    positive polynomial Z (then a generator W with W^2 = Z is used); positivity of the factors is what makes the
    principal square root multiplicative -- generators for prefactors / exponentials are positive by declaration, Z is a
    sum of monomials with positive coefficients (checked);
  * floats are converted to the exact rational they denote: arithmetic is over the reals, rounding is not modelled."""
import fractions, itertools
import numpy as np
from sympy import QQ
from sympy.polys.rings import ring as _ring
from ..common import Undecided


class Dom:
    """one polynomial ring + the registries of a symbolic run"""
    def __init__(self, names, positive=(), nroots=4):
        self.rootnames = ['W%d' % i for i in range(nroots)]
        self.names = list(names) + self.rootnames
        R = _ring(self.names, QQ)
        self.R, self.g = R[0], dict(zip(self.names, R[1:]))
        self.idx = {n: i for i, n in enumerate(self.names)}
        self.positive = set(positive)
        self.expgen = {}         # energy generator name -> name of the generator standing for exp(E/2)
        self.roots = {}          # root generator name -> polynomial Z with W^2 = Z
        self.one = LF(self, self.R(1), {})

    def gen(self, name): return LF(self, self.g[name], {})

    def energy(self, ename, xname):
        self.expgen[ename] = xname; self.positive.add(xname)
        return self.gen(ename)

    def const(self, v):
        if isinstance(v, LF): return v
        return LF(self, self.R(_q(v)), {})

    # ---- normal form of a polynomial modulo W^2 = Z ---------------------------------------------------------
    def reduce_roots(self, p):
        for w, Z in self.roots.items():
            i = self.idx[w]
            if p.degree(self.g[w]) < 2: continue
            out = self.R(0)
            for mon, c in p.terms():
                k = mon[i]
                m2 = list(mon); m2[i] = k % 2
                out += self.R({tuple(m2): c}) * Z ** (k // 2)
            p = out
        return p

    def is_zero_poly(self, p):
        return self.reduce_roots(p) == 0

    def root_of(self, Z):
        for w, z in self.roots.items():
            if z == Z: return self.g[w]
        # positivity of Z: every coefficient positive, every generator involved declared positive
        for mon, c in Z.terms():
            if c <= 0: raise Undecided('sqrt of a polynomial that is not evidently positive')
            for i, k in enumerate(mon):
                if k and self.names[i] not in self.positive: raise Undecided('sqrt involves a generator not declared positive: %s' % self.names[i])
        for w in self.rootnames:
            if w not in self.roots:
                self.roots[w] = Z; self.positive.add(w)
                return self.g[w]
        raise Undecided('more square-root atoms than reserved generators')


def _q(v):
    if isinstance(v, bool): raise Undecided('boolean used as a number')
    if isinstance(v, (int, np.integer)): return QQ(int(v))
    if isinstance(v, (float, np.floating)):
        f = fractions.Fraction(float(v)); return QQ(f.numerator, f.denominator)
    if isinstance(v, fractions.Fraction): return QQ(v.numerator, v.denominator)
    raise Undecided('cannot convert %r to an exact rational' % (v,))


def _lcm(da, db):
    out = dict(da)
    for f, k in db.items():
        if out.get(f, 0) < k: out[f] = k
    return out


def _prod(dom, d, minus=None):
    """product of factors in d divided by those in `minus` (which must be a sub-multiset)"""
    p = dom.R(1)
    for f, k in d.items():
        k2 = k - (minus.get(f, 0) if minus else 0)
        if k2 < 0: raise AssertionError('not a sub-multiset')
        if k2: p *= f ** k2
    return p


def _mk(dom, n, d):
    """cancel powers of generators common to the numerator's monomial content and the generator factors of the denominator
    (cheap; no polynomial gcd)"""
    gf = [(f, k) for f, k in d.items() if k and len(f) == 1 and f.LC == 1 and sum(f.LM) == 1]
    if not gf or n == 0: return LF(dom, n, {f: k for f, k in d.items() if k})
    monoms = n.monoms()
    d2 = {f: k for f, k in d.items() if k}
    div = [0] * len(dom.names)
    for f, k in gf:
        i = f.LM.index(1)
        c = min(min(m[i] for m in monoms), k)
        if c:
            div[i] = c
            if k - c: d2[f] = k - c
            else: del d2[f]
    if any(div): n = n.exquo(dom.R({tuple(div): QQ(1)}))
    return LF(dom, n, d2)


class LF:
    __slots__ = ('dom', 'n', 'd')
    __array_ufunc__ = None      # numpy scalars / arrays defer to the reflected operators below

    def __init__(self, dom, n, d):
        self.dom, self.n, self.d = dom, n, d

    # -- helpers
    def _co(self, o):
        if isinstance(o, LF): return o
        if isinstance(o, np.ndarray): return None
        return self.dom.const(o)

    @staticmethod
    def _arr(fn, arr):
        return np.frompyfunc(fn, 1, 1)(arr)

    def __add__(self, o):
        if isinstance(o, np.ndarray): return self._arr(lambda x: self + x, o)
        o = self._co(o)
        if self.d == o.d: return LF(self.dom, self.n + o.n, self.d)
        L = _lcm(self.d, o.d)
        return LF(self.dom, self.n * _prod(self.dom, L, self.d) + o.n * _prod(self.dom, L, o.d), L)
    __radd__ = __add__

    def __neg__(self): return LF(self.dom, -self.n, self.d)

    def __pos__(self): return self

    def __sub__(self, o):
        if isinstance(o, np.ndarray): return self._arr(lambda x: self - x, o)
        return self + (-self._co(o))

    def __rsub__(self, o):
        if isinstance(o, np.ndarray): return self._arr(lambda x: x - self, o)
        return self._co(o) + (-self)

    def __mul__(self, o):
        if isinstance(o, np.ndarray): return self._arr(lambda x: self * x, o)
        o = self._co(o)
        if not o.d and not self.d: return LF(self.dom, self.n * o.n, {})
        d = dict(self.d)
        for f, k in o.d.items(): d[f] = d.get(f, 0) + k
        return _mk(self.dom, self.n * o.n, d)
    __rmul__ = __mul__

    def inverse(self):
        if self.n == 0: raise ZeroDivisionError('division by an identically zero symbolic value')
        # 1 / (n / prod d) = prod d / n ; a monomial numerator is split into its generators so that factors stay shared
        num = _prod(self.dom, self.d)
        n = self.n
        d = {}
        if len(n) == 1:
            (mon, c), = n.terms()
            for i, k in enumerate(mon):
                if k: d[self.dom.g[self.dom.names[i]]] = k
            return LF(self.dom, num * self.dom.R(1 / c), d)
        # make the factor monic-ish (leading coefficient 1) so that equal polynomials up to a constant share the factor
        lc = n.LC
        return LF(self.dom, num * self.dom.R(1 / lc), {n * self.dom.R(1 / lc): 1})

    def __truediv__(self, o):
        if isinstance(o, np.ndarray): return self._arr(lambda x: self / x, o)
        return self * self._co(o).inverse()

    def __rtruediv__(self, o):
        if isinstance(o, np.ndarray): return self._arr(lambda x: x / self, o)
        return self._co(o) * self.inverse()

    def __pow__(self, k):
        if not isinstance(k, (int, np.integer)): raise Undecided('symbolic value raised to a non-integer power')
        k = int(k)
        if k < 0: return self.inverse() ** (-k)
        return LF(self.dom, self.n ** k, {f: e * k for f, e in self.d.items()})

    # -- decisions
    def is_zero(self): return self.dom.is_zero_poly(self.n)

    def same(self, o):
        o = self._co(o)
        L = _lcm(self.d, o.d)
        return self.dom.is_zero_poly(self.n * _prod(self.dom, L, self.d) - o.n * _prod(self.dom, L, o.d))

    def __eq__(self, o):
        if isinstance(o, np.ndarray): return NotImplemented
        return self.same(o)

    def __ne__(self, o): return not self.__eq__(o)
    __hash__ = None

    def __bool__(self): raise Undecided('branch on a symbolic value')

    def _nocmp(self, o): raise Undecided('order comparison of symbolic values')
    __lt__ = __le__ = __gt__ = __ge__ = _nocmp

    def __float__(self): raise Undecided('symbolic value forced to float')

    def __repr__(self):
        return 'LF(%s terms / %s)' % (len(self.n), {str(f)[:30]: k for f, k in self.d.items()})

    def free(self):
        """names of generators that occur (numerator or denominator factors), after root rewriting"""
        out = set()
        for p in [self.dom.reduce_roots(self.n)] + list(self.d):
            for mon in p.monoms():
                for i, k in enumerate(mon):
                    if k: out.add(self.dom.names[i])
        return out

    def max_coeff(self):
        p = self.dom.reduce_roots(self.n)
        return max((abs(float(c)) for c in p.coeffs()), default=0.0)


# ---------------------------------------------------------------------------------------------------------------
# the operations the numpy shim dispatches to

def lf_exp(a):
    dom = a.dom
    if a.d: raise Undecided('exp of a non-polynomial argument')
    out = dom.one
    for mon, c in a.n.terms():
        if sum(mon) != 1: raise Undecided('exp of a non-linear argument')
        name = dom.names[mon.index(1)]
        if name not in dom.expgen: raise Undecided('exp of a generator that is not an energy: %s' % name)
        k = 2 * c
        if k.denominator != 1: raise Undecided('exp of %s * energy: only half-integer multiples are modelled' % c)
        out = out * dom.gen(dom.expgen[name]) ** int(k.numerator)
    return out


def _sqrt_poly(dom, p):
    """p = c * monomial with even exponents * (optional registered/registrable positive polynomial) -> its positive root"""
    if len(p) == 1:
        (mon, c), = p.terms()
        if c <= 0: raise Undecided('sqrt of a non-positive constant')
        r = fractions.Fraction(int(c.numerator), int(c.denominator))
        # sqrt(a / b) = sqrt(a b) / b = k sqrt(s) / b with s the square-free part of a b (a root generator when s > 1)
        from sympy import factorint
        ab = r.numerator * r.denominator
        if ab > 10 ** 12: raise Undecided('sqrt of a large rational constant')
        k, s = 1, 1
        for p_, e_ in factorint(ab).items():
            k *= p_ ** (e_ // 2)
            if e_ % 2: s *= p_
        e = []
        for i, kk in enumerate(mon):
            if kk % 2: raise Undecided('sqrt of an odd power of %s' % dom.names[i])
            if kk and dom.names[i] not in dom.positive: raise Undecided('sqrt of a power of %s, which is not declared positive' % dom.names[i])
            e.append(kk // 2)
        out = dom.R({tuple(e): QQ(k, r.denominator)})
        if s > 1: out = out * dom.root_of(dom.R(s))
        return out
    # split off the monomial content
    monoms = p.monoms()
    content = tuple(min(m[i] for m in monoms) for i in range(len(dom.names)))
    if any(content):
        mono = dom.R({content: QQ(1)})
        rest = p.exquo(mono)
        return _sqrt_poly(dom, mono) * _sqrt_poly(dom, rest)
    lc = p.LC
    Z = p * dom.R(1 / lc)
    return _sqrt_poly(dom, dom.R(lc)) * dom.root_of(Z)


def lf_sqrt(a):
    dom = a.dom
    if a.n == 0: return a
    num = _sqrt_poly(dom, a.n)
    d = {}
    for f, k in a.d.items():
        if k % 2 == 0: d[f] = k // 2
        else:
            r = _sqrt_poly(dom, f)
            # keep the root as a factor (a generator or a monomial): split monomials into generators
            if len(r) == 1:
                (mon, c), = r.terms()
                num = num * dom.R(1 / c)
                for i, e in enumerate(mon):
                    if e:
                        g = dom.g[dom.names[i]]; d[g] = d.get(g, 0) + e * k
            else:
                d[r] = d.get(r, 0) + k
    return LF(dom, num, d)


def lift(dom, x):
    """nested list / float array -> object array of exact LF constants"""
    a = np.asarray(x)
    if a.dtype == object: return a
    out = np.empty(a.shape, dtype=object)
    for idx in np.ndindex(a.shape): out[idx] = dom.const(a[idx])
    return out if a.shape else out[()]


def is_lf(x):
    if isinstance(x, LF): return True
    if isinstance(x, np.ndarray) and x.dtype == object and x.size and isinstance(x.flat[0], LF): return True
    if isinstance(x, (list, tuple)) and x and isinstance(x[0], LF): return True
    return False


def all_same(A, B):
    A = np.asarray(A, dtype=object); B = np.asarray(B, dtype=object)
    if A.shape != B.shape: return False
    return all(a.same(b) for a, b in zip(A.flat, B.flat))


def all_zero(A):
    return all(a.is_zero() if isinstance(a, LF) else a == 0 for a in np.asarray(A, dtype=object).flat)


def solve_exact(dom, A, b):
    """x with A x = b for a square matrix of LF entries: x = adj(N) (b * D) / det(N) with A = N / D (D the common factor
    dictionary), by fraction-free elimination over the polynomial ring (sympy DomainMatrix); raises ZeroDivisionError when
    det(N) is identically zero"""
    from sympy.polys.matrices import DomainMatrix
    n = A.shape[0]
    L = {}
    for a in A.flat: L = _lcm(L, a.d)
    N = [[A[i, j].n * _prod(dom, L, A[i, j].d) for j in range(n)] for i in range(n)]
    Rdom = dom.R.to_domain()
    dm = DomainMatrix(N, (n, n), Rdom)
    adj, det = dm.adj_det()
    if dom.is_zero_poly(det): raise ZeroDivisionError('singular symbolic matrix')
    adj = adj.to_Matrix() if False else adj.rep.to_list() if hasattr(adj.rep, 'to_list') else adj.to_list()
    detinv = LF(dom, det, {}).inverse()
    common = LF(dom, _prod(dom, L), {})
    bb = np.asarray(b, dtype=object)
    out = np.empty(bb.shape, dtype=object)
    if bb.ndim == 1:
        for i in range(n):
            s = dom.const(0)
            for j in range(n): s = s + LF(dom, adj[i][j], {}) * bb[j]
            out[i] = s * common * detinv
    else:
        for col in range(bb.shape[1]):
            for i in range(n):
                s = dom.const(0)
                for j in range(n): s = s + LF(dom, adj[i][j], {}) * bb[j, col]
                out[i, col] = s * common * detinv
    return out


def evaluate(x, vals):
    """numeric value (float) of an LF at generator values `vals` (name -> float); exp generators and roots are filled in
    consistently: X_E = exp(E / 2), W = sqrt(Z)"""
    import math
    dom = x.dom
    v = dict(vals)
    for e, xe in dom.expgen.items():
        if e in v and xe not in v: v[xe] = math.exp(v[e] / 2)
    def pe(p):
        tot = 0.0
        for mon, c in p.terms():
            t = float(c)
            for i, k in enumerate(mon):
                if k: t *= v[dom.names[i]] ** k
            tot += t
        return tot
    for w, Z in dom.roots.items():
        try: v[w] = math.sqrt(pe(Z))
        except KeyError: pass
    num = pe(x.n); den = 1.0
    for f, k in x.d.items(): den *= pe(f) ** k
    return num / den
