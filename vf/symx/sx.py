"""E4 -- symx: the REAL module source of the current tree executed by CPython on symbolic scalars.

What is executed: the module's own source text, parsed on every run, with exactly these mechanical rewrites
(listed in every evidence file that uses this engine):
  R1  `<expr>.astype(int)`            -> `sx_astype_int_(<expr>)`   (numpy cannot hold symbolic integers in an
                                        int64 array; the helper requires every element to be integer-valued --
                                        an obligation -- and is then the identity, which is what astype(int) is on
                                        exact integers)
  R2  the module global `np` is replaced, after the module body has run, by a shim that delegates to numpy except
      for floor / round / around / rint / allclose / isclose / linalg.inv / linalg.det / all / any / zeros / array / eye
      on object (symbolic) arrays.
Nothing else is re-implemented: control flow, indexing, dot products, tuple/namedtuple plumbing are CPython/numpy.
Scalars are sympy expressions; floats are treated as mathematical reals; a branch on a symbolic value raises
(the function is then reported undecided).  floor() of a symbolic real is an integer-valued ghost symbol, except
when the argument is (integer-valued part) + (declared in-cell symbol) + threshold, where it is the integer part."""
import ast, os, sys, types, itertools
import numpy as np
import sympy as sp
from ..common import REPO, Undecided, CheckerFault


class Ctx:
    """symbol registry of one symbolic run"""
    def __init__(self):
        self.cell = {}        # symbol -> (lo, hi): declared range of an in-cell coordinate
        self.floors = {}      # expr -> integer ghost symbol
        self.obligations = []  # (name, ok, detail)
        self.n = itertools.count()
        self.unitdet = {}     # expanded determinant polynomial -> sign symbol s (s^2 = 1): declared unimodular integer matrices

    def declare_unimodular(self, M, s):
        self.unitdet[sp.expand(sp.Matrix(M.tolist()).det())] = s

    def integer(self, name): return sp.Symbol(name, integer=True)
    def real(self, name): return sp.Symbol(name, real=True)

    def incell(self, name):
        """a coordinate in the range of crystal.incell: [-thr, 1 - thr) with thr the double 1.0e-8 exactly"""
        s = sp.Symbol(name, real=True)
        thr = sp.Rational(*float(1.0e-8).as_integer_ratio())
        self.cell[s] = (-thr, 1 - thr)
        return s

    def oblige(self, name, ok, detail=''):
        self.obligations.append((name, bool(ok), detail))


CTX = [None]


def is_symbolic(a):
    return isinstance(a, np.ndarray) and a.dtype == object or isinstance(a, sp.Basic)


def obj(x):
    """nested list / array -> object ndarray of sympy expressions"""
    a = np.array(x, dtype=object)
    f = np.frompyfunc(lambda e: e if isinstance(e, sp.Basic) else sp.nsimplify(e, rational=True) if isinstance(e, float) else sp.sympify(e), 1, 1)
    return f(a) if a.shape else f(a)[()]


def exact(e):
    """floats that appear in the code become the exact rational they denote"""
    if isinstance(e, sp.Basic):
        fl = e.atoms(sp.Float)
        if fl: e = e.xreplace({f: sp.Rational(*float(f).as_integer_ratio()) for f in fl})
        return e
    if isinstance(e, (int, np.integer)): return sp.Integer(int(e))
    if isinstance(e, (float, np.floating)): return sp.Rational(*float(e).as_integer_ratio())
    return sp.sympify(e)


def int_valued(e):
    e = sp.expand(exact(e))
    return e.is_integer is True


def split_integer_part(e):
    """e = n + r with n integer-valued (maximal syntactic part)"""
    e = sp.expand(exact(e))
    if any(isinstance(a, sp.Pow) and a.exp.is_negative for a in sp.preorder_traversal(e)):
        e = sp.expand(sp.cancel(sp.together(e)))       # rational functions (explicit inverse matrices) are put in normal form
    terms = sp.Add.make_args(e)
    n = sp.Add(*[t for t in terms if t.is_integer is True])
    return n, sp.expand(e - n)


def sx_floor(e):
    ctx = CTX[0]
    n, r = split_integer_part(e)
    if r == 0: return n
    if r.is_number: return n + sp.floor(r)
    # r = cell symbol + constant with known range?
    syms = list(r.free_symbols)
    if len(syms) == 1 and syms[0] in ctx.cell:
        s = syms[0]; c = sp.expand(r - s)
        if c.is_number:
            lo, hi = ctx.cell[s]
            flo, fhi = sp.floor(lo + c), sp.ceiling(hi + c) - 1     # range [lo+c, hi+c)
            if flo == fhi: return n + flo
    key = sp.srepr(r)
    if key not in ctx.floors:
        ctx.floors[key] = sp.Symbol('floor_%d' % next(ctx.n), integer=True)
    return n + ctx.floors[key]


def sx_round(e):
    n, r = split_integer_part(e)
    if r == 0: return n
    if r.is_number: return n + sp.Integer(round(float(r)))     # not on a tie by construction of the callers
    CTX[0].oblige('argument-of-round-is-an-exact-integer', False, 'round(%s): non-integer part %s' % (e, r))
    return n + sx_floor(r + sp.Rational(1, 2))


def _elementwise(fn):
    uf = np.frompyfunc(fn, 1, 1)
    def g(x, *a, **k):
        if isinstance(x, np.ndarray) and x.dtype == object: return uf(x)
        if isinstance(x, sp.Basic): return fn(x)
        return None
    return g


def astype_int(x):
    if isinstance(x, np.ndarray) and x.dtype == object:
        for e in x.ravel():
            if not int_valued(e):
                CTX[0].oblige('astype-int-applied-to-exact-integers', False, 'astype(int) of %s' % (e,))
        return np.frompyfunc(lambda e: sp.expand(exact(e)), 1, 1)(x)
    if isinstance(x, sp.Basic):
        if not int_valued(x): CTX[0].oblige('astype-int-applied-to-exact-integers', False, 'astype(int) of %s' % (x,))
        return x
    return np.asarray(x).astype(int)


class _Linalg:
    def __getattr__(self, k): return getattr(np.linalg, k)

    @staticmethod
    def inv(M):
        if isinstance(M, np.ndarray) and M.dtype == object:
            m = sp.Matrix(M.tolist())
            d = sp.expand(m.det())
            if CTX[0] is not None and d in CTX[0].unitdet:
                return obj((m.adjugate() * CTX[0].unitdet[d]).tolist())      # 1/det = det for det = +-1
            return obj((m.adjugate() / d).tolist())
        return np.linalg.inv(M)

    @staticmethod
    def det(M):
        if isinstance(M, np.ndarray) and M.dtype == object: return sp.Matrix(M.tolist()).det()
        return np.linalg.det(M)


class NPShim(types.ModuleType):
    def __init__(self):
        super().__init__('np_symx_shim')
        self.linalg = _Linalg()

    def __getattr__(self, name): return getattr(np, name)

    def floor(self, x, *a, **k):
        r = _elementwise(sx_floor)(x)
        return r if r is not None else np.floor(x, *a, **k)

    def round(self, x, *a, **k):
        r = _elementwise(sx_round)(x)
        return r if r is not None else np.round(x, *a, **k)
    around = round
    rint = round

    def zeros(self, shape, dtype=float, **k):
        return np.zeros(shape, dtype=dtype, **k)      # plain zeros combine fine with object arrays

    def dot(self, a, b, *r, **k):
        if is_symbolic(a) or is_symbolic(b):
            a2 = a if isinstance(a, np.ndarray) and a.dtype == object else obj(a)
            b2 = b if isinstance(b, np.ndarray) and b.dtype == object else obj(b)
            return np.dot(a2, b2)
        return np.dot(a, b, *r, **k)


SHIM = NPShim()


class _Rewrite(ast.NodeTransformer):
    def __init__(self): self.count = 0

    def visit_Call(self, node):
        self.generic_visit(node)
        f = node.func
        if isinstance(f, ast.Attribute) and f.attr == 'astype' and len(node.args) == 1 and isinstance(node.args[0], ast.Name) and node.args[0].id == 'int':
            self.count += 1
            return ast.copy_location(ast.Call(func=ast.Name(id='sx_astype_int_', ctx=ast.Load()), args=[f.value], keywords=[]), node)
        return node


_mods = {}


def load_module(relpath, deps=(), variant=''):
    """Execute the real source of REPO/relpath (rewritten R1) in a fresh module object whose global np is the shim.
    deps: already loaded symbolic modules to substitute for `from onsager import x` style imports."""
    key = (relpath, tuple(sorted(d.__name__ for d in deps)), variant)
    if key in _mods: return _mods[key]
    path = os.path.join(REPO, relpath)
    src = open(path).read()
    tree = ast.parse(src, filename=path)
    rw = _Rewrite(); tree = rw.visit(tree); ast.fix_missing_locations(tree)
    name = 'symx_' + os.path.basename(relpath)[:-3]
    mod = types.ModuleType(name)
    mod.__file__ = path
    mod.__dict__['sx_astype_int_'] = astype_int
    # imports of sibling modules inside the package resolve to the real ones, except those given in deps
    import yaml
    saved = (dict(yaml.Dumper.yaml_representers), dict(yaml.Loader.yaml_constructors))
    try:
        exec(compile(tree, path, 'exec'), mod.__dict__)
    finally:
        # the module body registers YAML representers for its classes: undo, this copy must not leak into yaml
        yaml.Dumper.yaml_representers = saved[0]; yaml.Loader.yaml_constructors = saved[1]
    mod.__dict__['np'] = SHIM
    for d in deps:
        short = d.__name__[len('symx_'):]
        for k, v in list(mod.__dict__.items()):
            if isinstance(v, types.ModuleType) and v.__name__ == 'onsager.' + short: mod.__dict__[k] = d
    mod.__sx_rewrites__ = rw.count
    _mods[key] = mod
    return mod


class Run:
    """with Run() as ctx: ... symbolic calls ...  -> ctx.obligations"""
    def __enter__(self):
        self.ctx = Ctx(); self.prev = CTX[0]; CTX[0] = self.ctx
        return self.ctx

    def __exit__(self, *a): CTX[0] = self.prev


def zero(e, relations=()):
    """is the expression identically zero (as a rational function; modulo polynomial relations if given)?"""
    e = sp.together(sp.expand(exact(e)))
    num, den = sp.fraction(e)
    num = sp.expand(num)
    if num == 0: return True
    if relations:
        gens = sorted(set().union(*[r.free_symbols for r in relations]) | num.free_symbols, key=str)
        try:
            _, rem = sp.reduced(num, list(relations), *gens)
            if sp.expand(rem) == 0: return True
            G = sp.groebner(list(relations), *gens, order='grevlex')
            _, rem = G.reduce(num)
            return sp.expand(rem) == 0
        except Exception:
            return False
    return False


def all_zero(arr, relations=()):
    a = np.asarray(arr, dtype=object).ravel()
    return all(zero(e, relations) for e in a)
