"""Entry point: python -m vf.run <Cxx> [--tier quick|thorough] [--replay file]"""
import sys, os, argparse, importlib, traceback, json, time
sys.path.insert(0, os.path.dirname(os.path.dirname(os.path.abspath(__file__))))
from vf import common


def main():
    ap = argparse.ArgumentParser()
    ap.add_argument('pid')
    ap.add_argument('--tier', default=os.environ.get('VERIF_TIER', 'quick'), choices=['quick', 'thorough'])
    ap.add_argument('--replay', default=None)
    a = ap.parse_args()
    try:
        common.repo_on_path()
        mod = importlib.import_module('props.' + a.pid)
        if a.replay:
            return mod.replay(a.replay) if hasattr(mod, 'replay') else generic_replay(a.replay)
        return mod.main(a.tier)
    except common.CheckerFault as ex:
        print('FAULT: %s' % ex)
        return common.EXIT_FAULT
    except Exception:
        traceback.print_exc()
        print('FAULT: checker crashed (this is not a verdict about the code)')
        return common.EXIT_FAULT


def generic_replay(path):
    d = json.load(open(path))
    print(json.dumps(d, indent=1)[:4000])
    print('replay file names obligation %s of property %s; re-run ./check %s to re-derive it on the current tree'
          % (d.get('obligation'), d.get('property'), d.get('property')))
    return 0


if __name__ == '__main__':
    sys.exit(main())
