"""Contract language shared by the deductive engine (E1, symbolic: z3 terms) and the run-time
contract checker (E3, concrete: Python values).  A contract is ordinary Python that only uses
the combinators below and the view classes, so the *same text* is (a) turned into proof
obligations over the extracted source and (b) evaluated on the real objects at run time (the
bounded stand-in and the CPython cross-check of the encoder)."""
import itertools
import z3

_fresh = itertools.count()


def is_sym(*xs):
    return any(isinstance(x, z3.ExprRef) for x in xs)


def _b(x):
    """python bool / z3 Bool -> z3 Bool"""
    if isinstance(x, z3.ExprRef): return x
    return z3.BoolVal(bool(x))


def _call(x):
    return x() if callable(x) else x


def And(*xs):
    xs = [x for x in xs]
    vals = []
    for x in xs:
        x = _call(x)
        if not isinstance(x, z3.ExprRef):
            if not x: return False
            continue
        vals.append(x)
    if not vals: return True
    return z3.And(*vals) if len(vals) > 1 else vals[0]


def Or(*xs):
    vals = []
    for x in xs:
        x = _call(x)
        if not isinstance(x, z3.ExprRef):
            if x: return True
            continue
        vals.append(x)
    if not vals: return False
    return z3.Or(*vals) if len(vals) > 1 else vals[0]


def Not(x):
    x = _call(x)
    return z3.Not(x) if isinstance(x, z3.ExprRef) else (not x)


def Implies(a, b):
    """b may be a thunk (evaluated only if a is not concretely false)"""
    a = _call(a)
    if not isinstance(a, z3.ExprRef):
        return _call(b) if a else True
    b = _call(b)
    return z3.Implies(a, _b(b))


def Iff(a, b):
    a, b = _call(a), _call(b)
    if is_sym(a, b): return _b(a) == _b(b)
    return bool(a) == bool(b)


def ite(c, a, b):
    c = _call(c)
    if isinstance(c, z3.ExprRef):
        a, b = _call(a), _call(b)
        if not isinstance(a, z3.ExprRef) and not isinstance(b, z3.ExprRef):
            if isinstance(a, bool): a, b = z3.BoolVal(a), z3.BoolVal(b)
            elif isinstance(a, int) and isinstance(b, int): a, b = z3.IntVal(a), z3.IntVal(b)
            else: a, b = z3.RealVal(a), z3.RealVal(b)
        return z3.If(c, a, b)
    return _call(a) if c else _call(b)


BOUND = [None]        # when set to an int B the symbolic quantifiers are expanded over 0..B (counterexample search)


def _rng():
    return range(-1, BOUND[0] + 2)


def forall(lo, hi, body, name='q', pat=None):
    """forall i in [lo, hi): body(i).  pat(i): optional instantiation trigger (a term containing i; it changes
    how the solver searches, not what the formula means)."""
    if is_sym(lo, hi) or SYMBOLIC[0]:
        if BOUND[0] is not None:
            return z3.And(*[z3.Implies(z3.And(i >= lo, i < hi), _b(body(z3.IntVal(i)))) for i in _rng()])
        i = z3.Int('%s!%d' % (name, next(_fresh)))
        bd = _b(body(i))
        if pat is not None:
            return z3.ForAll([i], z3.Implies(z3.And(i >= lo, i < hi), bd), patterns=[pat(i)])
        return z3.ForAll([i], z3.Implies(z3.And(i >= lo, i < hi), bd))
    return all(body(i) for i in range(lo, hi))


def forall2(lo1, hi1, lo2f, hi2f, body, name='q'):
    """forall i in [lo1,hi1), j in [lo2f(i), hi2f(i)): body(i, j)"""
    if SYMBOLIC[0]:
        if BOUND[0] is not None:
            return z3.And(*[z3.Implies(z3.And(i >= lo1, i < hi1, j >= lo2f(z3.IntVal(i)), j < hi2f(z3.IntVal(i))),
                                       _b(body(z3.IntVal(i), z3.IntVal(j)))) for i in _rng() for j in _rng()])
        i = z3.Int('%s!%d' % (name, next(_fresh))); j = z3.Int('%s!%d' % (name, next(_fresh)))
        return z3.ForAll([i, j], z3.Implies(z3.And(i >= lo1, i < hi1, j >= lo2f(i), j < hi2f(i)), _b(body(i, j))))
    return all(body(i, j) for i in range(lo1, hi1) for j in range(lo2f(i), hi2f(i)))


def exists(lo, hi, body, name='e'):
    if is_sym(lo, hi) or SYMBOLIC[0]:
        if BOUND[0] is not None:
            return z3.Or(*[z3.And(i >= lo, i < hi, _b(body(z3.IntVal(i)))) for i in _rng()])
        i = z3.Int('%s!%d' % (name, next(_fresh)))
        return z3.Exists([i], z3.And(i >= lo, i < hi, _b(body(i))))
    return any(body(i) for i in range(lo, hi))


def forall_int(body, name='a', pattern=None):
    """forall i (all integers): body(i) -- used by the encoder for array definitions"""
    if not SYMBOLIC[0]:
        return all(body(i) for i in range(-2, 40))      # concrete evaluation: a window larger than any enumerated state
    if BOUND[0] is not None:
        return z3.And(*[_b(body(z3.IntVal(i))) for i in _rng()])
    i = z3.Int('%s!%d' % (name, next(_fresh)))
    if pattern is not None:
        return z3.ForAll([i], _b(body(i)), patterns=[pattern(i)])
    return z3.ForAll([i], _b(body(i)))


class bounded_mode:
    def __init__(self, B): self.B = B
    def __enter__(self): self.prev = BOUND[0]; BOUND[0] = self.B
    def __exit__(self, *a): BOUND[0] = self.prev


SYMBOLIC = [False]     # set by the engine while it evaluates contracts on symbolic states


class symbolic_mode:
    def __init__(self, on=True): self.on = on
    def __enter__(self): self.prev = SYMBOLIC[0]; SYMBOLIC[0] = self.on
    def __exit__(self, *a): SYMBOLIC[0] = self.prev


# ---------------------------------------------------------------------------------------------
# concrete views (run-time side).  The symbolic views live in pyvc.engine and offer the same API.

class CSeq:
    """1-D sequence of scalars"""
    def __init__(self, xs): self.xs = list(xs)
    @property
    def len(self): return len(self.xs)
    def __getitem__(self, i): return self.xs[i]
    def __eq__(self, o): return isinstance(o, CSeq) and self.xs == o.xs
    def __repr__(self): return 'CSeq(%r)' % (self.xs,)


class CSeq2:
    """list of lists of scalars"""
    def __init__(self, xss): self.xss = [list(x) for x in xss]
    @property
    def len(self): return len(self.xss)
    def lenof(self, c): return len(self.xss[c])
    def at(self, c, k): return self.xss[c][k]
    def row(self, c): return CSeq(self.xss[c])
    def __eq__(self, o): return isinstance(o, CSeq2) and self.xss == o.xss
    def __repr__(self): return 'CSeq2(%r)' % (self.xss,)


class CSet:
    def __init__(self, xs): self.xs = set(xs)
    def has(self, i): return i in self.xs
    def __eq__(self, o): return isinstance(o, CSet) and self.xs == o.xs
    def __repr__(self): return 'CSet(%r)' % (sorted(self.xs),)


class CDict:
    def __init__(self, d): self.d = dict(d)
    def has(self, k): return k in self.d
    def get(self, k): return self.d[k]
    def __eq__(self, o): return isinstance(o, CDict) and self.d == o.d


class NS:
    """plain namespace"""
    def __init__(_ns, **kw): _ns.__dict__.update(kw)
    def __repr__(self): return 'NS(%s)' % ', '.join('%s=%r' % kv for kv in self.__dict__.items())


def seq_eq(a, b):
    """extensional equality of two sequence views"""
    return And(a.len == b.len, lambda: forall(0, a.len, lambda i: a[i] == b[i]))


def seq2_eq(a, b):
    return And(a.len == b.len,
               lambda: forall(0, a.len, lambda c: a.lenof(c) == b.lenof(c)),
               lambda: forall2(0, a.len, lambda c: 0, lambda c: a.lenof(c), lambda c, k: a.at(c, k) == b.at(c, k)))
