"""Common layer: repo location, exit codes, obligations, evidence, replay, known findings."""
import os, sys, json, time, hashlib, traceback, importlib, contextlib

VERIF = os.path.dirname(os.path.dirname(os.path.abspath(__file__)))
REPO = os.path.abspath(os.environ.get('VERIF_REPO', '/repo'))
SEED = int(os.environ.get('VERIF_SEED', '0') or 0)

EXIT_OK, EXIT_VIOLATION, EXIT_UNDECIDED, EXIT_FAULT = 0, 1, 2, 3


def repo_on_path():
    """Make `import onsager` resolve to REPO's working tree (not the develop-mode install)."""
    if sys.path[0] != REPO:
        sys.path.insert(0, REPO)
    for name in [m for m in sys.modules if m == 'onsager' or m.startswith('onsager.')]:
        f = getattr(sys.modules[name], '__file__', '') or ''
        if not os.path.abspath(f).startswith(REPO + os.sep):
            del sys.modules[name]
    import onsager
    got = os.path.dirname(os.path.abspath(onsager.__file__))
    if got != os.path.join(REPO, 'onsager'):
        raise CheckerFault('onsager imported from %s, expected %s' % (got, REPO))


class CheckerFault(Exception):
    """The machinery itself is broken (exit 3) -- never a verdict about the code."""


class Undecided(Exception):
    """An obligation could not be decided (exit 2) -- never a violation."""


# ---------------------------------------------------------------------------------------------
# obligations and results

class Ob:
    """One discharged / failed / undecided obligation (P, S) or one contract evaluation group (B)."""
    __slots__ = ('name', 'level', 'status', 'backend', 'secs', 'detail', 'witness', 'function')

    def __init__(self, name, level, status, backend='', secs=0.0, detail='', witness=None, function=''):
        assert level in ('P', 'S', 'B') and status in ('ok', 'fail', 'undecided', 'fault')
        self.name, self.level, self.status, self.backend = name, level, status, backend
        self.secs, self.detail, self.witness, self.function = secs, detail, witness, function

    def asdict(self):
        return {k: getattr(self, k) for k in self.__slots__ if getattr(self, k) not in (None, '')}


class Report:
    """Accumulates what a run of one property's check covered."""

    def __init__(self, pid, tier):
        self.pid, self.tier, self.t0 = pid, tier, time.time()
        self.obs = []                # Ob list
        self.functions = {}          # qualified name -> (file, first line, last line)
        self.assumptions = []        # strings
        self.trusted = []            # strings
        self.b_evals = 0             # B-level contract evaluations
        self.b_cases = set()         # distinct non-trivial case signatures
        self.samples = []            # written-out examples
        self.notes = []
        self.gaps = []
        self.violations = []         # (obligation name, what, witness dict, replayed bool)
        self.extra = {}

    def add(self, ob):
        self.obs.append(ob)
        return ob

    def assume(self, *texts):
        for t in texts:
            if t not in self.assumptions: self.assumptions.append(t)

    def trust(self, *texts):
        for t in texts:
            if t not in self.trusted: self.trusted.append(t)

    def under_contract(self, qualname, file, l0, l1):
        self.functions[qualname] = (file, l0, l1)

    def sample(self, s, cap=6):
        if len(self.samples) < cap: self.samples.append(s)

    def case(self, sig, n=1):
        self.b_evals += n
        self.b_cases.add(sig)


# ---------------------------------------------------------------------------------------------
# known findings

def load_findings(pid):
    path = os.path.join(VERIF, 'known_findings.json')
    if not os.path.exists(path): return [], []
    data = json.load(open(path))
    known = [f for f in data.get('known', []) if f['property'] == pid]
    fixed = [f for f in data.get('fixed', []) if f['property'] == pid]
    return known, fixed


def finding_matches(f, obname, witness_sig):
    """A known finding is identified by obligation name and a witness signature (substring match on the
    stable signature string) so that a different failure of the same property is still reported."""
    import re
    if f.get('obligation') and f['obligation'] != obname: return False
    if f.get('obligation_regex') and not re.fullmatch(f['obligation_regex'], obname): return False
    if f.get('witness_regex') and not (witness_sig is not None and re.search(f['witness_regex'], witness_sig)): return False
    sig = f.get('witness_signature')
    return sig is None or (witness_sig is not None and sig in witness_sig)


# ---------------------------------------------------------------------------------------------
# replay files and the final verdict

def write_replay(pid, obname, payload):
    d = os.path.join(VERIF, 'replays', pid)
    os.makedirs(d, exist_ok=True)
    h = hashlib.sha1((obname + json.dumps(payload, sort_keys=True, default=str)).encode()).hexdigest()[:10]
    path = os.path.join(d, '%s-%s.json' % (''.join(ch if ch.isalnum() or ch in '._-' else '_' for ch in obname)[:80], h))
    payload = dict(payload, property=pid, obligation=obname, repo=REPO)
    with open(path, 'w') as f: json.dump(payload, f, indent=1, default=str)
    return path


def claimed_category(pid, default):
    """The level written into the evidence file is the one MANIFEST.json claims for the property (generated from
    props/claims.py): one source, so the two files cannot disagree.  `default` is used only for a property the
    manifest does not list."""
    try:
        for c in json.load(open(os.path.join(VERIF, 'MANIFEST.json')))['checks']:
            if c['property_id'] == pid: return c['level_claimed']['category']
    except (OSError, KeyError, ValueError):
        pass
    return default


def finish(rep, level_category, explanation, checker_cmd):
    """Write evidence/<id>.json, print verdict lines, return the exit code."""
    import jsonschema
    level_category = claimed_category(rep.pid, level_category)
    known, fixed = load_findings(rep.pid)
    code = EXIT_OK
    lines = []
    n_viol = 0
    used_known = set()
    for ob in rep.obs:
        if ob.status == 'fail':
            sig = (ob.witness or {}).get('signature') if isinstance(ob.witness, dict) else None
            kf = next((f for f in known if finding_matches(f, ob.name, sig)), None)
            if kf is not None:
                used_known.add(kf['id'])
                continue
            n_viol += 1
            payload = {'level': ob.level, 'backend': ob.backend, 'verifier_output': ob.detail,
                       'witness': ob.witness, 'function': ob.function}
            path = write_replay(rep.pid, ob.name, payload)
            replayed = isinstance(ob.witness, dict) and ob.witness.get('replayed')
            tail = '' if replayed else ' no-failing-input-found'
            lines.append('VIOLATION property=%s replay=%s obligation=%s%s' % (rep.pid, path, ob.name, tail))
            code = EXIT_VIOLATION
    for f in known:
        # a known finding is printed on every run that still reproduces it
        if f['id'] in used_known:
            lines.append('KNOWN-FINDING: property=%s %s' % (rep.pid, f['what']))
    if code == EXIT_OK:
        if any(ob.status == 'fault' for ob in rep.obs): code = EXIT_FAULT
        elif any(ob.status == 'undecided' for ob in rep.obs): code = EXIT_UNDECIDED
    nP = [ob for ob in rep.obs if ob.level == 'P']
    nS = [ob for ob in rep.obs if ob.level == 'S']
    nB = [ob for ob in rep.obs if ob.level == 'B']
    if not rep.obs:
        code = EXIT_FAULT
        lines.append('FAULT: zero obligations generated')
    backends = {}
    for ob in rep.obs:
        if ob.level in ('P', 'S'):
            b = backends.setdefault(ob.backend or '?', {'obligations': 0, 'discharged': 0, 'secs': 0.0})
            b['obligations'] += 1; b['discharged'] += ob.status == 'ok'; b['secs'] = round(b['secs'] + ob.secs, 3)
    cov = {
        'explanation': explanation,
        # a proof-level record counts only the unbounded (P) obligations; bounded symbolic ones (S) and run-time
        # contract groups (B) are stand-ins, reported under their own keys below and never counted as proved
        'obligations': len(nP) if level_category == 'proof' else len(nP) + len(nS),
        'discharged': sum(ob.status == 'ok' for ob in (nP if level_category == 'proof' else nP + nS)),
        'proved_obligations_P': len(nP), 'proved_discharged_P': sum(ob.status == 'ok' for ob in nP),
        'symbolic_bounded_obligations_S': len(nS), 'symbolic_bounded_discharged_S': sum(ob.status == 'ok' for ob in nS),
        'bounded_contract_groups_B': len(nB), 'bounded_contract_groups_held_B': sum(ob.status == 'ok' for ob in nB),
        'checker_cmd': checker_cmd,
        'trusted_base': rep.trusted,
        'backends': backends,
        'solver_secs': round(sum(ob.secs for ob in nP + nS), 3),
        'functions_under_contract': {k: '%s:%d-%d' % v for k, v in sorted(rep.functions.items())},
        'evaluations': max(rep.b_evals, len(rep.obs)),
        'distinct_nontrivial': max(len(rep.b_cases), len({ob.name for ob in rep.obs})),
        'rule': rep.extra.pop('rule', 'P/S: one entry per named obligation generated from the current source; '
                                       'B: one evaluation per contract firing on a catalogue case, distinct by case signature'),
        'samples': rep.samples or [ob.asdict() for ob in rep.obs[:3]],
        'obligation_list': [ob.asdict() for ob in rep.obs if ob.level in ('P', 'S')][:400],
        'bounded_list': [dict(ob.asdict(), witness=None) for ob in nB][:200],
        'gaps': rep.gaps, 'notes': rep.notes,
        'known_findings_reproduced': sorted(used_known),
        'fixed_findings_watched': [f['id'] for f in fixed],
    }
    cov.update(rep.extra)
    # the evidence level is always the category claimed in MANIFEST.json (props/claims.py); what was NOT proved
    # is said in the counts (discharged < obligations => exit code != 0 or a known finding) and in the S/B keys
    if level_category == 'proof':
        cov['bounded_stand_ins_not_counted_as_proved'] = {
            'S': [ob.name for ob in nS], 'B': [ob.name for ob in nB]}
        if not nP and code == EXIT_OK:
            code = EXIT_FAULT
            lines.append('FAULT: proof-level check generated no unbounded (P) obligation')
    ev = {'property_id': rep.pid, 'tier': rep.tier, 'seed': SEED, 'level': level_category,
          'coverage': cov, 'assumptions': rep.assumptions, 'wall_s': round(time.time() - rep.t0, 2),
          'violations': n_viol, 'exit_code': code}
    schema = json.load(open('/root/.vp/EVIDENCE.schema.json')) if os.path.exists('/root/.vp/EVIDENCE.schema.json') \
        else json.load(open(os.path.join(VERIF, 'vf', 'EVIDENCE.schema.json')))
    try:
        jsonschema.validate(ev, schema)
    except jsonschema.ValidationError as e:
        print('FAULT: evidence does not validate: %s' % e.message)
        code = EXIT_FAULT if code == EXIT_OK else code
    # evidence/ only ever describes runs against /repo itself; runs against a scratch copy (VERIF_REPO) write to scratch/
    evdir = os.path.join(VERIF, 'evidence') if os.path.realpath(REPO) == '/repo' else os.path.join(VERIF, 'scratch', 'evidence-other-tree')
    os.makedirs(evdir, exist_ok=True)
    with open(os.path.join(evdir, rep.pid + '.json'), 'w') as f:
        json.dump(ev, f, indent=1, default=str)
    for ob in rep.obs:
        if ob.status in ('undecided', 'fault'):
            lines.append('%s: %s [%s] %s' % (ob.status.upper(), ob.name, ob.backend, (ob.detail or '')[:300]))
    for l in lines: print(l)
    print('%s %s tier=%s: P %d/%d  S %d/%d  B %d/%d groups (%d evaluations)  exit=%d  %.1fs' % (
        rep.pid, 'OK' if code == 0 else 'NOT-OK', rep.tier, cov['proved_discharged_P'], len(nP),
        cov['symbolic_bounded_discharged_S'], len(nS), cov['bounded_contract_groups_held_B'], len(nB),
        rep.b_evals, code, time.time() - rep.t0))
    return code
