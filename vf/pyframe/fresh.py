"""E2b -- ownership (freshness) typing over the AST of functions extracted from /repo on every run.

Every array-valued expression is FRESH (a new object nobody else holds: results of arithmetic, of numpy constructors and
operations, of `.copy()`, comprehensions) or an ALIAS (it may share storage with something that outlives the call: a field of
`self`, an entry of a cache dictionary, a parameter, a slice / view / element of an alias, the result of a callee whose contract
says so).  Scalars and non-array values are VALUE.  The sidecar contract declares, per function,
    params   : 'alias' (caller's arrays) or 'value'
    callees  : 'fresh' / 'alias' / 'value' for the results of the methods it calls (their own contracts)
    caches   : the dictionary fields of self that memoise results
and the checker walks the statements in order (flow-sensitive environment, branches merged conservatively: fresh only if fresh
on both sides) and emits obligations:
    * returns-fresh[k]            every array in the returned tuple is FRESH: no caller can reach state that outlives the call;
    * cache-store-not-returned    a value stored into a cache is FRESH, or is an alias that this function never hands out
                                  (it is returned only through `.copy()`, which returns-fresh establishes) and never mutates;
    * no-inplace-on-alias         no augmented assignment / subscript store / mutating method on an ALIAS (cached arrays, fields of
                                  self, parameters are never modified in place);
    * fields-rebound-not-mutated  (class level) the listed fields of a class are only ever re-bound, never stored into.
If all hold then, by induction over the call history, every cache entry still equals the value the miss path computed for its
key, and nothing a caller does to returned arrays reaches it.  Trusted: numpy operations listed in FRESH_CALLS return new
arrays; `.copy()` copies; the callee contracts."""
import ast
from ..common import Undecided

FRESH, ALIAS, VALUE = 'fresh', 'alias', 'value'

FRESH_CALLS = {'dot', 'tensordot', 'outer', 'zeros', 'zeros_like', 'ones', 'ones_like', 'eye', 'array', 'sqrt', 'exp', 'log', 'abs', 'diag', 'trace', 'sum',
               'inv', 'pinv', 'solve', 'eigh', 'copy', 'kron', 'einsum', 'hstack', 'vstack', 'concatenate', 'min', 'max', 'prod', 'round', 'real', 'imag',
               'any', 'all', 'allclose', 'isclose', 'linspace', 'arange', 'empty', 'identity', 'transpose_copy', 'multiply', 'negative', 'mean', 'cumsum', 'pad', 'det', 'floor', 'ceil', 'cross', 'norm'}
VIEW_CALLS = {'reshape', 'ravel', 'transpose', 'asarray', 'squeeze', 'swapaxes', 'diagonal', 'flat'}      # may return views
VALUE_CALLS = {'len', 'range', 'enumerate', 'zip', 'int', 'float', 'isinstance', 'next', 'iter', 'list', 'tuple', 'sorted', 'set', 'count', 'str', 'type', 'frozenset', 'abs', 'bool'}
MUTATORS = {'fill', 'sort', 'resize', 'put', 'itemset', 'partition', 'append', 'extend', 'pop', 'remove', 'clear', 'update', 'insert'}


def join(a, b):
    if ALIAS in (a, b): return ALIAS
    if a == b: return a
    if VALUE in (a, b): return FRESH if FRESH in (a, b) else VALUE
    return FRESH


class Tup:
    def __init__(self, items): self.items = list(items)


class Checker:
    def __init__(self, contract, extracted):
        self.c, self.fn = contract, extracted
        self.env = dict(contract.get('params', {}))
        self.obs = []          # (name, ok, detail, line)
        self.stored_alias = []  # (name expr text, line) aliases stored into caches
        self.returned_names = set()

    def ob(self, name, ok, detail, line):
        self.obs.append((name, bool(ok), detail if not ok else '', line))

    # ---- expressions
    def ev(self, e):
        if isinstance(e, ast.Constant): return VALUE
        if isinstance(e, ast.Name):
            if e.id in self.env: return self.env[e.id]
            if e.id in ('True', 'False', 'None', '__debug__', 'NotImplemented') or (e.id.endswith(('Error', 'Warning')) and e.id[0].isupper()): return VALUE
            if e.id in self.c.get('globals', ()) or e.id in ('np', 'numpy', 'copy', 'itertools') or hasattr(__import__('builtins'), e.id): return VALUE
            raise Undecided('ownership typing: name %r not bound (line %d)' % (e.id, e.lineno))
        if isinstance(e, ast.Attribute):
            text = ast.unparse(e)
            if text in self.env: return self.env[text]          # field of an object built here, as last stored
            if text in self.c.get('owned_fields', ()): return FRESH      # state of the receiver this method is entitled to modify
            if text.startswith('self.'): return ALIAS if text not in self.c.get('value_fields', ()) else VALUE
            if e.attr == 'T': return self.ev(e.value) if self.ev(e.value) != FRESH else FRESH      # transpose of a fresh array is still private
            base = self.ev(e.value)
            return base if base != FRESH else FRESH
        if isinstance(e, (ast.BinOp,)):
            a, b = self.ev(e.left), self.ev(e.right)
            return VALUE if (a == VALUE and b == VALUE) else FRESH
        if isinstance(e, ast.UnaryOp):
            a = self.ev(e.operand); return VALUE if a == VALUE else FRESH
        if isinstance(e, (ast.Compare, ast.BoolOp)):
            for ch in ast.iter_child_nodes(e):
                if isinstance(ch, ast.expr): self.ev(ch)
            return VALUE
        if isinstance(e, ast.IfExp):
            self.ev(e.test); return join(self.ev(e.body), self.ev(e.orelse))
        if isinstance(e, ast.Tuple): return Tup([self.ev(x) for x in e.elts])
        if isinstance(e, (ast.List,)):
            vals = [self.ev(x) for x in e.elts]
            return FRESH if all(not isinstance(v, Tup) and v != ALIAS for v in vals) else ALIAS
        if isinstance(e, (ast.ListComp, ast.GeneratorExp, ast.SetComp, ast.DictComp)):
            saved = dict(self.env)
            for g in e.generators:
                it = self.ev(g.iter); self.bind(g.target, it if not isinstance(it, Tup) else ALIAS if any(x == ALIAS for x in it.items) else VALUE)
                for c in g.ifs: self.ev(c)
            elt = self.ev(e.value if isinstance(e, ast.DictComp) else e.elt)
            self.env = saved
            return ALIAS if elt == ALIAS else FRESH          # a new container; holding aliases makes it an alias carrier
        if isinstance(e, ast.Dict):
            vals = [self.ev(v) for v in e.values]
            return ALIAS if ALIAS in vals else FRESH
        if isinstance(e, ast.Subscript):
            base = self.ev(e.value)
            for ch in ast.walk(e.slice):
                if isinstance(ch, ast.Name) and ch.id in self.env: pass
            if isinstance(base, Tup):
                if isinstance(e.slice, ast.Constant) and isinstance(e.slice.value, int): return base.items[e.slice.value]
                return ALIAS if any(x == ALIAS for x in base.items) else FRESH
            if base == VALUE: return VALUE
            # an element / slice of an array is a view of it (of a private array: still private)
            return base
        if isinstance(e, ast.Call): return self.call(e)
        if isinstance(e, ast.Starred):
            v = self.ev(e.value); return ALIAS if (v == ALIAS or (isinstance(v, Tup) and ALIAS in v.items)) else (FRESH if v != VALUE else VALUE)
        if isinstance(e, ast.Lambda): return VALUE
        if isinstance(e, ast.JoinedStr): return VALUE
        raise Undecided('ownership typing: expression %s (line %d)' % (type(e).__name__, e.lineno))

    def call(self, e):
        f = e.func
        text = ast.unparse(f)
        args = [self.ev(a) for a in e.args] + [self.ev(k.value) for k in e.keywords]
        flat = [x for a in args for x in (a.items if isinstance(a, Tup) else [a])]
        cal = self.c.get('callees', {})
        if text in cal:
            r = cal[text]
            return Tup(list(r)) if isinstance(r, (list, tuple)) else r
        if text in ('copy.deepcopy', 'copy.copy', 'deepcopy'): return FRESH if flat and flat[0] != VALUE else VALUE
        if text == 'self.__class__': return FRESH
        if isinstance(f, ast.Attribute) and isinstance(f.value, ast.Name) and f.value.id == 'self' and text not in cal:
            r = self.inline_method(f.attr, e, args)
            if r is not None: return r[0]
        if isinstance(f, ast.Attribute):
            if text.startswith(('np.', 'numpy.', 'scipy.', 'LA.')) or (isinstance(f.value, ast.Attribute) and ast.unparse(f.value) in ('np.linalg',)):
                if f.attr in FRESH_CALLS: return FRESH if f.attr not in ('eigh',) else Tup([FRESH, FRESH])
                if f.attr in VIEW_CALLS: return join(FRESH, flat[0]) if flat else FRESH
                raise Undecided('ownership typing: numpy entry point %s (line %d) has no rule' % (text, e.lineno))
            base = self.ev(f.value)
            if f.attr == 'copy': return FRESH if base != VALUE else VALUE
            if f.attr in ('get', 'values', 'items', 'keys', 'pop'):
                return ALIAS if base == ALIAS else base
            if f.attr in VIEW_CALLS or f.attr == 'T': return base
            if f.attr in MUTATORS:
                self.ob('no-inplace-on-alias@L%d' % e.lineno, base != ALIAS, '`%s` mutates a value that may be shared (a field of self, a cache entry, a parameter)' % ast.unparse(e)[:80], e.lineno)
                return VALUE
            if f.attr in ('dot', 'sum', 'trace', 'max', 'min', 'conj', 'astype', 'tolist', 'real'): return FRESH if base != VALUE else VALUE
            if base == VALUE or f.attr in self.c.get('value_methods', ()): return VALUE
            raise Undecided('ownership typing: method %s (line %d) has no contract' % (text, e.lineno))
        if isinstance(f, ast.Name):
            if f.id.endswith(('Error', 'Warning')) and f.id[0].isupper(): return VALUE
            if f.id in VALUE_CALLS: return VALUE if ALIAS not in flat else ALIAS
            if f.id in ('min', 'max', 'sum', 'abs'): return VALUE
            if f.id in FRESH_CALLS: return FRESH
            raise Undecided('ownership typing: call to %s (line %d) has no contract' % (f.id, e.lineno))
        raise Undecided('ownership typing: call form (line %d)' % e.lineno)

    def inline_method(self, mname, e, args):
        """a private helper of the same class without an ownership contract: its body is walked in place with the kinds of the actual
        arguments; its obligations become ours; -> (kind of the result,) or None when there is no such method"""
        from .. import extract
        qn = self.c.get('qualname', '')
        if '.' not in qn or getattr(self, 'depth', 0) >= 3: return None
        try:
            fn2 = extract.get(self.c['relpath'], qn.split('.')[0] + '.' + mname)
        except KeyError:
            return None
        a = fn2.node.args
        if a.vararg or a.kwarg or a.kwonlyargs or a.posonlyargs or e.keywords: raise Undecided('ownership typing: signature / keywords of helper %s (line %d)' % (mname, e.lineno))
        names = [x.arg for x in a.args]
        if names and names[0] in ('self', 'cls'): names = names[1:]
        if len(args) + len(a.defaults) < len(names) or len(args) > len(names): raise Undecided('ownership typing: arguments of helper %s (line %d)' % (mname, e.lineno))
        sub = Checker(dict(self.c, qualname=qn.split('.')[0] + '.' + mname, params={}), fn2)
        sub.depth = getattr(self, 'depth', 0) + 1
        sub.env = {'self': self.env.get('self', VALUE)}
        for n_, k_ in zip(names, args): sub.env[n_] = k_
        for n_, dflt in zip(names[len(names) - len(a.defaults):], a.defaults):
            if n_ not in sub.env: sub.env[n_] = VALUE if isinstance(dflt, ast.Constant) else ALIAS
        sub.returns = []
        body = fn2.body
        sub.run_block(body)
        for (nm, ok, det, line) in sub.obs:
            if nm.startswith('returns-fresh'): continue          # what the helper returns is judged where OUR function returns / stores it
            self.obs.append(('inlined %s:%s' % (mname, nm), ok, det, line))
        self.stored_alias += sub.stored_alias
        if not sub.returns: return (VALUE,)
        out = sub.returns[0]
        for r in sub.returns[1:]:
            if isinstance(out, Tup) or isinstance(r, Tup):
                if not (isinstance(out, Tup) and isinstance(r, Tup) and len(out.items) == len(r.items)): raise Undecided('ownership typing: helper %s returns values of different shapes (line %d)' % (mname, e.lineno))
                out = Tup([x if isinstance(x, Tup) or isinstance(y, Tup) else join(x, y) for x, y in zip(out.items, r.items)])
            else: out = join(out, r)
        return (out,)

    # ---- statements
    def bind(self, target, st):
        if isinstance(target, ast.Name):
            self.env[target.id] = st if not isinstance(st, Tup) else (ALIAS if any(x == ALIAS for x in st.items) else FRESH)
            if isinstance(st, Tup): self.env[target.id] = st
        elif isinstance(target, (ast.Tuple, ast.List)):
            if isinstance(st, Tup) and len(st.items) == len(target.elts):
                for t, x in zip(target.elts, st.items): self.bind(t, x)
            else:
                for t in target.elts: self.bind(t, st if not isinstance(st, Tup) else ALIAS)

    def store(self, target, st, node):
        """assignment to a subscript / attribute"""
        if isinstance(target, ast.Subscript):
            base_text = ast.unparse(target.value)
            base = self.ev(target.value)
            kind0 = st if not isinstance(st, Tup) else (ALIAS if any(x == ALIAS for x in st.items) else FRESH)
            # an object stored under a key of a container field of self that the contract does not declare an array is memoisation too
            auto = base_text.startswith('self.') and '[' not in base_text and kind0 != VALUE and base_text not in self.c.get('array_fields', ()) and base_text not in self.c.get('owned_fields', ())
            if base_text in self.c.get('caches', ()) or auto:
                # memoisation: what goes in must be private, or an alias that is never handed out nor modified
                kind = st if not isinstance(st, Tup) else (ALIAS if any(x == ALIAS for x in st.items) else FRESH)
                if kind == ALIAS and isinstance(node.value, ast.Name):
                    self.stored_alias.append((node.value.id, node.lineno))
                    self.ob('cache-store@L%d' % node.lineno, True, '', node.lineno)
                else:
                    self.ob('cache-store@L%d' % node.lineno, kind != ALIAS, 'an expression that may share storage with longer-lived state is stored in %s' % base_text, node.lineno)
                return
            self.ob('no-inplace-on-alias@L%d' % node.lineno, base != ALIAS, 'store into `%s`, which may be shared (a field of self, a cache entry, a parameter)' % ast.unparse(target)[:80], node.lineno)
            return
        if isinstance(target, ast.Attribute):
            owner = ast.unparse(target.value)
            fields = self.c.get('new_objects', {}).get(owner)
            if fields is not None:
                kind = st if not isinstance(st, Tup) else (ALIAS if any(x == ALIAS for x in st.items) else FRESH)
                if target.attr in self.c.get('deep_fields', ()) and kind != ALIAS:
                    v = node.value
                    shallow = (isinstance(v, ast.Call) and isinstance(v.func, ast.Attribute) and v.func.attr == 'copy' and ast.unparse(v.func) != 'copy.copy' and self.ev(v.func.value) == ALIAS) \
                        or (isinstance(v, ast.Call) and ast.unparse(v.func) in ('copy.copy', 'list', 'tuple') and any(self.ev(a) == ALIAS for a in v.args)) \
                        or (isinstance(v, ast.Subscript) and self.ev(v.value) == ALIAS)
                    self.ob('new-object-field-deep:%s.%s@L%d' % (owner, target.attr, node.lineno), not shallow,
                            '`%s` copies only the outer container of a nested field: the inner lists stay shared' % ast.unparse(node)[:80], node.lineno)
                if target.attr in fields:
                    self.ob('new-object-field-private:%s.%s@L%d' % (owner, target.attr, node.lineno), kind != ALIAS,
                            '`%s` makes a mutable field of the new object share storage with the object it was built from' % ast.unparse(node)[:80], node.lineno)
                self.env[ast.unparse(target)] = kind
            return          # re-binding a field: not a mutation of the old value
        raise Undecided('ownership typing: store target (line %d)' % node.lineno)

    def run_block(self, stmts):
        for st in stmts: self.run_stmt(st)

    def run_stmt(self, st):
        if isinstance(st, ast.Expr):
            if not isinstance(st.value, ast.Constant): self.ev(st.value)
            return
        if isinstance(st, ast.Assign):
            v = self.ev(st.value)
            for t in st.targets:
                if isinstance(t, (ast.Name, ast.Tuple, ast.List)): self.bind(t, v)
                else: self.store(t, v, st)
            return
        if isinstance(st, ast.AugAssign):
            v = self.ev(st.value)
            if isinstance(st.target, ast.Name):
                cur = self.env.get(st.target.id, VALUE)
                if cur == VALUE: return           # scalar arithmetic re-binds
                self.ob('no-inplace-on-alias@L%d' % st.lineno, cur != ALIAS, '`%s` modifies in place an array that may be shared' % ast.unparse(st)[:80], st.lineno)
                return
            base = self.ev(st.target.value) if isinstance(st.target, (ast.Subscript, ast.Attribute)) else VALUE
            if isinstance(st.target, ast.Attribute):
                text = ast.unparse(st.target)
                if text in self.c.get('value_fields', ()): return          # scalar field: arithmetic re-binds
                if text in self.c.get('owned_fields', ()) or text in self.env:
                    cur = self.env.get(text, FRESH)
                    self.ob('no-inplace-on-alias@L%d' % st.lineno, cur != ALIAS, '`%s` modifies in place a field that may share storage with another object' % ast.unparse(st)[:80], st.lineno)
                    return
                self.ob('no-inplace-on-alias@L%d' % st.lineno, False, '`%s` modifies a field of self in place' % ast.unparse(st)[:80], st.lineno); return
            self.ob('no-inplace-on-alias@L%d' % st.lineno, base != ALIAS, '`%s` modifies in place an array that may be shared' % ast.unparse(st)[:80], st.lineno)
            return
        if isinstance(st, ast.Return):
            v = self.ev(st.value) if st.value is not None else VALUE
            if hasattr(self, 'returns'): self.returns.append(v)
            items = v.items if isinstance(v, Tup) else [v]
            exprs = st.value.elts if isinstance(st.value, ast.Tuple) else [st.value]
            for k, (x, ex) in enumerate(zip(items, exprs)):
                kind = x if not isinstance(x, Tup) else (ALIAS if any(y == ALIAS for y in x.items) else FRESH)
                self.ob('returns-fresh[%d]@L%d' % (k, st.lineno), kind != ALIAS, 'returned value %d (`%s`) may share storage with state that outlives the call' % (k, ast.unparse(ex)[:60]), st.lineno)
                for n in ast.walk(ex):
                    if isinstance(n, ast.Name) and isinstance(ex, ast.Name): self.returned_names.add(n.id)
            return
        if isinstance(st, ast.If):
            self.ev(st.test)
            e0 = dict(self.env)
            self.run_block(st.body); e1 = self.env
            self.env = dict(e0); self.run_block(st.orelse); e2 = self.env
            self.env = {k: (e1[k] if isinstance(e1[k], Tup) or isinstance(e2.get(k), Tup) else join(e1[k], e2[k])) if k in e2 else e1[k] for k in e1}
            for k in e2:
                if k not in self.env: self.env[k] = e2[k]
            return
        if isinstance(st, (ast.For, ast.While)):
            if isinstance(st, ast.For):
                it = self.ev(st.iter); self.bind(st.target, ALIAS if (it == ALIAS or (isinstance(it, Tup) and any(x == ALIAS for x in it.items))) else VALUE if it == VALUE else FRESH)
            else:
                self.ev(st.test)
            n0 = len(self.obs); self.run_block(st.body); del self.obs[n0:]; self.run_block(st.body)
            return
        if isinstance(st, (ast.Pass, ast.Continue, ast.Break, ast.Raise, ast.Import, ast.ImportFrom, ast.Assert)): return      # an assertion reads, it does not store
        if isinstance(st, ast.Try):
            self.run_block(st.body)
            for h in st.handlers: self.run_block(h.body)
            return
        raise Undecided('ownership typing: statement %s (line %d)' % (type(st).__name__, st.lineno))

    def run(self):
        self.run_block(self.fn.body)
        # aliases stored in caches: never returned bare (a `.copy()` of them is FRESH and fine)
        for name, line in self.stored_alias:
            self.ob('cached-alias-not-returned:%s@L%d' % (name, line), name not in self.returned_names, 'the array stored in the cache under the name %s is also returned as it is' % name, line)
        return self.obs


def fields_only_rebound(module_ast, classname, fields):
    """class-level obligation: no subscript store / augmented assignment / mutating call on self.<field> anywhere in the class"""
    out = []
    for cls in ast.walk(module_ast):
        if isinstance(cls, ast.ClassDef) and cls.name == classname:
            for n in ast.walk(cls):
                tgt = None
                if isinstance(n, ast.AugAssign): tgt = n.target
                elif isinstance(n, ast.Assign):
                    for t in n.targets:
                        if isinstance(t, ast.Subscript): tgt = t
                elif isinstance(n, ast.Call) and isinstance(n.func, ast.Attribute) and n.func.attr in MUTATORS: tgt = n.func.value
                if tgt is None: continue
                base = tgt
                while isinstance(base, ast.Subscript): base = base.value
                text = ast.unparse(base)
                for f in fields:
                    if text == 'self.' + f: out.append((f, n.lineno, ast.unparse(n)[:80]))
    return out
