"""E2 -- degree typing: a modular abstract verifier over the AST of functions extracted from /repo on every run.

Contract language.  For one declared one-parameter family of input transformations -- "every jump rate is multiplied by
lambda > 0" -- every numeric value v of the function has a *rate degree* m (a rational): under the transformation v becomes
lambda^m v.  The sidecar contract of a function declares
    params   : degree of each parameter
    fields   : degree of the self.<field> it reads (everything not listed is a structure constant, degree 0, or non-numeric)
    callees  : degrees of the results of the methods / external callables it calls (their own contracts)
    returns  : the degrees the returned values must have
and the checker walks every statement once and emits one obligation per statement:
    * x + y, x - y, comparisons x < y, np.allclose(x, y), max/min over several values: equal degrees
      (0 / np.zeros / an empty accumulator are degree-polymorphic);
    * a name keeps one degree for the whole function (re-assignment with another degree fails);
    * an `if` / comprehension filter / `next(...)` condition compares equal degrees or compares with the literal 0
      (a sign test is invariant under lambda > 0): so every branch decision is invariant under the transformation;
    * the argument of exp / log is dimensionless (degree 0);
    * absolute tolerances handed to library calls (atol=) have the degree of the quantity they are compared with;
    * the returned expression has the declared degree.
If every obligation holds, then by induction over the statements every value transforms as declared for ALL inputs, crystals
and networks, and the two runs (original and scaled inputs) take the same branches: the result is covariant exactly, as a
formula over the reals.  Trusted: the degree rules of the numpy / scipy entry points listed in RULES (true of the mathematical
operations: dot/tensordot add, inv/pinv negate, sqrt halves, eigh gives eigenvalues of the matrix's degree and dimensionless
vectors), floats as reals.  A construct outside the supported subset makes the function undecided, never passed."""
import ast
from fractions import Fraction
from ..common import Undecided

ZERO = 'zero'      # degree-polymorphic (literal 0, np.zeros, empty containers)
NA = 'na'          # not a physical number: indices, counts, strings, group operations, booleans


class Tup:
    def __init__(self, items): self.items = list(items)


def F(x): return Fraction(x).limit_denominator(64)


def LOG(l): return ('log', Fraction(l)) if Fraction(l) != 0 else Fraction(0)        # a value that SHIFTS by l * ln(lambda) (free energies / lambda: exp of it has degree l)


def is_log(d): return isinstance(d, tuple) and len(d) == 2 and d[0] == 'log'


def join(a, b):
    """degree of a value that may be either a or b (same name, accumulator): None if incompatible"""
    if a == ZERO: return b
    if b == ZERO: return a
    if a == b: return a
    return None


def show(d):
    if isinstance(d, Tup): return '(' + ', '.join(show(x) for x in d.items) + ')'
    if is_log(d): return 'additive %s ln(lambda)' % d[1]
    return str(d)


# numpy / scipy / builtin entry points: name -> rule(args degrees, keyword degrees, checker, node) -> degree
def _same_all(ds, ck, node, what):
    out = ZERO
    for d in ds:
        if d == NA: continue
        j = join(out, d)
        if j is None:
            ck.fail(node, '%s mixes rate degrees %s and %s' % (what, show(out), show(d))); return out
        out = j
    return out


def _add(ds):
    tot = Fraction(0)
    for d in ds:
        if d == ZERO: return ZERO
        if d == NA: continue
        tot += d
    return tot


PASS1 = {'array', 'abs', 'copy', 'diag', 'trace', 'sum', 'transpose', 'real', 'imag', 'conj', 'asarray', 'ravel', 'reshape', 'cumsum', 'mean',
         'triu', 'tril', 'squeeze', 'negative', 'flatten', 'max', 'min', 'amax', 'amin', 'sort', 'hstack', 'vstack', 'stack', 'concatenate', 'float', 'complex'}
PRODUCT = {'dot', 'tensordot', 'outer', 'kron', 'multiply', 'einsum', 'inner', 'matmul', 'cross'}
POLY = {'zeros', 'zeros_like', 'empty', 'empty_like'}
DIMLESS = {'eye', 'ones', 'ones_like', 'identity', 'arange', 'linspace'}
INDEXY = {'len', 'range', 'int', 'round', 'argsort', 'argmax', 'argmin', 'where', 'nonzero', 'shape', 'ndim', 'isinstance', 'type', 'str', 'repr', 'id'}


class Checker:
    def __init__(self, contract, extracted):
        self.c, self.fn = contract, extracted
        self.env = {}
        self.obligations = []       # (name, ok, detail, line)
        self._stmt = None
        for p, d in contract.get('params', {}).items(): self.env[p] = d
        self.nret = 0
        self.attr_now = {}          # self.<field> assigned in this function -> current degree (fields may be re-used, e.g. normalised in place)

    # ---- obligations
    def fail(self, node, msg):
        self._failed.append('line %d: %s' % (getattr(node, 'lineno', 0), msg))

    def stmt_obligation(self, st, kind):
        name = '%s@L%d' % (kind, st.lineno)
        ok = not self._failed
        self.obligations.append((name, ok, '; '.join(self._failed), st.lineno))

    # ---- expressions
    def ev(self, e):
        m = getattr(self, 'e_' + type(e).__name__, None)
        if m is None: raise Undecided('degree typing: unsupported expression %s at line %d' % (type(e).__name__, e.lineno))
        return m(e)

    def e_Constant(self, e):
        v = e.value
        if isinstance(v, bool) or v is None or isinstance(v, str): return NA
        if v == 0: return ZERO
        return Fraction(0)

    def e_Name(self, e):
        if e.id in self.env: return self.env[e.id]
        if e.id in ('True', 'False', 'None', '__debug__', 'complex', 'float', 'int', 'bool', 'object'): return NA
        if e.id in self.c.get('globals', {}): return self.c['globals'][e.id]
        raise Undecided('degree typing: name %r used before assignment / not declared (line %d)' % (e.id, e.lineno))

    def e_Attribute(self, e):
        text = ast.unparse(e)
        if text in self.attr_now: return self.attr_now[text]          # assigned earlier in this function: its current degree
        if text in self.c.get('fields', {}): return self.c['fields'][text]
        if text.startswith('self.'):
            return self.c.get('default_field', Fraction(0)) if text.split('.')[1] not in self.c.get('na_fields', ()) else NA
        if text.startswith('np.'): return Fraction(0)            # np.pi, np.inf ...
        base = self.ev(e.value)
        if e.attr in ('T', 'real', 'imag', 'flat'): return base
        if e.attr in ('shape', 'size', 'ndim', 'dtype'): return NA
        if base == NA or base == Fraction(0): return base         # attributes of structure constants (states, sites, operations)
        raise Undecided('degree typing: attribute %s (line %d)' % (text, e.lineno))

    def e_Tuple(self, e): return Tup([self.ev(x) for x in e.elts])

    def e_List(self, e):
        if not e.elts: return ZERO
        return _same_all([self.ev(x) for x in e.elts], self, e, 'list display')

    def e_UnaryOp(self, e):
        d = self.ev(e.operand)
        if is_log(d) and isinstance(e.op, ast.USub): return LOG(-d[1])
        return NA if isinstance(e.op, ast.Not) else d

    def e_BinOp(self, e):
        a, b = self.ev(e.left), self.ev(e.right)
        if isinstance(a, Tup) or isinstance(b, Tup):
            flat = [x for t in (a, b) for x in (t.items if isinstance(t, Tup) else [t])]
            if all(x in (NA, ZERO, Fraction(0)) for x in flat): return NA        # index tuples built by concatenation / repetition
            raise Undecided('degree typing: tuple arithmetic (line %d)' % e.lineno)
        if a == NA and b == NA: return NA
        op = e.op
        if is_log(a) or is_log(b):
            la = a[1] if is_log(a) else (Fraction(0) if a in (Fraction(0), ZERO) else None)
            lb = b[1] if is_log(b) else (Fraction(0) if b in (Fraction(0), ZERO) else None)
            if isinstance(op, (ast.Add, ast.Sub)):
                if la is None or lb is None:
                    self.fail(e, 'sum of a free-energy-like value (shifts with ln lambda) and a value of rate degree %s' % show(b if la is not None else a)); return a if is_log(a) else b
                return LOG(la + lb if isinstance(op, ast.Add) else la - lb)
            if isinstance(op, (ast.Mult, ast.Div)) and ((la == 0 or lb == 0) and None not in (la, lb)):
                # (dimensionless) x (value with zero shift): still no shift
                return Fraction(0)
            self.fail(e, 'product / quotient involving a value that shifts with ln(lambda): `%s`' % ast.unparse(e)[:80]); return Fraction(0)
        if isinstance(op, (ast.Add, ast.Sub)):
            if a == NA or b == NA:
                other = b if a == NA else a
                if other in (Fraction(0), ZERO): return NA          # index / count arithmetic with dimensionless integers
                self.fail(e, 'sum of a value of rate degree %s and a non-numeric one' % show(other)); return other
            j = join(a, b)
            if j is None:
                self.fail(e, 'sum / difference of rate degrees %s and %s in `%s`' % (show(a), show(b), ast.unparse(e)[:80])); return a
            return j
        if isinstance(op, (ast.Mult, ast.MatMult)): return _add([a, b])
        if isinstance(op, (ast.Div, ast.FloorDiv)):
            if a == ZERO: return ZERO
            if b == ZERO: self.fail(e, 'division by a literal zero'); return a
            return (Fraction(0) if a == NA else a) - (Fraction(0) if b == NA else b)
        if isinstance(op, ast.Pow):
            if b == ZERO: return Fraction(0)
            if isinstance(e.right, ast.Constant) and isinstance(e.right.value, (int, float)): return ZERO if a == ZERO else (a if a == NA else a * F(e.right.value))
            if isinstance(e.right, ast.UnaryOp) and isinstance(e.right.operand, ast.Constant): return ZERO if a == ZERO else a * F(-e.right.operand.value)
            if a == Fraction(0) or a == NA: return a
            raise Undecided('degree typing: power with a non-literal exponent (line %d)' % e.lineno)
        if isinstance(op, ast.Mod): return a
        raise Undecided('degree typing: operator %s (line %d)' % (type(op).__name__, e.lineno))

    def cond(self, e):
        """a branch condition: comparisons must be between equal degrees (or with 0)"""
        if isinstance(e, ast.BoolOp):
            for v in e.values: self.cond(v)
            return
        if isinstance(e, ast.UnaryOp) and isinstance(e.op, ast.Not): return self.cond(e.operand)
        self.ev(e)

    def e_BoolOp(self, e):
        for v in e.values: self.ev(v)
        return NA

    def e_Compare(self, e):
        left = self.ev(e.left)
        for op, r in zip(e.ops, e.comparators):
            right = self.ev(r)
            if isinstance(op, (ast.In, ast.NotIn, ast.Is, ast.IsNot)): left = right; continue
            if isinstance(left, Tup) or isinstance(right, Tup): left = right; continue
            if left != NA and right != NA and join(left, right) is None:
                self.fail(e, 'comparison `%s` relates rate degree %s to rate degree %s: the decision changes when every rate is scaled' % (ast.unparse(e)[:90], show(left), show(right)))
            left = right
        return NA

    def e_IfExp(self, e):
        self.cond(e.test)
        a, b = self.ev(e.body), self.ev(e.orelse)
        j = join(a, b) if NA not in (a, b) else (a if b == NA else b)
        if j is None: self.fail(e, 'conditional expression with degrees %s / %s' % (show(a), show(b))); return a
        return j

    def e_Subscript(self, e):
        d = self.ev(e.value)
        self._index(e.slice)
        if isinstance(d, Tup):
            if isinstance(e.slice, ast.Constant) and isinstance(e.slice.value, int): return d.items[e.slice.value]
            return _same_all(d.items, self, e, 'tuple element')
        return d

    def _index(self, s):
        # index expressions are evaluated for their own obligations; their value must not carry a rate degree
        if isinstance(s, ast.Slice):
            for p in (s.lower, s.upper, s.step):
                if p is not None: self.ev(p)
            return
        if isinstance(s, ast.Tuple):
            for x in s.elts: self._index(x)
            return
        self.ev(s)

    def _comp(self, e, elt):
        saved = dict(self.env)
        try:
            for g in e.generators:
                it = self.ev(g.iter)
                self.bind(g.target, self.element_of(it, g.iter), g.target)
                for c in g.ifs: self.cond(c)
            return self.ev(elt)
        finally:
            # comprehension variables are local to it
            for k in list(self.env):
                if k not in saved: del self.env[k]
            self.env.update(saved)

    def e_ListComp(self, e): return self._comp(e, e.elt)
    e_GeneratorExp = e_ListComp
    e_SetComp = e_ListComp

    def e_DictComp(self, e):
        return self._comp(e, e.value)

    def inline_method(self, mname, args, kw, e):
        from .. import extract
        qn = self.c.get('qualname', '')
        if '.' not in qn: raise Undecided('degree typing: call of self.%s (line %d) has no degree contract' % (mname, e.lineno))
        depth = getattr(self, 'depth', 0)
        if depth >= 3: raise Undecided('degree typing: helper calls nested deeper than 3 at self.%s (line %d)' % (mname, e.lineno))
        try:
            fn2 = extract.get(self.c['relpath'], qn.split('.')[0] + '.' + mname)
        except KeyError:
            raise Undecided('degree typing: call of self.%s (line %d): no such method in the class and no degree contract' % (mname, e.lineno))
        a = fn2.node.args
        if a.vararg or a.kwarg or a.kwonlyargs or a.posonlyargs: raise Undecided('degree typing: signature of helper %s (line %d)' % (mname, e.lineno))
        names = [x.arg for x in a.args]
        if any(d in ('staticmethod',) for d in fn2.decorators): pass
        elif names and names[0] in ('self', 'cls'): names = names[1:]
        if len(args) > len(names): raise Undecided('degree typing: too many arguments for helper %s (line %d)' % (mname, e.lineno))
        sub = Checker(dict(self.c, qualname=qn.split('.')[0] + '.' + mname, returns=None, fields_after={}, start_after_line=None, params={}), fn2)
        sub.depth = depth + 1
        sub.attr_now = dict(self.attr_now)
        sub.collect = []
        given = {}
        for n_, x in zip(names, args): given[n_] = self.ev(x)
        for k_, v_ in kw.items():
            if k_ not in names: raise Undecided('degree typing: keyword %s of helper %s (line %d)' % (k_, mname, e.lineno))
            given[k_] = self.ev(v_)
        defaults = dict(zip(names[len(names) - len(a.defaults):], a.defaults))
        for n_ in names:
            if n_ in given: sub.env[n_] = given[n_]
            elif n_ in defaults: sub.env[n_] = sub.ev(defaults[n_])
            else: raise Undecided('degree typing: argument %s of helper %s not given (line %d)' % (n_, mname, e.lineno))
        sub.run_block(fn2.body)
        for (nm, ok, det, line) in sub.obligations:
            self.obligations.append(('inlined %s:%s' % (mname, nm), ok, det, line))
        if any(k_.startswith('self.') and sub.attr_now[k_] != self.attr_now.get(k_) for k_ in sub.attr_now):
            raise Undecided('degree typing: helper %s assigns fields of self (line %d)' % (mname, e.lineno))
        if not sub.collect: return NA
        out = sub.collect[0]
        for d in sub.collect[1:]:
            if isinstance(out, Tup) or isinstance(d, Tup):
                if not (isinstance(out, Tup) and isinstance(d, Tup) and len(out.items) == len(d.items)): raise Undecided('degree typing: helper %s returns values of different shapes (line %d)' % (mname, e.lineno))
                items = []
                for x, y in zip(out.items, d.items):
                    j = y if x in (ZERO,) else x if y in (ZERO,) else (x if x == y else join(x, y))
                    if j is None: raise Undecided('degree typing: helper %s returns values of different degrees on different paths (line %d)' % (mname, e.lineno))
                    items.append(j)
                out = Tup(items)
            else:
                j = d if out == ZERO else out if d == ZERO else (out if out == d else join(out, d))
                if j is None: raise Undecided('degree typing: helper %s returns values of different degrees on different paths (line %d)' % (mname, e.lineno))
                out = j
        return out

    def element_of(self, d, node):
        """degree of the items produced by iterating a value"""
        if isinstance(d, Tup): return d          # zip(...) / enumerate(...) results are modelled as tuples of element degrees
        return d

    def e_Call(self, e):
        f = e.func
        args = e.args
        kw = {k.arg: k.value for k in e.keywords if k.arg}
        name = None
        if not isinstance(f, (ast.Name, ast.Attribute)):
            text = ast.unparse(f)
            if text in self.c.get('callees', {}):
                for a in args: self.ev(a)
                return self.c['callees'][text]
            raise Undecided('degree typing: call of %s (line %d) has no contract' % (text[:40], e.lineno))
        if isinstance(f, ast.Name): name = f.id
        elif isinstance(f, ast.Attribute):
            text = ast.unparse(f)
            if text in self.c.get('callees', {}):
                for a in args: self.ev(a)
                for v in kw.values(): self.ev(v)
                return self.c['callees'][text]
            if text.startswith(('np.', 'numpy.', 'scipy.', 'itertools.')):
                name = f.attr
            else:
                if isinstance(f.value, ast.Name) and f.value.id in ('self', 'cls'):
                    # a method of the object itself without a degree contract (a private helper split off by a refactoring, say): its body
                    # is typed in place with the degrees of the actual arguments -- every statement of it becomes an obligation of ours
                    return self.inline_method(f.attr, args, kw, e)
                base = self.ev(f.value)
                if f.attr in ('copy', 'conj', 'real', 'flatten', 'ravel', 'reshape', 'transpose', 'sum', 'max', 'min', 'trace', 'astype', 'tolist', 'dot', 'get', 'values', 'items', 'keys',
                              'ldot', 'rdot', 'irotate', 'rotate', 'reduce', 'separate', 'truncate', 'nl', 'inv'):
                    ds = [self.ev(a) for a in args]
                    if f.attr in ('dot', 'ldot', 'rdot'): return _add([base] + ds)
                    if f.attr == 'inv': return ZERO if base == ZERO else (-base if isinstance(base, Fraction) else base)
                    if f.attr == 'nl': return NA
                    if f.attr == 'items': return Tup([NA, base])
                    return base
                if f.attr in ('append', 'extend', 'add', 'update', 'pop', 'remove', 'fill', 'sort', 'index', 'count', 'iszero', 'format', 'join', 'startswith'):
                    for a in args: self.ev(a)
                    return NA if f.attr != 'pop' else base
                if base == NA:
                    for a in args: self.ev(a)
                    return NA
                raise Undecided('degree typing: method %s (line %d)' % (text, e.lineno))
        if name is None: raise Undecided('degree typing: call form at line %d' % e.lineno)
        if name in self.c.get('callees', {}):
            ds_ = [self.ev(a) for a in args]
            r = self.c['callees'][name]
            return r(ds_) if callable(r) else r
        ds = [self.ev(a) for a in args]
        kd = {k: self.ev(v) for k, v in kw.items()}
        if name in PASS1:
            if name in ('max', 'min', 'hstack', 'vstack', 'stack', 'concatenate') and len(ds) > 1: return _same_all(ds, self, e, name)
            return ds[0] if ds else NA
        if name in PRODUCT:
            if name == 'einsum': ds = ds[1:]
            return _add(ds)
        if name in POLY: return ZERO
        if name in DIMLESS: return Fraction(0)
        if name in INDEXY: return NA
        if name == 'prod':
            if ds[0] in (Fraction(0), ZERO, NA): return ds[0]
            raise Undecided('degree typing: np.prod of values of rate degree %s (the number of factors decides the degree) at line %d' % (show(ds[0]), e.lineno))
        if name == 'sqrt': return ZERO if ds[0] == ZERO else (ds[0] / 2 if ds[0] != NA else NA)
        if name == 'exp' and len(ds) == 1 and is_log(ds[0]): return ds[0][1]                    # exp(F + l ln lambda) = lambda^l exp(F)
        if name == 'log' and len(ds) == 1 and isinstance(ds[0], Fraction): return LOG(ds[0]) if ds[0] != 0 else Fraction(0)
        if name in ('exp', 'log', 'log10', 'cos', 'sin', 'arctan2', 'tanh'):
            for d in ds:
                if d not in (Fraction(0), ZERO, NA): self.fail(e, 'argument of %s carries rate degree %s (must be dimensionless)' % (name, show(d)))
            return Fraction(0)
        if name in ('inv', 'pinv'):
            d = ds[0]
            for tolname in ('atol', 'cond'):
                if tolname in kd and kd[tolname] not in (ZERO,) and join(kd[tolname], d) is None:
                    self.fail(e, 'absolute cutoff %s= of %s has rate degree %s but the matrix has degree %s: modes are kept or dropped depending on the overall rate scale' % (tolname, name, show(kd[tolname]), show(d)))
            for tolname in ('rtol', 'rcond'):
                if tolname in kd and kd[tolname] not in (Fraction(0), ZERO): self.fail(e, 'relative cutoff %s= of %s is not dimensionless' % (tolname, name))
            return ZERO if d == ZERO else -d
        if name == 'solve': return _add([-(ds[0]), ds[1]]) if ds[0] not in (ZERO, NA) else ds[1]
        if name in ('eigh', 'eig'): return Tup([ds[0], Fraction(0)])
        if name in ('eigvalsh', 'eigvals', 'norm', 'det_like_1'): return ds[0]
        if name in ('allclose', 'isclose', 'array_equal'):
            a, b = ds[0], ds[1]
            if join(a, b) is None: self.fail(e, '%s compares rate degree %s with %s' % (name, show(a), show(b)))
            # "is it zero?" with the library's built-in absolute tolerance (1e-8) is an absolute statement about a quantity that scales
            lit0 = any(isinstance(x, ast.Constant) and not isinstance(x.value, bool) and x.value == 0 for x in e.args[:2])
            if name != 'array_equal' and lit0 and isinstance(join(a, b), Fraction) and join(a, b) != 0 and 'atol' not in kd:
                self.fail(e, '%s(..., 0) tests a value of rate degree %s against the built-in absolute tolerance: the outcome depends on the overall rate scale' % (name, show(join(a, b))))
            for tolname in ('atol',):
                if tolname in kd and kd[tolname] != ZERO and join(kd[tolname], join(a, b) if join(a, b) is not None else a) is None and join(a, b) not in (ZERO,):
                    self.fail(e, '%s: absolute tolerance of degree %s on values of degree %s' % (name, show(kd[tolname]), show(join(a, b))))
            return NA
        if name in ('any', 'all'): return NA
        if name == 'zip': return Tup([self.element_of(d, e) for d in ds])
        if name == 'enumerate': return Tup([NA, self.element_of(ds[0], e)]) if ds else NA       # (counter, item): the item keeps its degree
        if name == 'count': return NA
        if name == 'next':
            d = ds[0]
            if len(ds) > 1 and NA not in (d, ds[1]):
                j = join(d, ds[1])
                if j is None: self.fail(e, 'next(...) default of degree %s for values of degree %s' % (show(ds[1]), show(d)))
                return j if j is not None else d
            return d
        if name == 'iter': return ds[0]
        if name in ('list', 'tuple', 'set', 'sorted', 'reversed'): return ds[0] if ds else ZERO
        if name == 'dict': return NA
        raise Undecided('degree typing: call to %s (line %d) has no degree rule' % (name, e.lineno))

    # ---- statements
    def bind(self, target, d, node):
        if isinstance(target, ast.Name):
            # flow-sensitive: a name may be re-used for a value of another degree (normalised in place, say); what must not happen is a
            # degree that depends on how often a loop ran -- checked by comparing the environment after two passes over every loop body
            self.env[target.id] = d
            return
        if isinstance(target, (ast.Tuple, ast.List)):
            if isinstance(d, Tup) and len(d.items) == len(target.elts):
                for t, x in zip(target.elts, d.items): self.bind(t, x, node)
            else:
                for t in target.elts: self.bind(t, d, node)       # unpacking an array row / pair of equal-degree items
            return
        if isinstance(target, ast.Subscript):
            base = self.ev(target.value); self._index(target.slice)
            if isinstance(base, Tup): raise Undecided('degree typing: store into a tuple (line %d)' % node.lineno)
            if base == ZERO:
                # an accumulator created by np.zeros takes the degree of what is stored in it
                root = target.value
                while isinstance(root, ast.Subscript): root = root.value
                if isinstance(root, ast.Name): self.env[root.id] = d
                return
            if d == ZERO or base == NA or d == NA: return
            if join(base, d) is None: self.fail(node, 'value of rate degree %s stored into %s, which has degree %s' % (show(d), ast.unparse(target.value)[:40], show(base)))
            return
        if isinstance(target, ast.Attribute):
            self.attr_now[ast.unparse(target)] = d          # checked against `fields_after` when the function returns
            return
        raise Undecided('degree typing: assignment target (line %d)' % node.lineno)

    def run_block(self, stmts):
        for st in stmts: self.run_stmt(st)

    def run_stmt(self, st):
        self._failed = []
        if isinstance(st, ast.Expr):
            if isinstance(st.value, ast.Constant): return
            self.ev(st.value); self.stmt_obligation(st, 'call'); return
        if isinstance(st, ast.Assign):
            d = self.ev(st.value)
            for t in st.targets: self.bind(t, d, st)
            self.stmt_obligation(st, 'assign'); return
        if isinstance(st, ast.AugAssign):
            load = ast.BinOp(left=_as_load(st.target), op=st.op, right=st.value); ast.copy_location(load, st); ast.fix_missing_locations(load)
            cur = self.ev(_as_load(st.target))
            if cur == ZERO:
                self.bind(st.target, self.ev(st.value) if isinstance(st.op, (ast.Add, ast.Sub)) else ZERO, st)
            else:
                d = self.ev(load); self.bind(st.target, d, st)
            self.stmt_obligation(st, 'augassign'); return
        if isinstance(st, ast.Return):
            self.nret += 1
            d = self.ev(st.value) if st.value is not None else NA
            if hasattr(self, 'collect'): self.collect.append(d)
            want = self.c.get('returns')
            if want is not None:
                got = d.items if isinstance(d, Tup) else [d]
                alts = want if (isinstance(want, list) and want and isinstance(want[0], (list, tuple))) else [want if isinstance(want, (list, tuple)) else [want]]
                wl = next((w for w in alts if len(w) == len(got)), None)
                if wl is None: self.fail(st, 'returns %d values, contract has %s' % (len(got), [len(w) for w in alts]))
                else:
                    for k, (g, w) in enumerate(zip(got, wl)):
                        if g == ZERO or (g == NA and w == NA): continue
                        if g == NA or join(g, w) is None: self.fail(st, 'returned value %d has rate degree %s, contract says %s' % (k, show(g), show(w)))
            self.stmt_obligation(st, 'return'); return
        if isinstance(st, ast.Assert):
            # an assertion must fire for both runs or for neither: its condition is held to the rule for branch conditions
            self.cond(st.test); self.stmt_obligation(st, 'assert-condition-invariant'); return
        if isinstance(st, ast.If):
            self.cond(st.test); self.stmt_obligation(st, 'branch-condition-invariant')
            self.run_block(st.body); self.run_block(st.orelse); return
        if isinstance(st, ast.For):
            it = self.ev(st.iter)
            self.bind(st.target, self.element_of(it, st.iter), st)
            self.stmt_obligation(st, 'loop-header')
            n0 = len(self.obligations)
            self.run_block(st.body)
            # second pass: accumulators that received their degree inside the body are re-checked against it, and no name may
            # end the second pass with another degree than the first (a degree that grows with the number of iterations)
            del self.obligations[n0:]
            snap = {k: v for k, v in self.env.items() if not isinstance(v, Tup)}
            self.bind(st.target, self.element_of(it, st.iter), st)
            self.run_block(st.body)
            self._failed = []
            for k, v in snap.items():
                w = self.env.get(k)
                if w is not None and not isinstance(w, Tup) and v != ZERO and w != ZERO and w != v:
                    self.fail(st, 'the degree of %s depends on the number of iterations (%s after one pass, %s after two)' % (k, show(v), show(w)))
            self.stmt_obligation(st, 'loop-carried-degrees-stable')
            if st.orelse: self.run_block(st.orelse)
            return
        if isinstance(st, ast.While):
            self.cond(st.test); self.stmt_obligation(st, 'branch-condition-invariant')
            n0 = len(self.obligations); self.run_block(st.body); del self.obligations[n0:]; self.run_block(st.body); return
        if isinstance(st, ast.Raise):
            return
        if isinstance(st, (ast.Pass, ast.Continue, ast.Break, ast.Import, ast.ImportFrom)): return
        if isinstance(st, ast.FunctionDef):
            if st.name in self.c.get('callees', {}): return       # a local helper whose degree rule the contract states
            raise Undecided('degree typing: nested function %s (line %d)' % (st.name, st.lineno))
        if isinstance(st, ast.Try):
            self.run_block(st.body)
            for h in st.handlers: self.run_block(h.body)
            self.run_block(st.orelse); self.run_block(st.finalbody); return
        if isinstance(st, ast.Assert):
            self.cond(st.test); self.stmt_obligation(st, 'assert'); return
        if isinstance(st, ast.With):
            self.run_block(st.body); return
        raise Undecided('degree typing: unsupported statement %s at line %d' % (type(st).__name__, st.lineno))

    def run(self):
        body = self.fn.body
        start = self.c.get('start_after_line')       # statements before this line are covered by another mechanism (stated in the contract)
        stmts = [s for s in body if start is None or s.lineno > start]
        pre = [s for s in body if start is not None and s.lineno <= start]
        # names assigned in the skipped prefix must be declared by the contract
        self.run_block(stmts)
        for fld, want in self.c.get('fields_after', {}).items():
            got = self.attr_now.get(fld)
            ok = got is not None and (got == ZERO or join(got, want) is not None)
            self.obligations.append(('field-after:%s' % fld, ok, '' if ok else 'at exit %s has rate degree %s, contract says %s' % (fld, show(got) if got is not None else 'unassigned', show(want)), self.fn.l1))
        if self.c.get('returns') is not None and self.nret == 0:
            self.obligations.append(('return-present', False, 'no return statement reached by the checker', self.fn.l0))
        return self.obligations, pre


def _as_load(t):
    import copy
    t2 = copy.deepcopy(t)
    for n in ast.walk(t2):
        if hasattr(n, 'ctx'): n.ctx = ast.Load()
    return t2
