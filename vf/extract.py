"""Mechanical extraction of functions from /repo's current working tree (re-read on every run).

What extraction drops: docstrings and comments (they are not in the AST / are skipped by the
encoders), decorators (@staticmethod/@classmethod are honoured as calling convention, @jitclass is
dropped: numba is assumed to run the class body with Python semantics on int64/float64).
Everything else -- including `if __debug__:` blocks -- is kept and must be handled by the encoder
or the obligation is reported undecided."""
import ast, os, hashlib
from .common import REPO, CheckerFault

_cache = {}


def module_ast(relpath):
    path = os.path.join(REPO, relpath)
    st = os.stat(path)
    key = (path, st.st_mtime_ns, st.st_size)
    if key not in _cache:
        src = open(path).read()
        _cache[key] = (ast.parse(src, filename=path), src)
    return _cache[key]


class Extracted:
    def __init__(self, relpath, qualname, node, src):
        self.relpath, self.qualname, self.node = relpath, qualname, node
        self.l0, self.l1 = node.lineno, node.end_lineno
        seg = '\n'.join(src.splitlines()[self.l0 - 1:self.l1])
        self.sha = hashlib.sha1(seg.encode()).hexdigest()[:12]
        self.source = seg
        self.decorators = [ast.unparse(d) for d in getattr(node, 'decorator_list', [])]

    @property
    def body(self):
        """statements without the docstring"""
        b = self.node.body
        if b and isinstance(b[0], ast.Expr) and isinstance(b[0].value, ast.Constant) and isinstance(b[0].value.value, str):
            return b[1:]
        return b

    def loops(self):
        """for/while loops in source order (loop ordinals used by sidecar invariants)"""
        return sorted((n for n in ast.walk(self.node) if isinstance(n, (ast.For, ast.While))),
                      key=lambda n: (n.lineno, n.col_offset))


def get(relpath, qualname):
    """qualname: 'func' or 'Class.method' (nested: 'outer.inner')."""
    tree, src = module_ast(relpath)
    node = tree
    for part in qualname.split('.'):
        found = None
        for ch in ast.iter_child_nodes(node):
            if isinstance(ch, (ast.FunctionDef, ast.ClassDef)) and ch.name == part:
                found = ch
        if found is None:
            # look inside try/if blocks at module level (e.g. conditional definitions)
            for ch in ast.walk(node):
                if isinstance(ch, (ast.FunctionDef, ast.ClassDef)) and ch.name == part:
                    found = ch; break
        if found is None:
            raise KeyError('%s: %s not found (renamed or removed?)' % (relpath, qualname))
        node = found
    return Extracted(relpath, qualname, node, src)


def class_assignments(relpath, classname, field):
    """All statements in `classname` (any method) that assign self.<field> (rebinding) -- used by frame checks."""
    tree, src = module_ast(relpath)
    out = []
    for cls in ast.walk(tree):
        if isinstance(cls, ast.ClassDef) and cls.name == classname:
            for fn in [n for n in cls.body if isinstance(n, ast.FunctionDef)]:
                for n in ast.walk(fn):
                    targets = []
                    if isinstance(n, ast.Assign): targets = n.targets
                    elif isinstance(n, (ast.AugAssign, ast.AnnAssign)): targets = [n.target]
                    for t in targets:
                        for tt in (t.elts if isinstance(t, ast.Tuple) else [t]):
                            if isinstance(tt, ast.Attribute) and tt.attr == field and \
                                    isinstance(tt.value, ast.Name):
                                out.append((fn.name, n))
    return out
