"""The enumerated crystal catalogue for level-B (bounded, run-time) contracts.  Entries have stable ids; seeded
members derive from VERIF_SEED.  Every entry's jump network (entry['chem'], entry['cutoff']) connects all
dimensions (otherwise GFCrystalcalc.SetRates legitimately raises)."""
import itertools
import numpy as np


def shell_cutoff(crys, chem, nshell=1, win=2):
    """a cutoff midway between the nshell-th and (nshell+1)-th distinct site-site distance of species chem, so
    that no jump sits on a tolerance boundary"""
    ds = set()
    for u0 in crys.basis[chem]:
        for u1 in crys.basis[chem]:
            for n in itertools.product(range(-win, win + 1), repeat=crys.dim):
                dx = np.dot(crys.lattice, np.array(n) + u1 - u0)
                d = np.sqrt(np.dot(dx, dx))
                if d > 1e-8: ds.add(round(d, 6))
    ds = sorted(ds)
    # merge nearly equal
    shells = [ds[0]]
    for d in ds[1:]:
        if d - shells[-1] > 1e-4: shells.append(d)
    return 0.5 * (shells[nshell - 1] + shells[nshell])


def connected(crys, chem, cutoff):
    """does the jump network connect all sites of chem and percolate in every direction?  (closed walks of the network
    must generate a rank-d set of lattice translations: a finite "molecule" of sites is not a diffusion network)"""
    jn = crys.jumpnetwork(chem, cutoff)
    if not jn: return False
    n = len(crys.basis[chem])
    edges = [(i, j, R) for jl in crys.jumpnetwork2lattice(chem, jn) for (i, j), R in jl]
    pot = {0: np.zeros(crys.dim, dtype=int)}; todo = [0]
    while todo:
        a = todo.pop()
        for (i, j, R) in edges:
            if i == a and j not in pot:
                pot[j] = pot[i] + R; todo.append(j)
    if len(pot) != n: return False
    cycles = np.array([pot[i] + R - pot[j] for (i, j, R) in edges])
    return np.linalg.matrix_rank(cycles) == crys.dim


def _entry(cid, crys, chem=0, nshell=1, **kw):
    cutoff = kw.pop('cutoff', None)
    if cutoff is None:
        cutoff = shell_cutoff(crys, chem, nshell)
        k = nshell
        while not connected(crys, chem, cutoff) and k < 25:
            k += 1; cutoff = shell_cutoff(crys, chem, k)
    return dict(id=cid, crys=crys, chem=chem, cutoff=cutoff, **kw)


HEX = np.array([[0.5, 0.5, 0], [-np.sqrt(0.75), np.sqrt(0.75), 0], [0, 0, 1.6]])


def builders(tier='quick', seed=0):
    """-> list of (id, thunk) ; thunk() -> entry dict (crys, chem, cutoff, flags...)"""
    from onsager import crystal
    C = crystal.Crystal
    out = []
    add = lambda cid, f: out.append((cid, f))
    add('FCC', lambda: _entry('FCC', C.FCC(1., 'A')))
    add('BCC', lambda: _entry('BCC', C.BCC(1., 'A')))
    add('HCP', lambda: _entry('HCP', C.HCP(1., chemistry='A')))
    add('B2', lambda: _entry('B2', C(np.eye(3), [[np.zeros(3)], [0.5 * np.ones(3)]], chemistry=['A', 'B'])))
    add('square2D', lambda: _entry('square2D', C(np.eye(2), [[np.zeros(2)]], chemistry=['A'])))
    add('honeycomb2D', lambda: _entry('honeycomb2D', C(np.array([[1, 0], [-0.5, np.sqrt(0.75)]]).T,
                                                         [[np.array([1 / 3, 2 / 3]), np.array([2 / 3, 1 / 3])]], chemistry=['A'])))

    def hcpOT():
        hcp = C.HCP(1., chemistry='Mg')
        cr = hcp.addbasis(hcp.Wyckoffpos(np.array([0., 0., 0.5])) + hcp.Wyckoffpos(np.array([1 / 3, 2 / 3, 0.625])), ['O'])
        return _entry('HCP+OT', cr, chem=1, cutoff=0.7, interstitial=True)
    add('HCP+OT', hcpOT)

    def ortho2():
        cr = C(np.diag([1., 1.15, 1.31]), [[np.zeros(3), np.array([0.5, 0.5, 0.37])]], chemistry=['A'])
        return _entry('ortho2site', cr, nshell=3)
    add('ortho2site', ortho2)
    add('omega', lambda: _entry('omega', C(np.array([[0.5, 0.5, 0], [-np.sqrt(0.75), np.sqrt(0.75), 0], [0, 0, 0.61]]),
                                             [[np.zeros(3), np.array([1 / 3, 2 / 3, 0.5]), np.array([2 / 3, 1 / 3, 0.5])]], chemistry=['A']), nshell=2))

    def wurtz():
        # polar (no inversion) two-species host with an interstitial species on a general-ish polar position
        w = C(HEX, [[np.array([1 / 3, 2 / 3, 0.]), np.array([2 / 3, 1 / 3, 0.5])],
                    [np.array([1 / 3, 2 / 3, 0.375]), np.array([2 / 3, 1 / 3, 0.875])]], chemistry=['Zn', 'S'])
        cr = w.addbasis(w.Wyckoffpos(np.array([0., 0., 0.2])), ['X'])
        return _entry('wurtzite+X', cr, chem=2, nshell=2, interstitial=True, polar=True)
    add('wurtzite+X', wurtz)

    def s4():
        x, y, z = 0.21, 0.13, 0.17
        A = [np.array(p) for p in ((x, y, z), (-x, -y, z), (y, -x, -z), (-y, x, -z))]
        cr = C(np.diag([1., 1., 1.3]), [A, [np.zeros(3), np.array([.5, .5, .5])]], chemistry=['A', 'B'])
        return _entry('P-4(S4 site)', cr, chem=1, nshell=2)
    add('P-4(S4 site)', s4)

    def rot3(th=0.37, ph=0.81):
        Rz = np.array([[np.cos(th), -np.sin(th), 0], [np.sin(th), np.cos(th), 0], [0, 0, 1]])
        Rx = np.array([[1, 0, 0], [0, np.cos(ph), -np.sin(ph)], [0, np.sin(ph), np.cos(ph)]])
        return Rz @ Rx

    def monoP2m(rotated):
        # centrosymmetric monoclinic P2/m host; mobile species on a mirror-plane position (site symmetry m, tilted
        # normal when the crystal is given in a rotated setting) and on a general position
        latt = np.array([[1., 0, 0], [0.23, 1.12, 0], [0, 0, 1.31]]).T
        if rotated: latt = rot3() @ latt
        host = C(latt, [[np.zeros(3)]], chemistry=['A'])
        cr = host.addbasis(host.Wyckoffpos(np.array([0.21, 0.34, 0.5])) + host.Wyckoffpos(np.array([0.27, 0.11, 0.19])), ['X'])
        cid = 'mono-P2/m' + ('-rotated' if rotated else '')
        return _entry(cid, cr, chem=1, nshell=4, interstitial=True)
    add('mono-P2/m-rotated', lambda: monoP2m(True))

    def monoPm_tilted():
        # mobile species on a mirror plane whose normal is tilted towards z (|n_z| > 0.75) with a non-zero x component
        latt = rot3(0.37, 0.5) @ np.array([[1., 0, 0], [0.23, 1.12, 0], [0, 0, 1.31]]).T
        host = C(latt, [[np.zeros(3)]], chemistry=['A'])
        cr = host.addbasis(host.Wyckoffpos(np.array([0.21, 0.34, 0.5])), ['X'])
        return _entry('mono-mirror-site-tilted-normal', cr, chem=1, nshell=3, interstitial=True)
    add('mono-mirror-site-tilted-normal', monoPm_tilted)

    def rect2Drot():
        th = np.pi / 6
        R = np.array([[np.cos(th), -np.sin(th)], [np.sin(th), np.cos(th)]])
        host = C(R @ np.diag([1., 1.3]), [[np.zeros(2)]], chemistry=['A'])
        cr = host.addbasis(host.Wyckoffpos(np.array([0.27, 0.5])) + host.Wyckoffpos(np.array([0.5, 0.18])), ['X'])
        return _entry('rect2D-rot30', cr, chem=1, nshell=3, interstitial=True)
    add('rect2D-rot30', rect2Drot)
    # plane group p1: two sites of the mobile species and a third atom that removes the inversion centre; the second-shell
    # cutoff includes jumps between translation images of one site (they drop out of the q=0 rate matrix)
    add('p1-2D-AAB', lambda: _entry('p1-2D-AAB', C(np.array([[-0.0254, -0.8170], [0.5890, 0.1472]]),
                                                  [[np.array([0.5465, 0.2220]), np.array([0.0691, 0.3647])], [np.array([0.1994, 0.0439])]], chemistry=['A', 'B']), nshell=2))
    # rotation-only (chiral) site symmetry: no mirror, no inversion, no perpendicular two-fold -- two states of one star need not be
    # exchanged by any operation
    def p6chiral():
        th = np.pi / 3
        Rr = np.array([[np.cos(th), -np.sin(th)], [np.sin(th), np.cos(th)]])
        latt = np.array([[1, 0], [-0.5, np.sqrt(0.75)]]).T
        x0 = latt @ np.array([0.31, 0.12])
        B = [np.linalg.solve(latt, np.linalg.matrix_power(Rr, k) @ x0) for k in range(6)]
        return _entry('p6-chiral-2D', C(latt, [[np.zeros(2)], B], chemistry=['A', 'B']), nshell=1)
    add('p6-chiral-2D', p6chiral)

    def P4chiral():
        x, y, z = 0.23, 0.11, 0.37
        B = [np.array(p) for p in ((x, y, z), (-y, x, z), (-x, -y, z), (y, -x, z))]
        return _entry('P4-chiral', C(np.diag([1., 1., 1.2]), [[np.zeros(3)], B], chemistry=['A', 'B']), nshell=2)
    add('P4-chiral', P4chiral)
    # one host chemistry on two inequivalent sites (two Wyckoff sets of the same species) with a mobile species in between
    add('host-2wyckoff+X', lambda: _entry('host-2wyckoff+X', C(np.diag([1., 1., 1.3]), [[np.zeros(3), np.array([.5, .5, .42])], [np.array([.5, 0, .2]), np.array([0, .5, .2])]],
                                                               chemistry=['A', 'X']), chem=1, nshell=2, interstitial=True))
    if tier == 'thorough':
        add('mono-P2/m', lambda: monoP2m(False))
        add('HCP-rotated', lambda: _entry('HCP-rotated', C(rot3() @ HEX * np.array([1, 1, 1.633 / 1.6]), [[np.array([1 / 3, 2 / 3, .25]), np.array([2 / 3, 1 / 3, .75])]], chemistry=['A'])))

        def tricPm1():
            r = np.random.default_rng(77)
            A = np.eye(3) + 0.2 * r.normal(size=(3, 3))
            u = r.uniform(0.1, 0.4, 3)
            return _entry('tric-P-1', C(A, [[u, -u]], chemistry=['A']), nshell=3)
        add('tric-P-1', tricPm1)
        add('SC', lambda: _entry('SC', C(np.eye(3), [[np.zeros(3)]], chemistry=['A'])))
        add('diamond', lambda: _entry('diamond', C(np.array([[0, .5, .5], [.5, 0, .5], [.5, .5, 0]]),
                                                    [[np.zeros(3), 0.25 * np.ones(3)]], chemistry=['C'])))
        add('L12', lambda: _entry('L12', C(np.eye(3), [[np.zeros(3)], [np.array([0, .5, .5]), np.array([.5, 0, .5]), np.array([.5, .5, 0])]],
                                           chemistry=['Al', 'Ni']), chem=1))
        add('tria2D', lambda: _entry('tria2D', C(np.array([[1, 0], [-0.5, np.sqrt(0.75)]]).T, [[np.zeros(2)]], chemistry=['A'])))
        add('rect2D', lambda: _entry('rect2D', C(np.diag([1., 1.3]), [[np.zeros(2), np.array([0.5, 0.31])]], chemistry=['A']), nshell=3))
        add('oblique2D', lambda: _entry('oblique2D', C(np.array([[1, 0.3], [0, 1.2]]), [[np.zeros(2), np.array([.3, .6])]], chemistry=['A']), nshell=3))
        add('rumpled-omega', lambda: _entry('rumpled-omega', C(np.array([[0.5, 0.5, 0], [-np.sqrt(0.75), np.sqrt(0.75), 0], [0, 0, 0.61]]),
                                                               [[np.zeros(3), np.array([1 / 3, 2 / 3, 0.45]), np.array([2 / 3, 1 / 3, 0.55])]], chemistry=['A']), nshell=2))
    rng = np.random.default_rng(1000 + seed)
    nrand = 2 if tier == 'quick' else 8
    for k in range(nrand):
        dim = 3 if k % 2 == 0 else 2
        A = np.eye(dim) + 0.25 * rng.normal(size=(dim, dim))
        nat = int(rng.integers(1, 4))
        b = [rng.uniform(0, 1, dim) for _ in range(nat)]
        b2 = [rng.uniform(0, 1, dim)]
        cid = 'random%d-dim%d-%datoms' % (k, dim, nat)
        add(cid, (lambda A=A, b=b, b2=b2, cid=cid: _entry(cid, C(A, [b, b2], chemistry=['A', 'B']), nshell=2, random=True)))
    return out


def build_all(tier='quick', seed=0, only=None):
    out = []
    for cid, f in builders(tier, seed):
        if only and cid not in only: continue
        out.append(f())
    return out


def interstitial_extras(tier='quick', seed=0):
    """high-symmetry interstitial networks with many sites per cell (degenerate relaxation modes followed by distinct slower
    ones): octahedral + tetrahedral sites of BCC (9 sites) and FCC (3 sites).  Same entry format as builders()."""
    from onsager import crystal
    C = crystal.Crystal
    def bccOT():
        bcc = C.BCC(1., 'Fe')
        cr = bcc.addbasis(bcc.Wyckoffpos(np.array([0.5, 0.5, 0.])) + bcc.Wyckoffpos(np.array([0.5, 0.25, 0.])), ['C'])
        return _entry('BCC+oct+tet', cr, chem=1, nshell=1, interstitial=True)
    def fccOT():
        fcc = C.FCC(1., 'Ni')
        cr = fcc.addbasis(fcc.Wyckoffpos(np.array([0.5, 0.5, 0.5])) + fcc.Wyckoffpos(np.array([0.25, 0.25, 0.25])), ['H'])
        return _entry('FCC+oct+tet', cr, chem=1, nshell=1, interstitial=True)
    def p4mm():
        # polar tetragonal host (no inversion: pseudo-inverse branch of the bias solve), mobile species on two Wyckoff sets, NV = 2
        cr = C(np.diag([1., 1., 1.3]), [[np.zeros(3)], [np.array([0, 0, 0.42])], [np.array([.5, .5, .18]), np.array([.5, 0, .7]), np.array([0, .5, .7])]], chemistry=['A', 'B', 'X'])
        return _entry('P4mm-polar-3site', cr, chem=2, cutoff=0.95, interstitial=True, polar=True)
    def hcpOTmixed():
        # the same octahedral + tetrahedral network as HCP+OT with the interstitial basis listed in mixed order: the Wyckoff sets are
        # not contiguous index blocks (site list [[0, 2, 3, 5], [1, 4]]-like)
        hcp = C.HCP(1., chemistry='Mg')
        O = hcp.Wyckoffpos(np.array([0., 0., 0.5])); T = hcp.Wyckoffpos(np.array([1 / 3, 2 / 3, 0.625]))
        mixed = [T[0], O[0], T[1], T[2], O[1], T[3]]
        cr = C(hcp.lattice, [list(hcp.basis[0]), mixed], chemistry=['Mg', 'O'])
        return _entry('HCP+OT-mixed-order', cr, chem=1, cutoff=0.7, interstitial=True)
    return [('BCC+oct+tet', bccOT), ('FCC+oct+tet', fccOT), ('P4mm-polar-3site', p4mm), ('HCP+OT-mixed-order', hcpOTmixed)]
