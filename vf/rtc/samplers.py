"""Catalogue of small REAL Monte-Carlo samplers (built through the real constructors) shared by C32-C35.
Every case is small enough for exhaustive occupations (<= 2^8 mobile occupations)."""
import numpy as np
import functools


def cases(tier='quick'):
    """-> list of (label, builder); builder(seed) -> dict with sup, socc, clusterexp, Evalues, chem, jumpnetwork,
    KRAvalues, TSclusters, TSvalues, vacancy, crys"""
    from onsager import crystal, supercell, cluster

    def mk(label, crys, superlatt, cutoff, maxorder, spectator=(), vacancy=None, jumps=None, chem=0, exclude=()):
        def build(seed):
            rng = np.random.default_rng(seed * 1009 + sum(map(ord, label)))
            sup = supercell.ClusterSupercell(crys, np.array(superlatt, dtype=int), spectator=spectator)
            if vacancy is not None: sup.addvacancy(vacancy)
            bare = cluster.makeclusters(crys, cutoff, maxorder, exclude=exclude)
            clusterexp = list(bare)
            vacexp = []
            if vacancy is not None:
                vacexp = cluster.makeVacancyClusters(crys, chem, bare)
                clusterexp = clusterexp + vacexp
            Evalues = rng.normal(size=len(clusterexp) + 1)
            socc = rng.integers(0, 2, size=sup.Nspec * sup.size)
            d = dict(label=label, crys=crys, sup=sup, socc=socc, clusterexp=clusterexp, Evalues=Evalues, chem=None,
                     jumpnetwork=(), KRAvalues=0, TSclusters=(), TSvalues=(), vacancy=vacancy)
            if jumps is not None:
                jn = crys.jumpnetwork(chem, jumps)
                TS = cluster.makeTSclusters(crys, chem, jn, vacexp if vacancy is not None else bare)
                d.update(chem=chem, jumpnetwork=jn, KRAvalues=rng.normal(size=len(jn)), TSclusters=TS, TSvalues=rng.normal(size=len(TS)))
            return d
        return (label, build)
    fcc = crystal.Crystal.FCC(1., 'A')
    hcp = crystal.Crystal.HCP(1., chemistry='A')
    b2 = crystal.Crystal(np.eye(3), [[np.zeros(3)], [0.5 * np.ones(3)]], chemistry=['A', 'B'])
    two = 2 * np.eye(3, dtype=int)
    # low symmetry, mobile species on two inequivalent sublattices (plus a spectator): jump types confined to one
    # sublattice and jump types connecting the two
    low2 = crystal.Crystal(np.array([[1., 0.1, 0.], [0., 1.1, 0.15], [0.05, 0., 1.2]]).T,
                           [[np.array([0., 0., 0.]), np.array([0.5, 0.45, 0.4])], [np.array([0.25, 0.7, 0.8])]], chemistry=['A', 'B'])
    out = [
        mk('FCC 2x2x2 nn clusters order 3', fcc, two, 0.8, 3),
        mk('FCC 2x2x2 long-range pairs (wrap onto own image)', fcc, two, 1.5, 2),
        mk('FCC 2x2x2 nn + jumps + TS clusters', fcc, two, 0.8, 2, jumps=0.8),
        mk('FCC 2x2x2 vacancy at 3 + jumps + TS', fcc, two, 0.8, 2, vacancy=3, jumps=0.8),
        mk('B2 2x1x1 nondiag, B spectator', b2, [[1, 1, 0], [0, 2, 0], [0, 0, 2]], 0.9, 3, spectator=(1,), jumps=1.01),
        mk('HCP 2x2x1 nn + jumps', hcp, np.diag([2, 2, 1]), 1.01, 2, jumps=1.01),
        # one cell wide along a cluster direction: clusters fold onto their own / the vacancy's periodic image
        mk('FCC diag(1,2,3) nn + vacancy at 0', fcc, np.diag([1, 2, 3]), 0.8, 2, vacancy=0, jumps=0.8),
        mk('FCC diag(1,2,3) nn order 3', fcc, np.diag([1, 2, 3]), 0.8, 3),
        mk('low-symmetry 2 sublattices 2x2x1, vacancy on sublattice 0', low2, np.array([[1, 1, 0], [0, 2, 0], [0, 0, 1]]), 0.95, 2, spectator=(1,), vacancy=0, jumps=1.12),
        # no vacancy: the jumping species hops between two INEQUIVALENT sites whose one-site clusters carry different energies
        mk('low-symmetry 2 sublattices 2x2x1, no vacancy, jumps between inequivalent sites', low2, np.array([[1, 1, 0], [0, 2, 0], [0, 0, 1]]), 0.95, 2, spectator=(1,), jumps=1.12),
        mk('low-symmetry 2 sublattices 2x2x1, vacancy on sublattice 1', low2, np.array([[1, 1, 0], [0, 2, 0], [0, 0, 1]]), 0.95, 2, spectator=(1,), vacancy=1, jumps=1.12),
        # a mobile sublattice with two symmetry-related sites per cell and a vacancy: the orbit of a vacancy cluster mixes both site types
        mk('HCP 2x2x1 vacancy at 5', hcp, np.diag([2, 2, 1]), 1.01, 2, vacancy=5, jumps=1.01),
        # vacancy away from the cell at the origin, spectators around it unevenly occupied, transition-state clusters that hold spectator sites
        mk('B2 nondiag, B spectator, vacancy at 2', b2, [[1, 1, 0], [0, 2, 0], [0, 0, 2]], 1.05, 3, spectator=(1,), vacancy=2, jumps=1.01),
        mk('low-symmetry 2 sublattices 2x2x1, vacancy at 3', low2, np.array([[1, 1, 0], [0, 2, 0], [0, 0, 1]]), 0.95, 2, spectator=(1,), vacancy=3, jumps=1.12),
    ]
    if tier == 'thorough':
        out += [
            mk('FCC diag(3,1,2) nn + jumps', fcc, np.diag([3, 1, 2]), 0.8, 3, jumps=0.8),
            mk('HCP 2x2x1 vacancy at 2', hcp, np.diag([2, 2, 1]), 1.01, 2, vacancy=2, jumps=1.01),
            mk('B2 2x2x1 both mobile', b2, np.diag([2, 2, 1]), 0.9, 2, jumps=1.01, chem=0),
            mk('FCC 2x2x2 long range + vacancy', fcc, two, 1.5, 2, vacancy=0, jumps=0.8),
        ]
    return out


def make_sampler(d):
    from onsager import cluster
    return cluster.MonteCarloSampler(d['sup'], d['socc'], d['clusterexp'], d['Evalues'], d['chem'], d['jumpnetwork'],
                                     KRAvalues=d['KRAvalues'], TSclusters=d['TSclusters'], TSvalues=d['TSvalues'])


def occupations(d, rng=None, limit=None):
    """all mobile occupations (vacancy site fixed at -1); sampled down to `limit` when given"""
    import itertools
    n = d['sup'].Nmobile * d['sup'].size
    free = [i for i in range(n) if i != d['vacancy']]
    allocc = itertools.product((0, 1), repeat=len(free))
    if limit is not None and 2 ** len(free) > limit:
        picks = set(int(x) for x in rng.integers(0, 2 ** len(free), size=limit))
        allocc = [tuple((p >> b) & 1 for b in range(len(free))) for p in sorted(picks)]
    for bits in allocc:
        occ = np.zeros(n, dtype=int)
        for i, b in zip(free, bits): occ[i] = b
        if d['vacancy'] is not None: occ[d['vacancy']] = -1
        yield occ
