"""Runs level-B (run-time contract) workers over catalogue cases in a fork pool and records them in a Report.
A worker is a top-level function arg -> dict(label, n, sigs, sample, viols) where viols is a list of
dict(clause, detail[, witness...])."""
import time, traceback, multiprocessing as mp
from ..common import Ob


def _safe(fa):
    f, a = fa
    try:
        return f(a)
    except Exception as ex:
        # An exception raised *inside the code under contract* (innermost frame in <repo>/onsager) on a harness input is the library
        # refusing or failing on a valid input: a verdict about the code (the harness inputs are fixed and return on the unchanged tree).
        # An exception raised in the harness itself is a checker fault.
        import os
        from ..common import REPO
        tb = traceback.extract_tb(ex.__traceback__)
        root = os.path.realpath(os.path.join(REPO, 'onsager')) + os.sep
        # innermost frame that belongs to the repository or to this harness (library frames of numpy / scipy / h5py in between are skipped)
        vroot = os.path.realpath(os.path.join(os.path.dirname(os.path.abspath(__file__)), '..', '..')) + os.sep
        inner = None
        for fr in reversed(tb):
            fn_ = os.path.realpath(fr.filename)
            if fn_.startswith(root) or fn_.startswith(vroot):
                inner = fr; break
        lbl = '/'.join(str(x) for x in a[:2])[:80] if isinstance(a, tuple) else str(a)[:80]
        if inner is not None and os.path.realpath(inner.filename).startswith(root):
            where = '%s:%d in %s' % (os.path.relpath(os.path.realpath(inner.filename), os.path.realpath(REPO)), inner.lineno, inner.name)
            return dict(label=lbl, n=1, sigs=[], sample=None,
                        viols=[dict(clause='no-exception-from-the-code-under-contract', detail='%s: %s (raised at %s)' % (type(ex).__name__, str(ex)[:300], where),
                                    signature='%s@%s' % (type(ex).__name__, inner.name))])
        return dict(label=lbl, n=0, sigs=[], sample=None,
                    viols=[], crash='%s: %s\n%s' % (type(ex).__name__, ex, traceback.format_exc()[-1200:]))


def run(rep, group, worker, args, fq, procs=16):
    """group: obligation name prefix (e.g. 'Crystal::symmetry-group-contract')"""
    t = time.time()
    work = [(worker, a) for a in args]
    if len(work) <= 1: res = [_safe(w) for w in work]
    else:
        with mp.get_context('fork').Pool(min(procs, len(work))) as pool:
            res = pool.map(_safe, work, chunksize=1)
    for r in res:
        name = '%s[%s]' % (group, r['label'])
        rep.b_evals += r['n']
        for s in r['sigs']: rep.b_cases.add((group, r['label'], s))
        if r.get('sample'): rep.sample(r['sample'])
        if r.get('crash'):
            rep.add(Ob(name, 'B', 'fault', 'rtc', time.time() - t, 'worker crashed: ' + r['crash'], function=fq))
            continue
        if r['viols']:
            # one Ob per distinct clause so that known findings can be matched individually
            seen = set()
            for v in r['viols']:
                if v['clause'] in seen: continue
                seen.add(v['clause'])
                rep.add(Ob('%s:%s' % (name, v['clause']), 'B', 'fail', 'rtc', time.time() - t,
                           'clause %s violated: %s' % (v['clause'], v.get('detail', '')[:600]),
                           witness=dict(v, replayed=True, signature='%s|%s|%s' % (v['clause'], r['label'], v.get('signature', ''))), function=fq))
        else:
            rep.add(Ob(name, 'B', 'ok', 'rtc', time.time() - t, '%d contract evaluations, %d distinct cases' % (r['n'], len(r['sigs'])), function=fq))
    return res


class Acc:
    """accumulator used inside workers"""
    def __init__(self, label):
        self.label, self.n, self.sigs, self.sample, self.viols = label, 0, set(), None, []
        self.klass = ''         # structural class of the case (e.g. 'OS=1,pg=2,dim=2'): appended to every witness signature so that
                                # a known finding can name the class of inputs it was reproduced on instead of catalogue ids

    def check(self, ok, clause, detail='', sig=None, **kw):
        self.n += 1
        if sig is not None: self.sigs.add(sig)
        if not ok and len(self.viols) < 8:
            if self.klass: kw['signature'] = '%s|class:%s' % (kw.get('signature', ''), self.klass)
            self.viols.append(dict(clause=clause, detail=str(detail)[:600], **kw))
        return ok

    def result(self):
        return dict(label=self.label, n=self.n, sigs=sorted(map(str, self.sigs))[:5000], sample=self.sample, viols=self.viols)
