"""What MANIFEST.json claims, per property (tools/gen_manifest.py turns this into MANIFEST.json)."""
CLAIMS = {
    'C28': dict(engine='pyvc (E1) + rtc (E3)', category='proof',
                technique='contract-based deductive verification: AST->VC->z3 with representation invariant, ghost witness field and frame conditions; run-time contracts as bounded stand-in',
                text='setocc, fillperiodic (with its site selection abstracted), __imul__, reorder and __sane__ are proved, for all supercell sizes / species counts / list contents, to preserve the '
                     'representation invariant relating occ and chemorder, to accept exactly the declared species, and (reorder) to raise ValueError exactly '
                     'when a map is not a permutation (pigeonhole lemmas proved by induction); hence every history of these edits preserves the invariant. '
                     '__setitem__, __mul__, copy, POSCAR and POSCAR_occ (incl. the POSCAR text round trip) and the site selection of fillperiodic are outside the encoder subset and only '
                     'checked at run time over bounded histories (labelled B, not counted as proved).',
                note='Assumes the encoder model of CPython list/array primitives, mathematical integers, no aliasing between inner lists; z3/cvc5 trusted. '
                     'Functions outside the encoder subset are reported undecided, never passed.'),
}
CLAIMS['C33'] = dict(engine='pyvc (E1) + rtc (E3)', category='proof',
    technique='contract-based deductive verification: inductive class invariant over start/update proved from the AST (z3, loop invariants, ghost recursive sums, induction lemma); run-time contracts on real samplers as bounded stand-in',
    text='start() establishes and update() preserves, for all interaction tables, occupations and site lists, the invariant that cluster counts and '
         'occupied/unoccupied sets are functions of the occupation; E() is a function of the counts: so the state after any history equals a fresh start. '
         'deltaE_trial == realised energy change is a run-time contract (B) over exhaustive small tables and catalogue samplers.',
    note='Assumes the table invariant established by the constructor (checked at run time only), the encoder model of CPython/numpy primitives, reals for energies.')

CLAIMS['C35'] = dict(engine='pyvc (E1) + rtc (E3)', category='proof',
    technique='contract-based deductive verification: the jitclass methods are proved against the same ghost specification functions as the reference sampler (functional form of the coupling relation), z3; real numba objects vs reference as run-time relational contracts',
    text='start/E/update/transitions/deltaE_trial of the compiled sampler are proved for all tables and occupations to compute the same specification '
         '(counts, energy, barriers with +inf for forbidden jumps, set/index bookkeeping, trial energy = energy of the counts the move produces minus the present energy) '
         'as the reference sampler is proved to in C33. MCmoves (batch == Metropolis move by move), copy and parameter extraction are run-time relational contracts (B) on real numba objects.',
    note='Assumes numba runs the class body with Python semantics (decorator dropped), table invariants from the constructor (run-time checked), reals for energies.')

CLAIMS['C18'] = dict(engine='pyvc (E1: AST -> VCs -> z3) + pyframe ownership typing (E2b) + rtc (E3)', category='exploration',
    technique='contract of maptranslation (the search behind every symmetry operation: a returned atom mapping has one entry per atom and every entry matches under the returned translation, for every meaning of the floating-point tests) discharged by z3 from the extracted source with invariants for the four nested loops; ownership contract of Crystal.__init__ / incell on the extracted AST (the crystal shares no array with its constructor arguments, nested lists deep-copied: for every caller history); run-time contract on Crystal construction (group axioms, isometry, atom/spin map) over an enumerated catalogue: bounded stand-in for the contract; GroupOp algebra proved under C23',
    text='Proved (all inputs): a mapping returned by maptranslation has one entry per atom and every entry matches under the returned translation; the crystal shares no array with its constructor arguments. Bounded: for every catalogue crystal (named lattices, low-symmetry, 2D, rotated settings, scalar/vector/complex spins, glide cells with several species, '
         'NOSYM, strained) each reported operation satisfies the isometry / lattice / atom-map / spin contract and the set is a group. Not a proof.',
    note='Tolerances fixed in the contract; the catalogue is the bound.')

CLAIMS['C20'] = dict(engine='rtc (E3) + symx path enumeration (E4) + pyframe ownership typing (E2b)', category='exploration',
    technique='contract of Crystal.vectlist discharged symbolically (extracted body run on a symbolic unit vector, every branch: the frame is orthonormal and orthogonal to the plane normal / equal to the line direction, modulo |n|=1); ownership contract of Crystal.VectorBasis (a new object on every call); run-time contracts with character-formula oracle on site point groups, Wyckoff orbits and invariant bases; exhaustive subgroup enumeration of the holohedries through the real Combine*/eigen code path (bounded stand-in)',
    text='Proved (every unit vector, every branch): Crystal.vectlist returns an orthonormal frame orthogonal to the plane normal / equal to the line direction; VectorBasis hands out a new object. Bounded: every site of every catalogue crystal and every subgroup of Oh, D6h (3D, two orientations) and D4, D6, D2 (2D, rotated) gets orthonormal, '
         'invariant vector and symmetric-tensor bases of exactly the dimension the character formula gives; Wyckoff sets equal brute-force orbits; adding a full orbit keeps |G|.',
    note='Character formulas trusted as definition; catalogue and listed orientations are the bound.')
CLAIMS['C21'] = dict(engine='pyvc (E1: AST -> VCs -> z3) + rtc (E3)', category='exploration',
    technique='contract of maptranslation (the atom maps of the operations under which the jump classes are closed) discharged by z3 from the extracted source; run-time postcondition of Crystal.jumpnetwork against an independent brute-force window enumeration (bounded stand-in)',
    text='Proved (all inputs): a mapping returned by maptranslation really maps (the atom maps of the operations the classes are closed under). Bounded: on every catalogue crystal/species and the first shells, with scalar and per-species obstruction distances, the network equals the brute-force jump set, '
         'each jump once, classes are single orbits closed under the space group and reversal, and the lattice form encodes the same jumps.',
    note='Cutoffs/obstruction distances drawn midway between distinct distances; default distance 0 excludes paths through a site (code semantics).')

CLAIMS['C19'] = dict(engine='rtc (E3)', category='exploration',
    technique='run-time contract on Crystal construction with ghost input (primitive description, integer supercell matrix, atom permutation, sub-threshold noise); bounded stand-in',
    text='Bounded: for catalogue crystals re-described in seeded supercells (|det| 2..3 quick, 2..6 thorough) with shuffled atoms, and for EVERY atom ordering of n x 1 cubic/square supercells, '
         'the constructed crystal has the same volume per atom, atoms per cell per species, a right-handed lattice and the same group order, and construction never raises.',
    note='The catalogue, matrix entries in [-2,2] and the listed n are the bound.')
CLAIMS['C22'] = dict(engine='rtc (E3)', category='exploration',
    technique='run-time postconditions of fullkptmesh/reducekptmesh (Brillouin-zone membership in a window, exact averages of invariant shell-cosine functions); bounded stand-in',
    text='Bounded: lattices of every 2D/3D system plus seeded triclinic cells, even/odd/mixed mesh sizes: every mesh point lies in the Brillouin zone, the mesh is a regular grid '
         'modulo the reciprocal lattice, reduced weights are positive, sum to one and reproduce the full-mesh average of invariant periodic functions to 1e-10.',
    note='Window of 9^d reciprocal vectors, six orbit shells of lattice vectors as test functions.')

CLAIMS['C23'] = dict(engine='symx (E4) + pyframe ownership typing (E2b) + rtc (E3)', category='proof',
    technique='contract-based: ownership contract of Crystal.__init__ (the stored lattice / basis are private copies); route-consistency identities as postconditions over ghost predicates crystal_ok/op_ok, discharged by executing the real module source on symbolic lattices/positions/operations (sympy normal forms, ideal membership), dimension 2 and 3',
    text='For all lattices, integer lattice vectors, in-cell positions and operations satisfying op_ok, in 2D and 3D: the coordinate conversions round-trip, '
         'g_pos/g_vect/g_cart/g_direc/g_tensor, PairState.g and ClusterSite.g give the same geometric result, products/inverses/lattice shifts of operations act '
         'as composition/inverse/shift, fromcrys and fromcrys_latt are mutually inverse. cart2pos and floating-point robustness are checked numerically on the catalogue (B).',
    note='Floats as reals; op_ok/crystal_ok are hypotheses (established by gengroup/__init__, run-time checked in C18); the real source is executed with one stated rewrite (.astype(int)) and a numpy shim for floor/round/inv/det.')
CLAIMS['C36'] = dict(engine='symx (E4) + rtc (E3) + structural AST contracts', category='other',
    technique='contract-based: structural contracts on the extracted __eq__/__ne__/__hash__ (exact-field conjunction, negation, hash over compared fields) for all instances; PairState arithmetic laws by symbolic execution of the real source; run-time laws on instance pools',
    text='PairState, ClusterSite and Cluster satisfy the equality/hash laws for all instances (structural proof) and the documented arithmetic identities incl. commutation with symmetry (symbolic, all inputs). '
         'GroupOp and vacancyThermoKinetics use tolerance equality by design: the equivalence-relation / hash clauses are genuinely violated there and are recorded as known findings with witnesses; any other violation is reported.',
    note='Level is "other" because the property does not hold for two types (known findings); structural patterns that are not recognised are reported undecided, never as violations.')

CLAIMS['C24'] = dict(engine='rtc (E3) + pyframe ownership typing (E2b)', category='exploration',
    technique='run-time postconditions of StarSet construction/addition/difference against a BFS + brute-force-orbit spec (bounded stand-in); ownership contracts of StarSet.copy / __iadd__ / __add__ on the extracted AST (a copy or sum shares no mutable container with its operands, nested lists are deep-copied: operands stay unchanged, for every history); PairState algebra it rests on is proved in C23/C36',
    text='Proved (every history): a copied or summed StarSet shares no mutable container with its operands. Bounded: on every catalogue crystal, ranges 1..2 (3 where small), with and without origin states: states equal the BFS-reachable non-zero states, stars are complete orbits, '
         'index lookups agree, s1+s2 equals generate(N1+N2) and leaves its operands unchanged, difference sets contain exactly the endpoint differences.',
    note='Catalogue and ranges are the bound.')
CLAIMS['C25'] = dict(engine='rtc (E3) + symx path enumeration (E4) + pyframe ownership typing (E2b)', category='exploration',
    technique='contract of Crystal.vectlist (frames of the origin-state vector stars) discharged symbolically for every unit vector and branch; ownership contract of Crystal.VectorBasis (what FullVectorBasis normalises in place is never stored state); run-time postconditions of VectorStarSet.generate/generateouter/GFexpansion with character-formula oracle and direct assembly (bounded stand-in)',
    text='Proved (every unit vector): Crystal.vectlist returns an orthonormal frame; VectorBasis hands out a new object on every call. Bounded: Gram matrix = 1, every vector star is an equivariant field on one complete star, their number equals the total invariant dimension of the stabilisers, '
         'outer products are direct sums, the GF expansion equals the projected directly assembled matrix.',
    note='rate/bias/bare expansions are only exercised end-to-end (C06); catalogue, N <= 2.')
CLAIMS['C26'] = dict(engine='pyvc (E1: AST -> VCs -> z3) + rtc (E3)', category='exploration',
    technique='contract of StarSet.symmequivjumplist, the builder of every omega1 / omega2 class (the jump first, each (initial, final) pair once, closed under reversal, the image under every operation present with its displacement, nothing else), discharged by z3 from the extracted source for every group action (uninterpreted) and every group size; run-time postconditions of jumpnetwork_omega1/omega2 and of the pruning in VacancyMediated.generate against brute-force enumeration (bounded stand-in)',
    text='Proved (every group action and size): symmequivjumplist lists the jump first, each (initial, final) pair once, is closed under reversal, contains the image under every operation and nothing else. Bounded: every vacancy jump with the solute fixed (resp. every exchange) inside the star set is in exactly one class; classes are closed under the space group and reversal; '
         'dx is the vacancy displacement; the pruned omega1 list is exactly the classes touching the thermodynamic range.',
    note='Catalogue crystals, Nthermo 1..2.')

CLAIMS['C31'] = dict(engine='symbolic execution of the real Cluster class on sympy lattice vectors (E4) + rtc (E3)', category='exploration',
    technique='identity of clusters: the real Cluster.__init__ / __eq__ / __hash__ run on sites with symbolic integer lattice vectors, invariance under a common symbolic translation and under every reordering of the non-special sites and the stored normal form decided by structural equality, for every label pattern of up to 4 sites and every kind of cluster (level S, all lattice vectors); run-time postcondition of makeclusters against brute-force enumeration; closure contracts on TS/vacancy clusters; Cluster identity laws (structural proof in C36)',
    text='Symbolic (all lattice vectors, label patterns of up to 4 sites): cluster equality and hash are invariant under a common translation and under reordering of the non-special sites. Bounded: catalogue crystals, first shells, order <= 3, with and without excluded species: generated cluster sets are exactly the site sets within the cutoff, each once, grouped in complete disjoint orbits; '
         'TS and vacancy cluster sets are closed under symmetry (and reversal); equality/hash are invariant under translation and reordering.',
    note='Catalogue, cutoffs and order are the bound.')
CLAIMS['C32'] = dict(engine='pyvc (E1: AST -> VCs -> z3) + rtc (E3)', category='exploration',
    technique='contracts of the site addressing every evaluator uses, ClusterSupercell.index and ciR (encode / decode pair: position = cell x sites-per-cell + site on the right sublattice stride, in range, and ciR of it returns the site and cell), discharged by z3 from the extracted source with proved integer division lemmas; run-time contract shared by the four evaluators against a brute-force cluster sum, exhaustive over occupations of small supercells (thorough)',
    text='Proved (all supercell sizes and site counts): ClusterSupercell.index / ciR are an encode / decode pair with the stride of the right sublattice. Bounded: on the sampler catalogue, for every (thorough) / sampled (quick) mobile occupation: cluster counter, index-matrix expansion, interaction-list evaluator and sampler energy equal the brute-force sum to 1e-10.',
    note='Sampler catalogue is the bound.')
CLAIMS['C34'] = dict(engine='pyvc (E1: AST -> VCs -> z3) + rtc (E3)', category='exploration',
    technique='contracts of the site addressing the barrier evaluators use (ClusterSupercell.index / ciR, encode / decode pair) discharged by z3 from the extracted source; run-time postcondition of MonteCarloSampler.transitions (detailed balance, reverse transition reported), exhaustive over occupations of small supercells (thorough)',
    text='Proved (all supercell sizes and site counts): the site addressing of the barrier evaluators (index / ciR) is an encode / decode pair. Bounded: for every occupation and every reported transition the final configuration reports the reverse transition with opposite displacement and Q - Q_rev = E_final - E_initial (1e-9), with KRA values, TS clusters, spectators, and a vacancy.',
    note='Sampler catalogue is the bound.')

CLAIMS['C02'] = dict(engine='symx-lf (E4b) + rtc (E3)', category='exploration',
    technique='contract clauses of Interstitial.diffusivity as exact rational-function identities: the real source executed on symbolic prefactors/energies per enumerated network (detailed balance, null vector, bias, D0, reduced solution solves the full bias equation); run-time postcondition against the full-site-basis CTMC spec function and the Green-function calculator as bounded stand-in',
    text='Bounded: on every catalogue crystal (solve and pinv branches, vector bases of dimension 0-6, 2D and 3D, rotated settings) with seeded data the interstitial diffusivity equals the exact long-time diffusivity to 1e-9 and GFCrystalcalc.D agrees to 1e-8. Known finding (thorough tier): GFCrystalcalc.SetRates refuses diffusivities more anisotropic than about 1e6.',
    note='CTMC formula trusted as definition; catalogue and seeded data are the bound.')
CLAIMS['C03'] = dict(engine='symx lazy fractions (E4b) + rtc (E3)', category='exploration',
    technique='interstitial tensors: the real Interstitial.diffusivity run on symbolic prefactors and energies (exact lazy-fraction scalars), symmetry in the Cartesian indices and invariance under every point-group rotation of D, its uncorrelated part and the barrier output decided as identities in all rates (coefficient tolerance 1e-9), one run per catalogue network (level S); self-certifying run-time postconditions (symmetry, point-group invariance, positive semidefiniteness) on both calculators; bounded stand-in with known findings',
    text='Symbolic (per catalogue network, all prefactors and energies): the interstitial D, its uncorrelated part and the barrier output are symmetric and invariant under every point-group rotation. Bounded: tensors returned by Interstitial.diffusivity / elastodiffusion and VacancyMediated.Lij over the catalogue with rate ratios up to e^8. Known findings: Lsv/L1vv asymmetric on low-symmetry crystals, Lss with a negative eigenvalue on one 2D cell.',
    note='Tolerances 1e-8 (1e-5 with origin states: integration accuracy).')
CLAIMS['C04'] = dict(engine='pyframe degree typing (E2) + symx-lf (E4b) + rtc (E3)', category='exploration',
    technique='reference-choice invariances (joint vacancy / solute prefactor scaling, energy-temperature co-scaling) and rate covariance as degree contracts checked statement by statement on the extracted AST of preene2betafree, _symmetricandescaperates, Lij, the Green-function calculator and the Interstitial rate functions (every sum, comparison, branch condition and cutoff relates equal degrees: all inputs, all crystals); relational contracts: for the interstitial calculator the real source is executed on symbolic data and shift / prefactor / rate-scaling invariances are decided as exact rational-function identities per enumerated network; relational run-time contracts (energy shifts, joint prefactor scaling, energy/temperature co-scaling, rate scaling; reused and fresh calculators) as bounded stand-in for both calculators',
    text='Bounded: the four invariances and rate covariance hold to 1e-7 on every catalogue calculator with seeded data, on a reused calculator and on a fresh one.',
    note='Clause (d) (intra-cell displacements) not covered.')
CLAIMS['C06'] = dict(engine='pyvc (E1) + pyframe degree typing (E2) + rtc (E3)', category='exploration',
    technique='maketracerpreene against its specification (AST->VC->z3, loop invariants, any number of classes); degree contract of Lij (the identities are about rate ratios); run-time postcondition of Lij under the tracer precondition as bounded stand-in',
    text='Bounded: Lsv = -L0vv, L1vv = 0, 0 <= Lss <= L0vv for seeded non-uniform vacancy data on the catalogue calculators (1e-9 algebraic / 1e-4 with origin states).',
    note='Nthermo 1 (quick).')
CLAIMS['C08'] = dict(engine='pyframe degree typing (E2) + rtc (E3)', category='exploration',
    technique='contract of Crystal.vectlist (origin-state frames) discharged symbolically for every unit vector; degree contract of VacancyMediated.Lij checked on the extracted AST (the test that selects the omega2 algorithm and every cutoff compare quantities of equal rate degree: the selection depends on rate ratios only, for all inputs); run-time postconditions of Lij over a grid of omega2 scales with both forced algorithms as bounded stand-in with known findings',
    text='Proved (every unit vector): Crystal.vectlist returns an orthonormal frame (origin-state vectors); the selection of the omega2 algorithm compares quantities of equal rate degree. Bounded: finiteness/symmetry of the default selection, agreement of the two algorithms for scales <= 1e6, smooth approach to the large-rate limit (1e-3). Known findings: drift at 1e15/1e16, blow-up and disagreement on crystals with origin states, disagreement on low-symmetry crystals.',
    note='Scale grid and catalogue are the bound; constants fixed in DESIGN.md.')
CLAIMS['C11'] = dict(engine='symx-lf (E4b) + rtc (E3)', category='exploration',
    technique='barrier output == -dD/dbeta decided symbolically (real source on symbolic prefactors/energies, exact polynomial arithmetic, coefficient tolerance for floating-point geometry) per enumerated network; run-time postconditions: barrier output vs 4th-order finite difference in beta; dipoles vs group-average projection spec; elastodiffusion vs finite difference of the exact CTMC diffusivity under strain; bounded stand-in',
    text='Bounded: on every catalogue crystal with seeded data and arbitrary non-symmetric input dipoles: Db = -dD/dbeta (1e-6), dipoles are the symmetric projection carried by symmetry (1e-9), elastodiffusion = dD/dstrain (1e-6).',
    note='Symbolic identity for solve-branch networks with at most 3 vector-basis functions; finite differences elsewhere and for elastodiffusion.')
CLAIMS['C12'] = dict(engine='rtc (E3)', category='exploration',
    technique='run-time postconditions of losstensors against an independently rebuilt rate matrix and the fluctuation sum rule; bounded stand-in',
    text='Bounded: positive mode rates that are eigenvalues of the symmetrised rate matrix, compliance symmetries, positive semidefiniteness, sum rule to 1e-9, on every catalogue crystal with seeded data and non-symmetric dipoles.',
    note='eigh completeness makes the sum rule algebraic; outside SMT/CAS reach.')

CLAIMS['C13'] = dict(engine='rtc (E3)', category='exploration',
    technique='run-time round-trip postconditions (exact equality) on addhdf5/loadhdf5 and the YAML representers/constructors through real in-memory HDF5 files and PyYAML; bounded stand-in',
    text='Bounded: reloaded vacancy-mediated calculators (saved before / after cache population, and re-saved) give bit-identical Lij, caches and tags; star sets, vector star sets, '
         'GF calculators and Taylor expansions round-trip through HDF5; crystals, group operations, pair states, cluster sites and all four kinds of clusters round-trip through YAML with equal hashes.',
    note='Catalogue crystals only; h5py and PyYAML trusted.')

CLAIMS['C14'] = dict(engine='pyframe ownership typing (E2b) + rtc (E3)', category='exploration',
    technique='ownership contracts of VacancyMediated.Lij checked statement by statement on the extracted AST (every returned array is fresh, memoised arrays are private or never handed out, no shared array is modified in place, the Green-function calculator only re-binds D and eta): for every call history; run-time history contracts (the result after any call/cache/regeneration history equals the result of a freshly built calculator) as bounded stand-in',
    text='Proved (every call history): what Lij returns shares no storage with state that outlives the call, memoised arrays are private or never handed out, no shared array is modified in place. Bounded: Lij is a function of its arguments alone over seeded histories (repeated calls, interleaved data sets, cache hits, regeneration to another range, saved-and-reloaded calculators), '
         'and inputs and cached arrays are not modified.',
    note='Catalogue crystals, seeded histories of bounded length.')

CLAIMS['C15'] = dict(engine='rtc (E3)', category='exploration',
    technique='run-time postconditions of generatetags / tags2preene / makeLIMBpreene: tag uniqueness, total coverage and LIMB back-fill identity against brute-force enumeration; bounded stand-in',
    text='Bounded: every symmetry-unique state and jump has exactly one tag, tags are distinct across classes, every class is covered, and data omitted from a tag dictionary is back-filled by the '
         'documented non-interacting / LIMB defaults.',
    note='Catalogue crystals, Nthermo 1..2.')

CLAIMS['C27'] = dict(engine='pyvc (E1: AST -> VCs -> z3) + rtc (E3)', category='exploration',
    technique='contract of Supercell.equivalencemap (soundness: a returned operation is one of the group and carries the occupation of self onto other, the returned mapping satisfies the reorder relation) discharged by z3 from the extracted source with loop invariants for the search, the occupation buffer and the mapping construction, for every supercell size, group and pair of occupations; run-time postconditions of Supercell construction and index/position maps against brute-force enumeration of the cell contents; bounded stand-in',
    text='Proved (all sizes, groups, occupations): an operation returned by equivalencemap is one of the group, carries self.occ onto other.occ, and the returned mapping satisfies the reorder relation. Bounded: size = |det| x sites, every lattice site maps to exactly one index and back, translations are a group of permutations, group operations map to site permutations, '
         'including left-handed and non-diagonal supercell matrices and in-place edit histories.',
    note='Catalogue crystals x seeded supercell matrices.')

CLAIMS['C16'] = dict(engine='symbolic execution of the real methods on sympy coefficient arrays (E4) + rtc (E3)', category='exploration',
    technique='symbolic-bounded: the real sumcoeff/coeffproductcoeff/tensorproductcoeff/scalarproductcoeff/truncate/slice methods run on symbolic coefficient arrays, postcondition decided as a polynomial identity by sympy for every operand structure with l = 0..4 and up to two terms; plus run-time postconditions V(result) = op(V(operands)) with frame / no-aliasing clauses on every Taylor3D/Taylor2D operation against an independently written evaluator; index tables decided exhaustively for the fixed Lmax against scipy harmonics; bounded stand-in',
    text='Bounded: sum, difference, negation, scalar / dictionary / matrix products, products of expansions, slices and slice assignment, truncation, reduction, collection, separation, in-place forms and '
         'construction from direction/matrix pairs commute with evaluation at sampled points for random expansions (n in -2..4, l <= 4, four value shapes), operands keep their values and share no storage with results; '
         'all index tables are checked exhaustively for Lmax = 4.',
    note='Floating point at relative 2e-9; scipy harmonics trusted.')

CLAIMS['C17'] = dict(engine='symx polynomial rings (E4) + rtc (E3)', category='exploration',
    technique='change of variables: the real rotatedirections / rotate / irotate run on a fully symbolic matrix and symbolic coefficients, postcondition value(rotated)(p) = value(original)(M p) decided as a polynomial identity over ZZ[M, p, c] for every (n, l) of the precondition in 2D and 3D, plus a structural obligation that rotatecoeff maps each entry on its own (level P); inversion: the real inv run on symbolic scalar / 2x2 coefficients, both products reduced to normal form modulo the unit-sphere and inverse-determinant relations, per enumerated structure (level S); floating point: run-time postconditions of rotatedirections/rotate/irotate (value at p equals original at M p) and inv (inverse times original is the identity through the requested order, both sides) against an independently written evaluator; bounded stand-in',
    text='Proved (every matrix, every expansion in the precondition): rotate / irotate give value(p) = original value(M p). Symbolic (per enumerated structure): inverse times original is the identity through the requested order, scalar and 2x2 values. Bounded: random invertible non-orthogonal, orthogonal, diagonal and permutation matrices, parity-consistent reduced and un-reduced expansions, three value shapes; inversion with lead order 0..2, requested order -1..2; 2D and 3D.',
    note='Floating point at relative 2e-9.')

CLAIMS['C29'] = dict(engine='rtc (E3)', category='exploration',
    technique='run-time postconditions of Interstitial.makesupercells and VacancyMediated.makesupercells stated from the tag strings (site-by-site occupancy, single moving atom, recorded mapping applied by hand, too-small warning); bounded stand-in',
    text='Bounded: on 3D catalogue crystals x diagonal, sheared, rotated, left-handed and too-small supercell matrices, every state cell has exactly the defects its tag names, transition pairs differ by one moving atom '
         'displaced by the jump modulo the cell, recorded mappings carry the named state onto the endpoint, missing mappings only when no state maps, cells in which kinetic-shell states coincide warn.',
    note='Nthermo = 1; Supercell is 3D only.')

CLAIMS['C30'] = dict(engine='rtc (E3)', category='exploration',
    technique='run-time postconditions of automator.supercelltar / map2string: archive read back with tarfile, POSCARs parsed by an independent reader, bundled trans.pl executed with perl on the archive\'s own files, Makefile rules parsed; bounded stand-in',
    text='Bounded: tag map is a bijection onto the state/transition directories, every POSCAR reads back to its supercell, trans.pl applied to a state structure with each transformation file reproduces the endpoint, '
         'every Makefile dependency exists or is a relaxed-state CONTCAR of an existing state directory, NEBlist files agree.',
    note='perl and tarfile trusted; nebmake.pl / Vasp.pm only checked for presence.')

CLAIMS['C10'] = dict(engine='pyframe degree typing (E2) + rtc (E3)', category='exploration',
    technique='uniform rate scaling as degree contracts of GFCrystalcalc.SymmRates / SetRates / Diffusivity / biascorrection / __call__ checked statement by statement on the extracted AST (G has rate degree -1, D degree +1, every stored table degree 0, for all inputs); run-time postconditions of GFCrystalcalc.SetRates/__call__ against independently computed rates: lattice diffusion equation (residual <= 1e-6, or small and shrinking under k-mesh refinement), endpoint swap, space-group invariance, uniform scaling, 3D continuum pole; bounded stand-in',
    text='Bounded: on catalogue crystals and purpose-built cases (diffusing species not listed first and permuted differently from species 0, every site its own network, equivalent and inequivalent disconnected networks) '
         'with seeded non-uniform site energies and rates, the Green function satisfies the lattice equation to the integration accuracy, is symmetric under endpoint swap, invariant under the space group, scales inversely with a uniform rate factor and approaches the continuum pole in 3D.',
    note='Default k-mesh; far field within 1/n at n = kptgrid/4 cells; the residual clause is skipped for the 8 kT data set (k-mesh under-resolved).')

NOT_APPLICABLE = {
    'C01': 'no contract within reach: the postcondition "equals the infinite-dilution limit of the exact Markov chain, to integration accuracy" needs an independent infinite-lattice solver as oracle (differential testing, a different technique) and no SMT/CAS obligation expresses a quadrature error; the discrete mechanisms it rests on are claimed in C24-C26, its invariances in C04, its sum rules in C06',
    'C05': 'a 2-safety statement about the Loewner order of two outputs (Rayleigh monotonicity): a variational theorem of detailed balance, not an invariant of any loop or a postcondition of one call; its only executable form is a numeric comparison of two runs (testing, not contract checking)',
    'C07': 'a relation between two separately constructed calculators whose equality is a theorem about truncating the Dyson expansion beyond the interaction range; no single-object invariant or per-call postcondition expresses it (tag back-fill is decided in C15, omega1 pruning in C26)',
    'C09': 'relational across two independently described crystals with data mapped by physical equivalence; a corollary of exactness (C01/C02) plus reduction (C19), not a contract on any function',
}
