"""C14 -- vacancy-mediated results depend only on their inputs, not on call history (run-time contracts, level B)."""
from vf.common import Report, finish, SEED
from vf.rtc import runner
from contracts import vacancy_rt as V


def main(tier):
    rep = Report('C14', tier)
    ids = [c for c in V.vac_ids(tier) if c not in ('P-4(S4 site)',)] if tier == 'quick' else V.vac_ids(tier)
    runner.run(rep, 'VacancyMediated::C14-contract', V.w_history, [(cid, tier, SEED, 'C14') for cid in ids], 'onsager/OnsagerCalc.py::VacancyMediated')
    from contracts import fresh_c
    fresh_c.run(rep)      # ownership contracts (level P): what Lij returns / memoises / modifies, for every call history
    from vf import extract
    for rel, q in [('onsager/OnsagerCalc.py', 'VacancyMediated.Lij'), ('onsager/OnsagerCalc.py', 'VacancyMediated.clearcache'), ('onsager/OnsagerCalc.py', 'VacancyMediated.generate'), ('onsager/OnsagerCalc.py', 'VacancyMediated.GFcalculator'), ('onsager/GFcalc.py', 'GFCrystalcalc.SetRates'), ('onsager/GFcalc.py', 'GFCrystalcalc.Diffusivity'), ('onsager/GFcalc.py', 'GFCrystalcalc.biascorrection')]:
        try:
            f = extract.get(rel, q); rep.under_contract(rel + '::' + q, rel, f.l0, f.l1)
        except KeyError: pass
    rep.gaps += ['level P covers the ownership side (returned arrays are fresh, memoised arrays are private or never handed out, no shared array is modified in place, the Green-function calculator re-binds D and eta); that a cache hit is only taken for an identical key, and that generate() / GFcalculator() clear the caches, is level B only', 'catalogue calculators, histories of 14 (quick) / 60 (thorough) steps']
    extra(rep, tier)
    return finish(rep, 'exploration', 'Seeded histories on real calculators over a pool of inputs (incl. two inputs sharing the Green-function cache key), interleaving calls, in-place edits of returned arrays, cache clears, range regeneration (generate; generatematrices) and save/reload; every result is compared with a fresh calculator (1e-11 relative); plus the A,B,A and miss-hit-edit-hit sequences.', './check C14 --tier ' + tier)


def extra(rep, tier):
    pass
