"""C34 -- kinetic barriers obey detailed balance (run-time contracts, level B)."""
from vf.common import Report, finish, SEED
from vf.rtc import runner, catalogue, samplers
from contracts import cluster_rt as M


def main(tier):
    rep = Report('C34', tier)
    n = len(samplers.cases(tier))
    runner.run(rep, 'MonteCarloSampler.transitions::detailed-balance', M.w_balance, [(i, tier, SEED) for i in range(n)], 'onsager/cluster.py::MonteCarloSampler.transitions')
    # site addressing used by the barrier evaluators under E1 contract (level P): index / ciR are an encode / decode pair
    from vf.pyvc import driver
    from contracts import clustersupercell_c as CS
    for c in CS.CONTRACTS: driver.verify_function(c(), rep, tier)
    for a in CS.Index.ABSTRACTED: rep.assume('ClusterSupercell.index contract, abstracted: ' + a)
    from vf import extract
    for rel, q in [('onsager/cluster.py', 'MonteCarloSampler.transitions'), ('onsager/supercell.py', 'ClusterSupercell.jumpnetworkevaluator'), ('onsager/supercell.py', 'ClusterSupercell.jumpnetworkevaluator_vacancy')]:
        try:
            f = extract.get(rel, q); rep.under_contract(rel + '::' + q, rel, f.l0, f.l1)
        except KeyError: pass
    M.annotate_C34(rep)
    return finish(rep, 'exploration', 'Postcondition of MonteCarloSampler.transitions: for every occupation of the small supercells and every reported transition the sampler of the final configuration reports the reverse transition with opposite displacement and Q - Q_reverse = E_final - E_initial; with KRA values and TS clusters, with and without a vacancy.', './check C34 --tier ' + tier)
