"""C21 -- jump networks are complete, closed and obstruction-aware (run-time contract vs brute-force spec, level B)."""
from vf.common import Report, finish, SEED
from vf.rtc import runner, catalogue
from contracts import crystal_rt as R


def main(tier):
    rep = Report('C21', tier)
    n = len(catalogue.builders(tier, SEED))
    runner.run(rep, 'Crystal.jumpnetwork::contract', R.w_jumps, [(i, tier, SEED) for i in range(n)] + [('close-pairs', tier, SEED)] + [('extra:' + x, tier, SEED) for x in ('rutile-TiO', 'rutile-OTi', 'n-glide-special-positions-AB', 'n-glide-two-species')], 'onsager/crystal.py::Crystal.jumpnetwork')
    from vf import extract
    for q in ('Crystal.jumpnetwork', 'Crystal.jumpnetwork2lattice'):
        f = extract.get('onsager/crystal.py', q); rep.under_contract('onsager/crystal.py::' + q, 'onsager/crystal.py', f.l0, f.l1)
    rep.assume('cutoffs and obstruction distances are drawn midway between distinct shell / perpendicular distances so that no case sits on a tolerance boundary')
    rep.trust('the brute-force spec (all (i, j, R) in a strictly larger lattice window; obstruction by the segment-distance criterion) is written independently of the code but not itself verified')
    rep.gaps.append('catalogue crystals, every species, first 2 (quick) / 3 (thorough) shells, scalar and per-species obstruction distances only')
    # maptranslation (the search behind every symmetry operation) under E1 contract (level P): a returned mapping really maps, for every
    # meaning of the two floating-point tests
    from vf.pyvc import driver
    from contracts import maptranslation_c as MT
    driver.verify_function(MT.MapTranslation(), rep, tier)
    for a in MT.MapTranslation.ABSTRACTED: rep.assume('maptranslation contract, abstracted: ' + a)
    return finish(rep, 'exploration',
                  'Postcondition of Crystal.jumpnetwork against a brute-force enumeration: same set of jumps, each once, classes are exactly the orbits '
                  'under the space group and reversal, obstructed jumps removed (scalar and per-species distances), lattice form encodes the same jumps.',
                  './check C21 --tier ' + tier)
