"""C06 -- tracer limit gives exact tracer identities (run-time contract, level B)."""
from vf.common import Report, finish, SEED
from vf.rtc import runner, catalogue
from contracts import interstitial_rt as I, vacancy_rt as V


# a site whose only symmetry is a mirror with a normal tilted away from every axis (planar vector basis in a general orientation)
EXTRA = ['mono-mirror-site-tilted-normal']


def main(tier):
    rep = Report('C06', tier)
    n = len(catalogue.builders(tier, SEED))
    runner.run(rep, 'VacancyMediated::contract', V.w_vacancy, [(cid, tier, SEED, 'C06') for cid in V.vac_ids(tier) + EXTRA], 'onsager/OnsagerCalc.py::VacancyMediated.Lij')

    from vf.pyvc import driver
    from contracts import tracer_c
    for c in tracer_c.C06_CONTRACTS: driver.verify_function(c(), rep, tier)      # E1: what the tracer data generator returns, for any number of classes
    from contracts import degree_c
    degree_c.run(rep, ['VacancyMediated.Lij', 'VacancyMediated._symmetricandescaperates'], replay=degree_c.replay_lij)     # the identities are statements about rate RATIOS: nothing in Lij may compare a rate with a fixed number
    from vf import extract
    for rel, q in [('onsager/OnsagerCalc.py', 'VacancyMediated.maketracerpreene'), ('onsager/OnsagerCalc.py', 'VacancyMediated.Lij')]:
        try:
            f = extract.get(rel, q); rep.under_contract(rel + '::' + q, rel, f.l0, f.l1)
        except KeyError: pass
    annotate(rep)
    return finish(rep, 'exploration', 'Postcondition of VacancyMediated.Lij under the precondition "inputs come from maketracerpreene": Lsv = -L0vv, L1vv = 0, 0 <= Lss <= L0vv, for seeded non-uniform vacancy energies / prefactors per Wyckoff set and per omega0 class. Tolerance 1e-9 (algebraic) for crystals without origin states, 1e-4 (Green-function integration accuracy) with origin states.', './check C06 --tier ' + tier)


def annotate(rep):
    rep.gaps.append('Nthermo = 1 only in the quick tier; catalogue calculators')
