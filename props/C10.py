"""C10 -- the lattice Green function solves the diffusion equation (run-time contracts, level B)."""
from vf.common import Report, finish, SEED
from vf.rtc import runner
from contracts import gf_rt as G


def main(tier):
    rep = Report('C10', tier)
    runner.run(rep, 'GFCrystalcalc::C10-contract', G.w_gf, [(cid, tier, SEED) for cid in G.ids(tier)], 'onsager/GFcalc.py::GFCrystalcalc.__call__')
    from contracts import degree_c
    degree_c.run(rep, [k for k in degree_c.CONTRACTS if k.startswith('GFCrystalcalc.')])      # uniform rate scaling: G has degree -1, D degree +1, for all inputs
    from vf import extract
    for q in ('GFCrystalcalc.__init__', 'GFCrystalcalc.SetRates', 'GFCrystalcalc.__call__', 'GFCrystalcalc.BreakdownGroups', 'GFCrystalcalc.SymmRates', 'GFCrystalcalc.DiagGamma', 'GFCrystalcalc.Diffusivity',
              'GFCrystalcalc.BlockRotateOmegaTaylor', 'GFCrystalcalc.BlockInvertOmegaTaylor', 'GFCrystalcalc.FourierTransformJumps', 'GFCrystalcalc.TaylorExpandJumps', 'GFCrystalcalc.networkcount', 'Fnl_p', 'Fnl_u'):
        try:
            f = extract.get('onsager/GFcalc.py', q); rep.under_contract('onsager/GFcalc.py::' + q, 'onsager/GFcalc.py', f.l0, f.l1)
        except KeyError: pass
    rep.assume('integration accuracy: residual of the lattice equation <= 1e-6 (the tolerance of the repository\'s own Green-function tests); swap / group / scaling identities at relative 1e-9',
               ) if False else rep.assume('integration accuracy: residual of the lattice equation <= 1e-6 (the tolerance of the repository\'s own Green-function tests); swap / group / scaling identities at relative 1e-9')
    rep.gaps += ['catalogue crystals plus six purpose-built cases (diffusing species not first and permuted differently, every site its own network, mixed networks); default k-mesh (Nmax = 4)',
                 'far field: 3D, one connected network, at kptgrid/4 cells along each lattice direction, within 1/n of the continuum pole at n cells, data sets with energy spread <= 1 kT (a bound on an asymptotic statement, not an identity)',
                 'endpoint pairs: all sites x neighbouring cells (-1..1), 10 (quick) / 40 (thorough) sampled per data set']
    return finish(rep, 'exploration',
                  'Postconditions of SetRates + __call__ against rates, escape rates and site probabilities computed independently from the thermodynamic data: the lattice diffusion equation (residual <= 1e-6), '
                  'endpoint-swap symmetry, invariance under every space-group operation, inverse scaling with a uniform rate factor and invariance under a uniform energy shift (relative 1e-9), and the 3D continuum pole '
                  'at the largest separation the k-mesh resolves.',
                  './check C10 --tier ' + tier)
