"""C35 -- the compiled sampler behaves exactly like the reference sampler."""
import time, multiprocessing as mp
from vf.common import Report, finish, Ob, SEED
from vf.pyvc import driver
from contracts import cluster_jit_c as C, sampler_jit_hist as H


def main(tier):
    from vf.rtc import samplers
    rep = Report('C35', tier)
    for c in (C.StartJC, C.EnergyJC, C.UpdateJC, C.TransitionsJC, C.DeltaEJC):
        driver.verify_function(c(), rep, tier)
    cases = samplers.cases(tier)
    t = time.time()
    with mp.get_context('fork').Pool(min(16, len(cases))) as pool:
        res = pool.map(H.run_case, [(i, tier, SEED) for i in range(len(cases))])
    fq = 'onsager/cluster.py::MonteCarloSampler_jit'
    for (label, _), (n, nsig, sample, viol) in zip(cases, res):
        rep.b_evals += n
        for k in range(nsig): rep.b_cases.add((label, k))
        if sample: rep.sample(sample)
        name = 'MonteCarloSampler_jit::relational-history[%s]' % label
        if viol:
            rep.add(Ob(name, 'B', 'fail', 'rtc', time.time() - t, 'clause %s violated: %s' % (viol['clause'], viol['detail']),
                       witness=dict(viol, replayed=True, signature=viol['clause']), function=fq))
        else:
            rep.add(Ob(name, 'B', 'ok', 'rtc', time.time() - t, '%d operations, %d distinct cases' % (n, nsig), function=fq))
    rep.assume('numba executes the jitclass body with Python semantics on int64/float64 without overflow (the @jitclass decorator is dropped by extraction)',
               'python ints are mathematical; energies are mathematical reals; np.inf is an uninterpreted real constant compared only for equality',
               'the immutable tables satisfy static_ok and interactrange is non-decreasing with interactrange[-1] the start of the first range: '
               'established by MonteCarloSampler_param / the reference constructor, checked at run time only')
    rep.trust('pyvc encoder model of numpy 1-D/2-D integer array load/store (CPython negative-index semantics), a[:] = c, range loops',
              'z3 recursive-function definitions of the ghost sums (shared with the reference sampler contracts of C33)',
              'ast extraction from the current working tree')
    rep.gaps += ['deltaE_trial (early break justified by ascending rows), MCmoves, copy and MonteCarloSampler_param are compared with the reference '
                 'at run time only (level B) on real numba objects over the catalogue',
                 'float sums are compared as reals (P) / to 1e-9 relative (B): the two samplers add in different orders']
    return finish(rep, 'proof',
                  'start/E/update/transitions of the compiled sampler are proved, for all tables and occupations, against the SAME ghost '
                  'specification (count, esum, rsum) that the reference sampler is proved against in C33, plus the index/set coupling invariant; '
                  'equal occupations therefore give equal counts, energies and barriers, with forbidden transitions +inf. '
                  'The remaining methods and the real numba objects are checked relationally at run time (B).',
                  './check C35 --tier ' + tier)
