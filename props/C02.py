"""C02 -- interstitial diffusivity equals the exact long-time diffusivity (run-time contract, level B)."""
from vf.common import Report, finish, SEED
from vf.rtc import runner, catalogue
from contracts import interstitial_rt as I, vacancy_rt as V, interstitial_sx as IS


def main(tier):
    rep = Report('C02', tier)
    n = len(catalogue.builders(tier, SEED)) + len(catalogue.interstitial_extras(tier, SEED))
    runner.run(rep, 'Interstitial::contract', I.w_interstitial, [(i, tier, SEED, 'C02') for i in range(n)], 'onsager/OnsagerCalc.py::Interstitial.diffusivity')

    IS.run_all(rep, tier, 'C02:')

    from vf import extract
    for rel, q in [('onsager/OnsagerCalc.py', 'Interstitial.diffusivity'), ('onsager/OnsagerCalc.py', 'Interstitial.siteprob'), ('onsager/OnsagerCalc.py', 'Interstitial.ratelist'), ('onsager/OnsagerCalc.py', 'Interstitial.symmratelist'), ('onsager/OnsagerCalc.py', 'Interstitial.__init__'), ('onsager/crystal.py', 'Crystal.FullVectorBasis'), ('onsager/GFcalc.py', 'GFCrystalcalc.SetRates'), ('onsager/GFcalc.py', 'GFCrystalcalc.Diffusivity')]:
        try:
            f = extract.get(rel, q); rep.under_contract(rel + '::' + q, rel, f.l0, f.l1)
        except KeyError: pass
    annotate(rep)
    return finish(rep, 'exploration', 'Postcondition of Interstitial.diffusivity: equals the textbook full-site-basis CTMC formula D0 + b^T W^+ b (numpy pinv on the N x N symmetrised rate matrix, no symmetry reduction) to 1e-9 relative, and GFCrystalcalc reports the same D, on every catalogue crystal (with and without inversion, solve and pinv branches, vector bases of dimension 0..6) with seeded energies/prefactors.', './check C02 --tier ' + tier)


def annotate(rep):
    rep.trust('the CTMC long-time diffusivity formula (theory taken as definition)')
    rep.gaps.append('level S (symbolic, all prefactors and energies) covers, per enumerated network: detailed balance, the null vector, the bias, D0, and -- for networks on the solve branch with at most %d vector-basis functions -- that the symmetry-reduced solution solves the full bias equation and the returned D is D0 + bias.Gamma; the pseudo-inverse branch, larger bases and the Green-function calculator are level B only' % IS.MAX_NV)
    rep.gaps.append('catalogue crystals and seeded data only (3 data sets quick / 10 thorough per crystal, energy spread up to 4 kT... 12 kT)')
