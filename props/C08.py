"""C08 -- the two omega2 algorithms agree and stay finite for extreme rates (run-time contract, level B)."""
from vf.common import Report, finish, SEED
from vf.rtc import runner, catalogue
from contracts import interstitial_rt as I, vacancy_rt as V


def main(tier):
    rep = Report('C08', tier)
    n = len(catalogue.builders(tier, SEED))
    runner.run(rep, 'VacancyMediated::contract', V.w_vacancy, [(cid, tier, SEED, 'C08') for cid in V.vac_ids(tier) + ['mono-mirror-site-tilted-normal']], 'onsager/OnsagerCalc.py::VacancyMediated.Lij')      # + a mirror-only site with a tilted normal (planar vector basis in a general orientation)

    from contracts import degree_c
    degree_c.run(rep, ['VacancyMediated.Lij'], replay=degree_c.replay_lij)

    from vf import extract
    for rel, q in [('onsager/OnsagerCalc.py', 'VacancyMediated.Lij')]:
        try:
            f = extract.get(rel, q); rep.under_contract(rel + '::' + q, rel, f.l0, f.l1)
        except KeyError: pass
    annotate(rep)
    from contracts import vectlist_sx
    vectlist_sx.run(rep)      # contract of Crystal.vectlist (orthonormal frame of a site's vector basis), symbolic, every unit vector, both branches
    return finish(rep, 'exploration', 'Postconditions of VacancyMediated.Lij with omega2 prefactors scaled by 1e-3 ... 1e16: default selection finite and symmetric; forced large-rate and forced standard algorithm agree to 1e-7 for scales <= 1e6; every tensor at scale >= 1e12 within 1e-3 of its value at 1e10 (constants fixed in DESIGN.md before the contract existed).', './check C08 --tier ' + tier)


def annotate(rep):
    rep.gaps.append('catalogue calculators and the stated scale grid only')
