"""C24 -- star sets are complete symmetry orbits of reachable pair states (run-time contracts, level B)."""
from vf.common import Report, finish, SEED
from vf.rtc import runner, catalogue
from contracts import stars_rt as M


def main(tier):
    rep = Report('C24', tier)
    n = len(catalogue.builders(tier, SEED))
    runner.run(rep, 'StarSet::contract', M.w_starset, [(i, tier, SEED) for i in range(n)], 'onsager/crystalStars.py::StarSet')
    from vf import extract
    for q in ['StarSet.generate', 'StarSet.__add__', 'StarSet.__iadd__', 'StarSet.copy', 'StarSet.diffgenerate', 'StarSet.stateindex', 'StarSet.starindex']:
        try:
            f = extract.get('onsager/crystalStars.py', q); rep.under_contract('onsager/crystalStars.py' + '::' + q, 'onsager/crystalStars.py', f.l0, f.l1)
        except KeyError: pass
    from contracts import fresh_c
    fresh_c.run(rep, contracts=fresh_c.STARSET_CONTRACTS, class_fields=[])      # ownership contracts (level P): copies / sums share no mutable container with their operands
    M.annotate_C24(rep)
    return finish(rep, 'exploration', 'Postconditions of StarSet construction / addition / difference against a BFS spec of reachable non-zero pair states and brute-force orbits under the space group, on every catalogue crystal (ranges 1..2, 3 where small), with and without origin states; operands of an addition stay unchanged.', './check C24 --tier ' + tier)
