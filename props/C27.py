"""C27 -- supercell symmetry and equivalence mapping are sound and complete (run-time contracts, level B)."""
from vf.common import Report, finish, SEED
from vf.rtc import runner
from contracts import supercell_rt as M


def main(tier):
    rep = Report('C27', tier)
    n = len(M.super_configs(tier))
    runner.run(rep, 'Supercell::symmetry-and-equivalence-contract', M.w_supercell, [(i, tier, SEED) for i in range(n)], 'onsager/supercell.py::Supercell.equivalencemap')
    from vf import extract
    for q in ('Supercell.gengroup', 'Supercell.maketrans', 'Supercell.equivalencemap', 'Supercell.__imul__', 'Supercell.reorder', 'Supercell.defectindices'):
        f = extract.get('onsager/supercell.py', q); rep.under_contract('onsager/supercell.py::' + q, 'onsager/supercell.py', f.l0, f.l1)
    rep.gaps.append('five (quick) / eight (thorough) supercells incl. non-diagonal matrices, interstitial sublattice and several solutes; seeded occupations with 1-3 defects; '
                    '__imul__ and reorder are proved in C28; equivalencemap itself (dictionary of defect names, for/continue/break search) is outside the encoder subset')
    return finish(rep, 'exploration',
                  'Run-time contracts: every supercell operation is a site permutation consistent with the geometry and the sublattices; equivalencemap returns an '
                  'operation and reordering that transform one occupation into the other exactly when brute force over the group finds one, and None otherwise.',
                  './check C27 --tier ' + tier)
