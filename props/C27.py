"""C27 -- supercell symmetry and equivalence mapping: soundness of equivalencemap proved (E1, level P), the rest run-time contracts (level B)."""
from vf.common import Report, finish, SEED
from vf.rtc import runner
from contracts import supercell_rt as M, supercell_c as C
from vf.pyvc import driver


def main(tier):
    rep = Report('C27', tier)
    n = len(M.super_configs(tier))
    runner.run(rep, 'Supercell::symmetry-and-equivalence-contract', M.w_supercell, [(i, tier, SEED) for i in range(n)], 'onsager/supercell.py::Supercell.equivalencemap')
    # soundness of equivalencemap (level P): the search loop, the occupation test and the construction of the mapping, for every supercell
    # size, every group and every pair of occupations
    driver.verify_function(C.EquivalenceMap(), rep, tier)
    for a in C.EquivalenceMap.ABSTRACTED: rep.assume('Supercell.equivalencemap contract, abstracted: ' + a)
    rep.assume('Supercell.equivalencemap contract, precondition: every operation of self.G carries a one-to-one map of range(len(occ)) into itself (checked at run time by this property, clause "operations are site permutations"); both supercells list the same number of species')
    from vf import extract
    for q in ('Supercell.gengroup', 'Supercell.maketrans', 'Supercell.equivalencemap', 'Supercell.__imul__', 'Supercell.reorder', 'Supercell.defectindices'):
        f = extract.get('onsager/supercell.py', q); rep.under_contract('onsager/supercell.py::' + q, 'onsager/supercell.py', f.l0, f.l1)
    rep.gaps.append('five (quick) / eight (thorough) supercells incl. non-diagonal matrices, interstitial sublattice and several solutes; seeded occupations with 1-3 defects; '
                    '__imul__ and reorder are proved in C28; equivalencemap: soundness of every returned answer is proved (E1) from `mapping = None` on, completeness (an equivalent pair is found) and the defect-count pre-filter are run-time only')
    return finish(rep, 'exploration',
                  'Run-time contracts: every supercell operation is a site permutation consistent with the geometry and the sublattices; equivalencemap returns an '
                  'operation and reordering that transform one occupation into the other exactly when brute force over the group finds one, and None otherwise.',
                  './check C27 --tier ' + tier)
