"""C33 -- Monte-Carlo sampler state is a function of the occupation."""
import time, multiprocessing as mp
from vf.common import Report, finish, Ob, SEED
from vf.pyvc import driver
from contracts import cluster_c as C, sampler_hist as H


def main(tier):
    from vf.rtc import samplers
    rep = Report('C33', tier)
    for c in (C.StartC, C.EnergyC, C.UpdateC, C.DeltaE):
        driver.verify_function(c(), rep, tier)
    cases = samplers.cases(tier)
    t = time.time()
    with mp.get_context('fork').Pool(min(16, len(cases))) as pool:
        res = pool.map(H.run_case, [(i, tier, SEED) for i in range(len(cases))])
    fq = 'onsager/cluster.py::MonteCarloSampler'
    for (label, _), (n, nsig, sample, viol) in zip(cases, res):
        rep.b_evals += n
        for k in range(nsig): rep.b_cases.add((label, k))
        if sample: rep.sample(sample)
        name = 'MonteCarloSampler::history-invariant[%s]' % label
        if viol:
            rep.add(Ob(name, 'B', 'fail', 'rtc', time.time() - t, 'clause %s violated: %s' % (viol['clause'], viol['detail']),
                       witness=dict(viol, replayed=True, signature=viol['clause']), function=fq))
        else:
            rep.add(Ob(name, 'B', 'ok', 'rtc', time.time() - t, '%d operations, %d distinct (occupation, update) cases' % (n, nsig), function=fq))
    rep.assume('python ints are mathematical; numpy integer arrays do not overflow; interaction values are mathematical reals in the E() obligation',
               'the immutable tables satisfy static_ok (Ninteract within the row, interaction indices within range): established by '
               '__init__/clusterevaluator, checked at run time on every catalogue sampler (level B), not proved',
               'start() keeps the caller\'s occupation array itself; a caller who edits it afterwards is outside the history alphabet (start/update)')
    rep.trust('pyvc encoder model of CPython/numpy primitives (list append, set add/remove/in, zip, 2-D integer array rows, slices a[:n])',
              'z3 recursive-function definitions for the ghost sums (mult, count, esum) and z3 on the queries posed',
              'ast extraction from the current working tree')
    rep.gaps += ['deltaE_trial: the dictionary accumulation loop is outside the encoder subset; its contract (trial = realised energy change for '
                 'duplicate-free disjoint site lists; pure) is evaluated at run time only (level B): every small table/occupation/pair of site lists, '
                 'and every single + sampled double update on the catalogue samplers',
                 'transitions() belongs to C34']
    return finish(rep, 'proof',
                  'Invariant I (clustercount = sum over unoccupied sites of interaction multiplicities; occupied/unoccupied sets = level sets of occ) is '
                  'proved to be established by start() and preserved by update() for arbitrary site lists, all table shapes and all occupations '
                  '(loop invariants, ghost recursive sums, single-point-update lemma proved by induction); E() is proved to be a function of '
                  '(clustercount, values) only. Hence after any start/update history the state and energy equal those of a fresh start. '
                  'deltaE_trial and the constructor-established table invariant are run-time contracts (B).',
                  './check C33 --tier ' + tier)
