"""C25 -- vector-star bases are orthonormal, equivariant and complete (run-time contracts, level B)."""
from vf.common import Report, finish, SEED
from vf.rtc import runner, catalogue
from contracts import stars_rt as M


def main(tier):
    rep = Report('C25', tier)
    n = len(catalogue.builders(tier, SEED))
    runner.run(rep, 'VectorStarSet::contract', M.w_vstars, [(i, tier, SEED) for i in range(n)], 'onsager/crystalStars.py::VectorStarSet')
    from vf import extract
    for q in ['VectorStarSet.generate', 'VectorStarSet.generateouter', 'VectorStarSet.GFexpansion']:
        try:
            f = extract.get('onsager/crystalStars.py', q); rep.under_contract('onsager/crystalStars.py' + '::' + q, 'onsager/crystalStars.py', f.l0, f.l1)
        except KeyError: pass
    from contracts import fresh_c
    fresh_c.run(rep, contracts=fresh_c.VECTORBASIS_CONTRACTS, class_fields=[])     # ownership (level P): Crystal.VectorBasis hands out a new object on every call
    M.annotate_C25(rep)
    from contracts import vectlist_sx
    vectlist_sx.run(rep)      # contract of Crystal.vectlist (orthonormal frame of a site's vector basis), symbolic, every unit vector, both branches
    return finish(rep, 'exploration', 'Postconditions of VectorStarSet.generate / generateouter / GFexpansion: Gram matrix = 1, each vector star is an equivariant field on one complete star, count = total invariant dimension of the stabilisers (character formula), outer = direct sums, GF expansion = projection of the directly assembled state-space matrix for seeded values.', './check C25 --tier ' + tier)
