"""C23 -- coordinate conversions and symmetry actions are mutually consistent."""
from vf.common import Report, finish, SEED
from vf.rtc import runner, catalogue
from contracts import coords_sx, coords_rt


def main(tier):
    rep = Report('C23', tier)
    coords_sx.run_all(rep)
    n = len(catalogue.builders(tier, SEED))
    runner.run(rep, 'Crystal::route-consistency-numeric', coords_rt.w_routes, [(i, tier, SEED) for i in range(n)], 'onsager/crystal.py::Crystal')
    from vf import extract
    for rel, qs in (('onsager/crystal.py', ('incell', 'inhalf', 'Crystal.pos2cart', 'Crystal.unit2cart', 'Crystal.cart2unit', 'Crystal.cart2pos', 'Crystal.g_direc',
                                             'Crystal.g_tensor', 'Crystal.g_pos', 'Crystal.g_vect', 'Crystal.g_cart', 'GroupOp.__mul__', 'GroupOp.__add__',
                                             'GroupOp.__sub__', 'GroupOp.inv')),
                    ('onsager/crystalStars.py', ('PairState.g', 'PairState.fromcrys', 'PairState.fromcrys_latt', 'PairState.__add__', 'PairState.__neg__',
                                                 'PairState.__sub__', 'PairState.__xor__')),
                    ('onsager/cluster.py', ('ClusterSite.g',))):
        for q in qs:
            try:
                f = extract.get(rel, q); rep.under_contract('%s::%s' % (rel, q), rel, f.l0, f.l1)
            except KeyError: pass
    rep.assume('floats are mathematical reals in the P obligations (np.round / astype(int) are applied to exact integers under op_ok; the numeric companion exercises floating point)',
               'op_ok(g): rot integer, cartrot = lattice.rot.lattice^-1 (and orthogonal), atoms mapped up to integer lattice vectors, det(rot) = +-1: '
               'established by gengroup, checked at run time in C18',
               'crystal_ok: invlatt = lattice^-1, basis coordinates in the range of incell (established by Crystal.__init__)')
    rep.trust('E4 executes the real module source with the rewrite `.astype(int)` -> integer-valuedness obligation + identity, and the numpy shim for floor/round/inv/det on symbolic arrays',
              'sympy: expand / cancel / together normal forms and polynomial reduction (ideal membership) for det(rot) = +-1')
    rep.gaps += ['O4 (cart2pos) and O15 (ranges of incell/inhalf) branch on / state inequalities with tolerances: checked numerically only (B)',
                 'cartrot orthogonality is part of op_ok (hypothesis), so "inv().cartrot = cartrot^T is the inverse rotation" rests on it']
    from contracts import fresh_c
    fresh_c.run(rep, contracts=fresh_c.CRYSTAL_CONTRACTS, class_fields=[])      # ownership (level P): the crystal shares no array with its constructor arguments
    return finish(rep, 'proof',
                  'Each identity between two routes (lattice / unit-cell / Cartesian conversions; g_pos, g_vect, g_cart, g_direc, g_tensor; products, inverses and '
                  'lattice shifts of operations; PairState.g, ClusterSite.g, fromcrys/fromcrys_latt) is discharged as "difference has normal form 0" by '
                  'executing the real source on fully symbolic lattices, positions and operations, for dimension 2 and 3 (the whole domain).',
                  './check C23 --tier ' + tier)
