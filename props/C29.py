"""C29 -- calculation-setup supercells contain the right defects and mappings (run-time contracts, level B)."""
from vf.common import Report, finish, SEED
from vf.rtc import runner
from contracts import setup_rt as S

CRYS_Q = ['FCC', 'BCC', 'HCP', 'B2', 'HCP+OT', 'ortho2site', 'wurtzite+X', 'mono-P2/m-rotated', 'host-2wyckoff+X']
CRYS_T = CRYS_Q + ['SC', 'diamond', 'L12', 'omega', 'tric-P-1', 'HCP-rotated', 'P-4(S4 site)', 'mono-P2/m']
SUP_Q = ['3x3x3', 'sheared', 'rot-hex', '2x2x2', '5x5x3', 'left-handed']
SUP_T = list(S.SUPERS)


def main(tier):
    rep = Report('C29', tier)
    crys = CRYS_Q if tier == 'quick' else CRYS_T
    sups = SUP_Q if tier == 'quick' else SUP_T
    args = [(c, s, tier, SEED, k) for k in ('interstitial', 'vacancy') for c in crys for s in sups]
    if tier == 'quick':      # curated: a supercell that breaks the symmetry relating states of L1_2, and cells of a single unit cell
        args += [('L12', 'sheared', tier, SEED, 'interstitial'), ('L12', '4x3x3', tier, SEED, 'interstitial'), ('FCC', '1x1x1', tier, SEED, 'interstitial'), ('HCP', '1x1x1', tier, SEED, 'vacancy')]
    runner.run(rep, 'makesupercells-contract', S.w_setup, args, 'onsager/OnsagerCalc.py::VacancyMediated.makesupercells')
    from vf import extract
    for q in ('Interstitial.makesupercells', 'VacancyMediated.makesupercells'):
        f = extract.get('onsager/OnsagerCalc.py', q); rep.under_contract('onsager/OnsagerCalc.py::' + q, 'onsager/OnsagerCalc.py', f.l0, f.l1)
    f = extract.get('onsager/supercell.py', 'Supercell.equivalencemap'); rep.under_contract('onsager/supercell.py::Supercell.equivalencemap', 'onsager/supercell.py', f.l0, f.l1)
    rep.assume('tags name positions to three decimals: a site is identified with a tag position when within 6e-3 in unit-cell coordinates')
    rep.gaps += ['3D catalogue crystals only (the Supercell class is 3D only); Nthermo = 1; %d crystals x %d supercell matrices x 2 calculators' % (len(crys), len(sups)),
                 'the too-small warning is required when two kinetic-shell states coincide in the cell, and forbidden when every separation is below half the smallest cell height; in between either is accepted']
    return finish(rep, 'exploration',
                  'Postconditions of makesupercells for both calculators, stated from the tag strings: each state cell has exactly the named defects at the named sites, each transition pair differs by '
                  'one moving atom of the right species displaced by the jump modulo the cell, each recorded (state, operation, mapping) carries the named state onto the endpoint, a missing mapping occurs '
                  'only when no generated state can be mapped, the reference cell is defect free, and cells in which kinetic-shell states coincide warn.',
                  './check C29 --tier ' + tier)
