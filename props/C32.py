"""C32 -- all cluster-expansion evaluators agree on every configuration (run-time contracts, level B)."""
from vf.common import Report, finish, SEED
from vf.rtc import runner, catalogue, samplers
from contracts import cluster_rt as M


def main(tier):
    rep = Report('C32', tier)
    n = len(samplers.cases(tier))
    runner.run(rep, 'ClusterSupercell::evaluators-agree', M.w_evaluators, [(i, tier, SEED) for i in range(n)], 'onsager/supercell.py::ClusterSupercell')
    # site addressing under E1 contract (level P): index / ciR are an encode / decode pair, for every supercell size and site count
    from vf.pyvc import driver
    from contracts import clustersupercell_c as CS
    for c in CS.CONTRACTS: driver.verify_function(c(), rep, tier)
    for a in CS.Index.ABSTRACTED: rep.assume('ClusterSupercell.index contract, abstracted: ' + a)
    rep.assume('ClusterSupercell.index / ciR contracts, representation invariant (precondition, checked on real objects at run time): indexmobile / indexspectator enumerate mobileindices / spectatorindices, transdict enumerates the cells in the order of Rveclist')
    from vf import extract
    for rel, q in [('onsager/supercell.py', 'ClusterSupercell.evalcluster'), ('onsager/supercell.py', 'ClusterSupercell.expandcluster_matrices'), ('onsager/supercell.py', 'ClusterSupercell.clusterevaluator'), ('onsager/cluster.py', 'MonteCarloSampler.__init__'), ('onsager/cluster.py', 'MonteCarloSampler.E')]:
        try:
            f = extract.get(rel, q); rep.under_contract(rel + '::' + q, rel, f.l0, f.l1)
        except KeyError: pass
    M.annotate_C32(rep)
    return finish(rep, 'exploration', 'Postcondition shared by evalcluster, expandcluster_matrices, clusterevaluator + MonteCarloSampler.E: each equals a brute-force sum over clusters (independent site lookup through positions), on small real cluster supercells, for every mobile occupation (thorough) / a seeded sample (quick), with spectators and with a fixed vacancy.', './check C32 --tier ' + tier)
