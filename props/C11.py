"""C11 -- interstitial derivative outputs are true derivatives (run-time contract, level B)."""
from vf.common import Report, finish, SEED
from vf.rtc import runner, catalogue
from contracts import interstitial_rt as I, vacancy_rt as V, interstitial_sx as IS


def main(tier):
    rep = Report('C11', tier)
    n = len(catalogue.builders(tier, SEED)) + len(catalogue.interstitial_extras(tier, SEED))
    runner.run(rep, 'Interstitial::contract', I.w_interstitial, [(i, tier, SEED, 'C11') for i in range(n)], 'onsager/OnsagerCalc.py::Interstitial.diffusivity')

    IS.run_all(rep, tier, 'C11:')

    from vf import extract
    for rel, q in [('onsager/OnsagerCalc.py', 'Interstitial.diffusivity'), ('onsager/OnsagerCalc.py', 'Interstitial.elastodiffusion'), ('onsager/OnsagerCalc.py', 'Interstitial.siteDipoles'), ('onsager/OnsagerCalc.py', 'Interstitial.jumpDipoles'), ('onsager/OnsagerCalc.py', 'Interstitial.generateSiteSymmTensorBasis'), ('onsager/OnsagerCalc.py', 'Interstitial.generateJumpSymmTensorBasis'), ('onsager/crystal.py', 'ProjectTensorBasis')]:
        try:
            f = extract.get(rel, q); rep.under_contract(rel + '::' + q, rel, f.l0, f.l1)
        except KeyError: pass
    annotate(rep)
    return finish(rep, 'exploration', 'Postconditions of Interstitial.diffusivity(CalcDeriv=True), siteDipoles, jumpDipoles and elastodiffusion: barrier output equals -dD/dbeta (4th-order finite difference, 1e-6), populated dipoles are the symmetric projection on the representative (group average over the stabiliser incl. reversing operations) carried by symmetry to every member (1e-9, arbitrary non-symmetric inputs), elastodiffusion equals the central finite difference of the exact CTMC diffusivity under strain with energies coupled through the populated dipoles (1e-6).', './check C11 --tier ' + tier)


def annotate(rep):
    rep.gaps.append('level S: barrier output == -dD/dbeta as an identity in all prefactors and energies (coefficient tolerance 1e-9) for enumerated networks on the solve branch with at most %d vector-basis functions; elastodiffusion and dipole population are level B (finite differences / group averages)' % IS.MAX_NV)
