"""C15 -- tag input maps exactly onto symmetry classes (run-time contracts, level B)."""
from vf.common import Report, finish, SEED
from vf.rtc import runner
from contracts import vacancy_rt as V


def main(tier):
    rep = Report('C15', tier)
    ids = [c for c in V.vac_ids(tier) if c not in ('P-4(S4 site)',)] if tier == 'quick' else V.vac_ids(tier)
    runner.run(rep, 'VacancyMediated::C15-contract', V.w_tags, [(cid, tier, SEED, 'C15') for cid in ids], 'onsager/OnsagerCalc.py::VacancyMediated')
    from vf import extract
    for rel, q in [('onsager/OnsagerCalc.py', 'Interstitial.generatetags'), ('onsager/OnsagerCalc.py', 'VacancyMediated.generatetags'), ('onsager/OnsagerCalc.py', 'VacancyMediated.tags2preene'), ('onsager/OnsagerCalc.py', 'VacancyMediated.makeLIMBpreene')]:
        try:
            f = extract.get(rel, q); rep.under_contract(rel + '::' + q, rel, f.l0, f.l1)
        except KeyError: pass
    rep.gaps += ['catalogue calculators, Nthermo 1; 12 (quick) / 60 (thorough) seeded tag dictionaries per calculator in five modes']
    extra(rep, tier)
    return finish(rep, 'exploration', 'Postconditions of generatetags (both calculators) and tags2preene on catalogue calculators: tags unique, the tag dictionary names exactly the class listing the tag, supplying data under any one member tag reproduces exactly that data (vacancy and solute data independent), transition classes without data take the back-fill default, and the verbose report lists exactly the classes without data, the classes given more than once (also when duplicates and omissions balance) and the unrecognised tags.', './check C15 --tier ' + tier)


def extra(rep, tier):
    pass
