"""C31 -- cluster enumeration is complete and cluster identity is geometric (run-time contracts, level B)."""
from vf.common import Report, finish, SEED
from vf.rtc import runner, catalogue, samplers
from contracts import cluster_rt as M, cluster_sx


def main(tier):
    rep = Report('C31', tier)
    n = len(catalogue.builders(tier, SEED))
    runner.run(rep, 'makeclusters::contract', M.w_clusters, [(i, tier, SEED) for i in range(n)], 'onsager/cluster.py::makeclusters')
    cluster_sx.run_all(rep, tier)      # identity of clusters on symbolic lattice vectors: translation / reordering invariance, normal form (level S per label pattern)
    from vf import extract
    for rel, q in [('onsager/cluster.py', 'makeclusters'), ('onsager/cluster.py', 'makeTSclusters'), ('onsager/cluster.py', 'makeVacancyClusters'), ('onsager/cluster.py', 'Cluster.__init__'), ('onsager/cluster.py', 'Cluster.__eq__'), ('onsager/cluster.py', 'Cluster.__hash__'), ('onsager/cluster.py', 'Cluster.istransition')]:
        try:
            f = extract.get(rel, q); rep.under_contract(rel + '::' + q, rel, f.l0, f.l1)
        except KeyError: pass
    M.annotate_C31(rep)
    return finish(rep, 'exploration', 'Postcondition of makeclusters against a brute-force enumeration of site sets with all pair distances below the cutoff (minus excluded species): same clusters, each once, sets are complete disjoint orbits; TS / vacancy cluster sets closed under symmetry (and reversal); Cluster identity invariant under translation and reordering (also proved structurally in C36).', './check C31 --tier ' + tier)
