"""C16 -- Taylor-expansion arithmetic commutes with evaluation (run-time contracts, level B; index tables exhaustive)."""
from vf.common import Report, finish, SEED
from vf.rtc import runner
from contracts import taylor_rt as T, taylor_sx as TS

FUNCS = ['makeindexPowerYlm', 'makeYlmpow', 'makepowYlm', 'makeLprojections', 'makedirectmult', 'powexp', 'makepowercoeff', 'constructexpansion', '__call__',
         'negcoeff', 'scalarproductcoeff', 'sumcoeff', 'tensorproductcoeff', 'coeffproductcoeff', 'reducecoeff', 'collectcoeff', 'separatecoeff', 'truncatecoeff',
         '__getitem__', '__setitem__', 'zeros', 'addterms', '__add__', '__iadd__', '__sub__', '__isub__', '__radd__', '__mul__', '__rmul__', 'ldot', 'rdot', 'ildot', 'irdot']
FUNCS2 = ['makeindexPowerFC', 'makeFCpow', 'makepowFC', 'makeLprojections', 'makedirectmult', 'powexp', 'makepowercoeff']


def main(tier):
    rep = Report('C16', tier)
    nseed = 3 if tier == 'quick' else 16
    runner.run(rep, 'Taylor::index-tables', T.w_tables, [(d, tier, SEED) for d in (3, 2)], 'onsager/PowerExpansion.py::Taylor3D.__initTaylor3Dindexing__')
    runner.run(rep, 'Taylor::arithmetic-contract', T.w_arith, [(d, tier, SEED * 100 + s) for d in (3, 2) for s in range(nseed)], 'onsager/PowerExpansion.py::Taylor3D')
    TS.run_all(rep, tier)
    from vf import extract
    for cl, fs in (('Taylor3D', FUNCS), ('Taylor2D', FUNCS2)):
        for q in fs:
            try:
                f = extract.get('onsager/PowerExpansion.py', cl + '.' + q); rep.under_contract('onsager/PowerExpansion.py::%s.%s' % (cl, q), 'onsager/PowerExpansion.py', f.l0, f.l1)
            except KeyError: pass
    rep.assume('symbolic runs (level S): module global np replaced by a proxy whose zeros(dtype=complex) yields exact-zero object arrays; exact arithmetic instead of floating point; operands of one or two terms')
    rep.trust('scipy.special.sph_harm_y / numpy complex exponentials as the definition of the harmonics (3D: Condon-Shortley phase, orthonormal)')
    rep.assume('floating-point comparison at relative 2e-9 on O(1) random complex coefficients; reduce/separate drop blocks below their own 1e-10 threshold')
    rep.gaps += ['random expansions: powers n in -2..4, l <= 4, value shapes (), (3,), (2,2), (2,3); %d seeds per dimension' % nseed,
                 'the tables are decided only for the fixed maximum order Lmax = 4 the library uses',
                 'symbolic (all coefficient values, all evaluation points) identities cover sum / difference / products / scalar and matrix products / truncation / slices for operands of one or two terms; reduce, collect, separate, rotation and inversion involve floating-point projection tables and thresholds and stay bounded run-time contracts']
    return finish(rep, 'exploration',
                  'Each operation of the expansion algebra carries the postcondition V(result) = operation(V(operands)) for an independently written evaluation V, plus the frame that operands '
                  'keep their value and share no storage with the result; the index tables (monomial index, direct products, multinomials, harmonics <-> powers, l-projections) are checked '
                  'exhaustively for Lmax = 4 against scipy harmonics; construction from direction/matrix pairs reproduces the direct power series.',
                  './check C16 --tier ' + tier)
