"""C03 -- transport tensors are symmetric, non-negative and crystal-invariant (run-time contracts, level B)."""
from vf.common import Report, finish, SEED
from vf.rtc import runner, catalogue
from contracts import interstitial_rt as I, vacancy_rt as V, interstitial_sx as IS


def main(tier):
    rep = Report('C03', tier)
    n = len(catalogue.builders(tier, SEED)) + len(catalogue.interstitial_extras(tier, SEED))
    runner.run(rep, 'Interstitial::contract', I.w_interstitial, [(i, tier, SEED, 'C03') for i in range(n)], 'onsager/OnsagerCalc.py::Interstitial.diffusivity')
    runner.run(rep, 'VacancyMediated::contract', V.w_vacancy, [(cid, tier, SEED, 'C03') for cid in V.vac_ids(tier)], 'onsager/OnsagerCalc.py::VacancyMediated.Lij')
    # symmetry and point-group invariance of the interstitial tensors for EVERY value of the prefactors and energies (level S: the real
    # Interstitial.diffusivity run on symbolic data, one run per catalogue network)
    IS.run_all(rep, tier, 'C03:')

    from vf import extract
    for rel, q in [('onsager/OnsagerCalc.py', 'Interstitial.diffusivity'), ('onsager/OnsagerCalc.py', 'Interstitial.elastodiffusion'), ('onsager/OnsagerCalc.py', 'VacancyMediated.Lij')]:
        try:
            f = extract.get(rel, q); rep.under_contract(rel + '::' + q, rel, f.l0, f.l1)
        except KeyError: pass
    annotate(rep)
    return finish(rep, 'exploration', 'Self-certifying postconditions (no oracle): every returned second-rank tensor is symmetric and invariant under every point-group operation, the elastodiffusion tensor has its index symmetries and group invariance, D / L0vv / Lss are positive semidefinite -- for the interstitial and the vacancy-mediated calculators over the catalogue with seeded data including rate ratios up to e^8.', './check C03 --tier ' + tier)


def annotate(rep):
    rep.gaps.append('Lsv need not be a symmetric tensor physically in low-symmetry crystals (its antisymmetric part is symmetry-allowed); the property as given demands it, so those cases are recorded as known findings')
