"""C26 -- solute-vacancy jump networks classify every transition exactly once (class builder under E1 contract, level P; networks: run-time contracts, level B)."""
from vf.common import Report, finish, SEED
from vf.rtc import runner, catalogue
from contracts import stars_rt as M


def main(tier):
    rep = Report('C26', tier)
    n = len(catalogue.builders(tier, SEED))
    runner.run(rep, 'StarSet.jumpnetwork_omega::contract', M.w_omega, [(i, tier, SEED) for i in range(n)], 'onsager/crystalStars.py::StarSet.jumpnetwork_omega1')
    # the class builder under E1 contract (level P): jump first, each (initial, final) pair once, closed under reversal, image under every
    # operation present, nothing else -- for every group action (the action is an uninterpreted function)
    from vf.pyvc import driver
    from contracts import omegajumps_c as OJ
    driver.verify_function(OJ.SymmEquivJumpList(), rep, tier)
    for a in OJ.SymmEquivJumpList.ABSTRACTED: rep.assume('StarSet.symmequivjumplist contract, abstracted: ' + a)
    from vf import extract
    for q in ['StarSet.jumpnetwork_omega1', 'StarSet.jumpnetwork_omega2', 'StarSet.symmequivjumplist']:
        try:
            f = extract.get('onsager/crystalStars.py', q); rep.under_contract('onsager/crystalStars.py' + '::' + q, 'onsager/crystalStars.py', f.l0, f.l1)
        except KeyError: pass
    M.annotate_C26(rep)
    return finish(rep, 'exploration', 'Postconditions of jumpnetwork_omega1/omega2 against a brute-force enumeration of vacancy jumps with the solute fixed (exactly-once membership, closure under the space group and reversal, displacement = vacancy displacement) and of the pruning in VacancyMediated.generate.', './check C26 --tier ' + tier)
