"""C30 -- automation tarballs are complete and self-consistent (run-time contracts, level B)."""
from vf.common import Report, finish, SEED
from vf.rtc import runner
from contracts import automator_rt as A

CRYS_Q = ['FCC', 'HCP', 'B2', 'HCP+OT', 'wurtzite+X']
CRYS_T = CRYS_Q + ['BCC', 'ortho2site', 'mono-P2/m-rotated', 'SC', 'diamond', 'L12', 'omega', 'tric-P-1']
SUP_Q = ['3x3x3', 'sheared', '5x5x3']
SUP_T = ['3x3x3', 'sheared', '5x5x3', 'rot-hex', 'left-handed', 'circulant', '2x2x2', '4x3x3']


def main(tier):
    rep = Report('C30', tier)
    crys = CRYS_Q if tier == 'quick' else CRYS_T
    sups = SUP_Q if tier == 'quick' else SUP_T
    args = [(c, s, tier, SEED, k, v) for k in ('interstitial', 'vacancy') for c in crys for s in sups for v in (('default', 'custom') if s == sups[0] else ('default',))]
    if tier == 'quick': args += [('L12', 'sheared', tier, SEED, 'interstitial', 'default')]      # an endpoint that no state maps onto
    runner.run(rep, 'supercelltar-contract', A.w_tar, args, 'onsager/automator.py::supercelltar')
    runner.run(rep, 'map2string-contract', A.w_map2string, [(tier, SEED)], 'onsager/automator.py::map2string')
    from vf import extract
    for q in ('supercelltar', 'map2string', '_resource_string'):
        try:
            f = extract.get('onsager/automator.py', q); rep.under_contract('onsager/automator.py::' + q, 'onsager/automator.py', f.l0, f.l1)
        except KeyError: pass
    f = extract.get('onsager/supercell.py', 'Supercell.POSCAR'); rep.under_contract('onsager/supercell.py::Supercell.POSCAR', 'onsager/supercell.py', f.l0, f.l1)
    rep.trust('perl 5 executes onsager/trans.pl as the user would; tarfile reads back what it wrote')
    rep.gaps += ['the relaxed structure handed to trans.pl is the state\'s own unrelaxed POSCAR (no relaxation code exists offline)', 'nebmake.pl / Vasp.pm (third-party VTST scripts) are only checked for presence',
                 '3D catalogue crystals, Nthermo = 1: %d crystals x %d supercells x 2 calculators, default and customised naming' % (len(crys), len(sups))]
    return finish(rep, 'exploration',
                  'Postconditions of supercelltar on supercell dictionaries from real calculators: the tag map is a bijection between directories and state/transition tags; every POSCAR parsed by an independent reader '
                  'equals its supercell (lattice, per-species counts, ordered positions) and loads back through POSCAR_occ; running the bundled trans.pl on a state\'s structure with each recorded transformation file '
                  'reproduces the transition endpoint atom for atom; every Makefile rule is exactly (transformation file, relaxed state CONTCAR) of an existing state directory; NEBlist files agree.',
                  './check C30 --tier ' + tier)
