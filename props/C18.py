"""C18 -- the crystal's symmetry group is a correct group of self-isometries (run-time contracts, level B)."""
from vf.common import Report, finish, SEED
from vf.rtc import runner, catalogue
from contracts import crystal_rt as R


def main(tier):
    rep = Report('C18', tier)
    ncat = len(catalogue.builders(tier, SEED)); nx = len(R.c18_extras(SEED, tier))
    args = [('cat', i, tier, SEED) for i in range(ncat)] + [('extra', i, tier, SEED) for i in range(nx)]
    runner.run(rep, 'Crystal::symmetry-group-contract', R.w_group, args, 'onsager/crystal.py::Crystal.gengroup')
    for q in ('Crystal.gengroup', 'maptranslation', 'GroupOp.__mul__', 'GroupOp.inv', 'GroupOp.ident'):
        from vf import extract
        try:
            f = extract.get('onsager/crystal.py', q); rep.under_contract('onsager/crystal.py::' + q, 'onsager/crystal.py', f.l0, f.l1)
        except KeyError: pass
    rep.assume('tolerances: 1e-6 for isometry / lattice map, 10*crystal.threshold for atom positions (fixed constants)')
    rep.trust('numpy linear algebra', 'the contract (group axioms, isometry, atom map) is the oracle: no spec function needed')
    rep.gaps.append('only the enumerated catalogue (named lattices, low-symmetry / 2D / rotated cells, spin decorations, glide cells with several species, '
                    'NOSYM, strained copies, seeded random cells); the algebraic part of GroupOp (product, inverse acting as maps) is proved in C23')
    rep.extra['rule'] = 'one evaluation per contract clause per operation/atom; distinct = distinct (crystal, clause kind) signatures'
    from contracts import fresh_c
    fresh_c.run(rep, contracts=fresh_c.CRYSTAL_CONTRACTS, class_fields=[])      # ownership (level P): the crystal shares no array with its constructor arguments
    # maptranslation (the search behind every symmetry operation) under E1 contract (level P): a returned mapping really maps, for every
    # meaning of the two floating-point tests
    from vf.pyvc import driver
    from contracts import maptranslation_c as MT
    driver.verify_function(MT.MapTranslation(), rep, tier)
    for a in MT.MapTranslation.ABSTRACTED: rep.assume('maptranslation contract, abstracted: ' + a)
    return finish(rep, 'exploration',
                  'Run-time contract on Crystal construction over the bounded catalogue: every operation is an integer unimodular lattice map, an '
                  'isometry, maps each atom onto the recorded atom of the same species (spins up to one global phase), and the set is closed '
                  'under product and inverse with identity. Bounded stand-in (level B), not a proof.',
                  './check C18 --tier ' + tier)
