"""C12 -- internal-friction loss tensors satisfy the relaxation sum rule (run-time contract, level B)."""
from vf.common import Report, finish, SEED
from vf.rtc import runner, catalogue
from contracts import interstitial_rt as I, vacancy_rt as V


def main(tier):
    rep = Report('C12', tier)
    n = len(catalogue.builders(tier, SEED)) + len(catalogue.interstitial_extras(tier, SEED))     # + BCC / FCC octahedral + tetrahedral networks
    runner.run(rep, 'Interstitial::contract', I.w_interstitial, [(i, tier, SEED, 'C12') for i in range(n)], 'onsager/OnsagerCalc.py::Interstitial.diffusivity')

    from contracts import degree_c
    degree_c.run(rep, ['Interstitial.losstensors', 'Interstitial.siteprob', 'Interstitial.ratelist', 'Interstitial.symmratelist'])     # which modes count as relaxation modes may depend on rate ratios only
    from vf import extract
    for rel, q in [('onsager/OnsagerCalc.py', 'Interstitial.losstensors')]:
        try:
            f = extract.get(rel, q); rep.under_contract(rel + '::' + q, rel, f.l0, f.l1)
        except KeyError: pass
    annotate(rep)
    return finish(rep, 'exploration', 'Postconditions of Interstitial.losstensors: every mode rate is positive and a non-zero eigenvalue of the independently rebuilt symmetrised rate matrix, every loss tensor has the compliance index symmetries and is positive semidefinite as a d^2 x d^2 form, and the loss tensors sum to the equilibrium fluctuation of the populated site dipole (1e-9), for arbitrary non-symmetric input dipoles.', './check C12 --tier ' + tier)


def annotate(rep):
    rep.gaps.append('catalogue crystals and seeded data only')
