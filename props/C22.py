"""C22 -- k-point mesh reduction integrates symmetric functions exactly (run-time contracts, level B)."""
from vf.common import Report, finish, SEED
from vf.rtc import runner
from contracts import crystal_rt as R


def main(tier):
    rep = Report('C22', tier)
    n = len(R.kpt_lattices(tier, SEED))
    runner.run(rep, 'Crystal.kptmesh::contract', R.w_kpt, [(i, tier, SEED) for i in range(n)], 'onsager/crystal.py::Crystal.fullkptmesh')
    from vf import extract
    for q in ('Crystal.genBZG', 'Crystal.inBZ', 'Crystal.fullkptmesh', 'Crystal.reducekptmesh'):
        f = extract.get('onsager/crystal.py', q); rep.under_contract('onsager/crystal.py::' + q, 'onsager/crystal.py', f.l0, f.l1)
    rep.assume('Brillouin-zone membership is tested against all reciprocal lattice vectors in a 9^d window with tolerance 1e-9',
               'invariant periodic test functions are cosine sums over the first six complete shells of lattice vectors')
    rep.gaps.append('lattices: one per 2D/3D system plus seeded triclinic/oblique cells; four (quick) / seven (thorough) mesh sizes, even and odd')
    return finish(rep, 'exploration',
                  'Postconditions of fullkptmesh (every point in the Brillouin zone; the regular grid modulo the reciprocal lattice) and of '
                  'reducekptmesh (positive weights summing to one; reduced average equals full average for invariant periodic functions).',
                  './check C22 --tier ' + tier)
