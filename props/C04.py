"""C04 -- results are invariant under reference choices and scale with rates (run-time contracts, level B)."""
from vf.common import Report, finish, SEED
from vf.rtc import runner, catalogue
from contracts import interstitial_rt as I, vacancy_rt as V, interstitial_sx as IS


def main(tier):
    rep = Report('C04', tier)
    n = len(catalogue.builders(tier, SEED)) + len(catalogue.interstitial_extras(tier, SEED))
    runner.run(rep, 'Interstitial::contract', I.w_interstitial, [(i, tier, SEED, 'C04') for i in range(n)], 'onsager/OnsagerCalc.py::Interstitial.diffusivity')
    runner.run(rep, 'VacancyMediated::contract', V.w_vacancy, [(cid, tier, SEED, 'C04') for cid in V.vac_ids(tier)], 'onsager/OnsagerCalc.py::VacancyMediated.Lij')

    IS.run_all(rep, tier, 'C04:')

    from contracts import degree_c
    degree_c.run(rep, list(degree_c.CONTRACTS), replay=degree_c.replay_lij)      # every degree contract: the whole chain data -> free energies -> rates -> Green function -> tensors

    from vf import extract
    for rel, q in [('onsager/OnsagerCalc.py', 'Interstitial.siteprob'), ('onsager/OnsagerCalc.py', 'Interstitial.ratelist'), ('onsager/OnsagerCalc.py', 'Interstitial.symmratelist'), ('onsager/OnsagerCalc.py', 'VacancyMediated.preene2betafree'), ('onsager/OnsagerCalc.py', 'VacancyMediated._symmetricandescaperates'), ('onsager/OnsagerCalc.py', 'VacancyMediated.Lij'), ('onsager/GFcalc.py', 'GFCrystalcalc.SetRates')]:
        try:
            f = extract.get(rel, q); rep.under_contract(rel + '::' + q, rel, f.l0, f.l1)
        except KeyError: pass
    annotate(rep)
    return finish(rep, 'exploration', 'Relational postconditions evaluated on the same calculator (and on a fresh one for rate scaling): common shift of all free energies of one species with its transition states, joint prefactor scaling, energy/temperature co-scaling leave every tensor unchanged; multiplying every rate by a factor multiplies every coefficient by it (1e-7 relative).', './check C04 --tier ' + tier)


def annotate(rep):
    rep.gaps.append('clause (d) of the property -- sites displaced inside the cell without changing connectivity -- is covered for displacements along the symmetry-invariant vector fields of the mobile sublattice only (both calculators; known finding for the vacancy-mediated one on crystals with origin states)')
    rep.gaps.append('level S (symbolic, all prefactors / energies / shifts / factors) covers the interstitial calculator per enumerated network; the vacancy-mediated calculator (Green function, eigen-decompositions) is level B only; the planned degree-typing proof (E2) is not built')
