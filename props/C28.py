"""C28 -- supercell occupancy bookkeeping stays consistent over any edit history."""
from vf.common import Report, finish
from vf.pyvc import driver
from contracts import supercell_c as C


def main(tier):
    rep = Report('C28', tier)
    for c in C.C28_CONTRACTS:
        driver.verify_function(c(), rep, tier)
    C.c28_extra(rep, tier)
    rep.assume(*C.ASSUMPTIONS)
    rep.trust(*C.TRUSTED)
    rep.gaps += C.GAPS
    allP = all(o.status == 'ok' for o in rep.obs if o.level == 'P')
    return finish(rep, 'proof',
                  'Representation invariant WF(occ, chemorder) is a postcondition of every public mutator under contract, '
                  'proved from the extracted source for all supercell sizes, species counts and list contents (unbounded '
                  'list/array theory, z3); hence it holds after every history. The same contracts are evaluated at run '
                  'time on the real functions over every small state (bounded stand-in, labelled B, never counted as proved).',
                  './check C28 --tier ' + tier)
