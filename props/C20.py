"""C20 -- site symmetry analysis gives exact orbits and invariant bases (run-time contracts, level B; exhaustive over
the subgroups of the cubic / hexagonal holohedries in 3D and the square / hexagonal ones in 2D)."""
from vf.common import Report, finish, SEED
from vf.rtc import runner, catalogue
from contracts import crystal_rt as R


def main(tier):
    rep = Report('C20', tier)
    ncat = len(catalogue.builders(tier, SEED)); nh = len(R.holohedries(tier))
    args = [('hol', i, tier, SEED) for i in range(nh)] + [('cat', i, tier, SEED) for i in range(ncat)]
    runner.run(rep, 'Crystal::site-symmetry-contract', R.w_sites, args, 'onsager/crystal.py::Crystal.VectorBasis')
    from vf import extract
    for q in ('Crystal.genpoint', 'Crystal.genWyckoffsets', 'Crystal.Wyckoffpos', 'Crystal.VectorBasis', 'Crystal.SymmTensorBasis',
              'Crystal.FullVectorBasis', 'Crystal.vectlist', 'GroupOp.eigen', 'VectorBasis', 'SymmTensorBasis', 'CombineVectorBasis', 'CombineTensorBasis'):
        try:
            f = extract.get('onsager/crystal.py', q); rep.under_contract('onsager/crystal.py::' + q, 'onsager/crystal.py', f.l0, f.l1)
        except KeyError: pass
    rep.trust('character formulas for the dimension of the invariant vector / symmetric tensor space of a finite group (theory taken as definition)',
              'numpy linear algebra')
    rep.gaps.append('crystals outside the catalogue; the subgroup enumeration is exhaustive for Oh and D6h (3D) and D4, D6, D2 (2D) in the listed orientations only')
    rep.extra['exhaustive'] = False
    from contracts import vectlist_sx
    vectlist_sx.run(rep)      # contract of Crystal.vectlist (orthonormal frame of a site's vector basis), symbolic, every unit vector, both branches
    from contracts import fresh_c
    fresh_c.run(rep, contracts=fresh_c.VECTORBASIS_CONTRACTS, class_fields=[])
    return finish(rep, 'exploration',
                  'Run-time contracts: point groups fix their site, Wyckoff sets equal brute-force orbits, Wyckoffpos is the complete orbit, and the '
                  'vector / symmetric-tensor bases are orthonormal, invariant and of the dimension given by the character formula -- for every site of '
                  'every catalogue crystal and, through the exact reduce(Combine...Basis, eigen()) code path, for EVERY subgroup of the cubic and '
                  'hexagonal holohedries (3D, two orientations) and of the 2D square / hexagonal / rectangular ones (rotated settings).',
                  './check C20 --tier ' + tier)
