"""C13 -- saved and reloaded calculators reproduce results exactly (run-time contracts, level B)."""
from vf.common import Report, finish, SEED
from vf.rtc import runner, catalogue
from contracts import vacancy_rt as V, roundtrip_rt as R


def main(tier):
    rep = Report('C13', tier)
    ids = [c for c in V.vac_ids(tier) if c not in ('P-4(S4 site)',)] if tier == 'quick' else V.vac_ids(tier)
    runner.run(rep, 'VacancyMediated::hdf5-round-trip', V.w_history, [(cid, tier, SEED, 'C13') for cid in ids], 'onsager/OnsagerCalc.py::VacancyMediated.loadhdf5')
    n = len(catalogue.builders(tier, SEED))
    runner.run(rep, 'yaml-and-hdf5-round-trips', R.w_yaml_hdf5, [(i, tier, SEED) for i in range(n)], 'onsager')
    # E1 (level P): the flatten / unflatten converters every HDF5 writer and reader goes through, for lists of any size
    from vf.pyvc import driver
    from contracts import flatten_c
    for c in flatten_c.C13_CONTRACTS: driver.verify_function(c, rep, tier)
    from vf import extract
    for rel, q in (('onsager/OnsagerCalc.py', 'VacancyMediated.addhdf5'), ('onsager/OnsagerCalc.py', 'VacancyMediated.loadhdf5'), ('onsager/OnsagerCalc.py', 'vTKdict2arrays'),
                   ('onsager/OnsagerCalc.py', 'arrays2vTKdict'), ('onsager/GFcalc.py', 'GFCrystalcalc.addhdf5'), ('onsager/GFcalc.py', 'GFCrystalcalc.loadhdf5'),
                   ('onsager/crystalStars.py', 'StarSet.addhdf5'), ('onsager/crystalStars.py', 'StarSet.loadhdf5'), ('onsager/crystalStars.py', 'VectorStarSet.addhdf5'),
                   ('onsager/crystalStars.py', 'VectorStarSet.loadhdf5'), ('onsager/crystalStars.py', 'doublelist2flatlistindex'), ('onsager/crystalStars.py', 'flatlistindex2doublelist'),
                   ('onsager/PowerExpansion.py', 'Taylor3D.addhdf5'), ('onsager/PowerExpansion.py', 'Taylor3D.loadhdf5'), ('onsager/cluster.py', 'Cluster._asdict')):
        try:
            f = extract.get(rel, q); rep.under_contract(rel + '::' + q, rel, f.l0, f.l1)
        except KeyError: pass
    rep.trust('h5py (in-memory core driver) and PyYAML store and return arrays / scalars unchanged')
    rep.assume('E1: list elements are modelled as integers standing for object identities; python ints are mathematical; the rows of a list of lists are distinct objects')
    rep.gaps += ['P covers doublelist2flatlistindex / flatlistindex2doublelist and their round trip only; the other converters (PSlist2array, vTKdict2arrays, the omega flattening inside addhdf5/loadhdf5) and the round trips of whole calculators are level B', 'catalogue calculators and crystals only for the B part']
    return finish(rep, 'exploration',
                  'Exact-equality contracts through real in-memory HDF5 files: a reloaded vacancy-mediated calculator (saved before and after cache population, and a second-generation reload) '
                  'gives bit-identical Lij results, caches and tags and supports makesupercells; star sets, vector star sets, GF calculators and Taylor expansions round-trip; '
                  'YAML dumps of crystals, group operations, pair states, cluster sites and all four kinds of clusters load back to equal objects with equal hashes.',
                  './check C13 --tier ' + tier)
