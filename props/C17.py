"""C17 -- Taylor-expansion change of variables (symbolic, level P) and inversion (run-time contracts, level B) are exact."""
from vf.common import Report, finish, SEED
from vf.rtc import runner
from contracts import taylor_rt as T, taylor_rot_sx, taylor_inv_sx


def main(tier):
    rep = Report('C17', tier)
    nseed = 3 if tier == 'quick' else 16
    runner.run(rep, 'Taylor::rotate-and-invert-contract', T.w_rotinv, [(d, tier, SEED * 100 + s) for d in (3, 2) for s in range(nseed)], 'onsager/PowerExpansion.py::Taylor3D.rotatedirections')
    taylor_rot_sx.run_all(rep, tier)      # change of variables: polynomial identity for a fully symbolic matrix and symbolic coefficients, every (n, l) of the precondition (level P)
    taylor_inv_sx.run_all(rep, tier)      # inversion: the real inv run on symbolic coefficients, products reduced modulo <|u|^2-1, D det-1>, per enumerated structure (level S)
    from vf import extract
    for q in ('Taylor3D.rotatedirections', 'Taylor3D.rotatecoeff', 'Taylor3D.rotate', 'Taylor3D.irotate', 'Taylor3D.inversecoeff', 'Taylor3D.inv', 'Taylor2D.rotatedirections'):
        try:
            f = extract.get('onsager/PowerExpansion.py', q); rep.under_contract('onsager/PowerExpansion.py::' + q, 'onsager/PowerExpansion.py', f.l0, f.l1)
        except KeyError: pass
    rep.assume('floating-point comparison at relative 2e-9; transformation matrices with |det| > 0.2; leading matrices with |det| > 0.3')
    rep.gaps += ['%d seeds per dimension x 8 matrices (general, rotation, inversion, diagonal, permutation) x 3 value shapes' % nseed,
                 'inversion: lead order 0..2, requested order -1..2, each term at relative order k has l <= k so that every product stays within Lmax']
    return finish(rep, 'exploration',
                  'Postcondition of rotatedirections + rotate / irotate on parity-consistent expansions (reduced and un-reduced): value at p equals the original at M p for invertible, non-orthogonal M, '
                  'rotations compose, the operand is unchanged; postcondition of inv: inverse times original (both sides) is the identity at order 0 and zero at every order up to the requested one, '
                  'and an anisotropic leading term is refused.',
                  './check C17 --tier ' + tier)
