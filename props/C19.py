"""C19 -- cell reduction recovers the same crystal from any supercell (run-time contract on Crystal.__init__, level B)."""
from vf.common import Report, finish, SEED
from vf.rtc import runner, catalogue
from contracts import crystal_rt as R


def main(tier):
    rep = Report('C19', tier)
    n = len(catalogue.builders(tier, SEED))
    runner.run(rep, 'Crystal.__init__::reduction-contract', R.w_reduce, [(i, tier, SEED) for i in range(n)], 'onsager/crystal.py::Crystal.reduce')
    orders = [(3, 3), (3, 2), (4, 3)] if tier == 'quick' else [(3, 3), (3, 2), (4, 3), (4, 2), (5, 3), (5, 2), (6, 3)]
    runner.run(rep, 'Crystal.__init__::reduction-contract', R.c19_orderings, [(n_, d, tier, SEED) for n_, d in orders], 'onsager/crystal.py::Crystal.reduce')
    angles = [0., 0.3, 1.1] if tier == 'quick' else [0., 0.3, 1.1, 0.7, 2.0, 2.9, 0.05, 1.5707963]
    runner.run(rep, 'Crystal.__init__::reduction-contract', R.c19_hexagonal, [(a, tier, SEED) for a in angles], 'onsager/crystal.py::Crystal.minlattice')
    from vf import extract
    for q in ('Crystal.reduce', 'Crystal.minlattice', 'Crystal.remapbasis', 'Crystal.center'):
        f = extract.get('onsager/crystal.py', q); rep.under_contract('onsager/crystal.py::' + q, 'onsager/crystal.py', f.l0, f.l1)
    rep.assume('ghost input: primitive description + integer matrix M (|det| 2..3 quick, 2..6 thorough) + atom permutation + noise 1e-10 (below threshold)')
    rep.gaps.append('catalogue crystals x seeded supercell matrices with entries in [-2, 2]; exhaustive atom orderings only for n x 1 (x 1) cells of the primitive cubic / square lattice')
    return finish(rep, 'exploration',
                  'Postcondition of Crystal construction with reduction on supercell descriptions: same volume per atom, same atoms per primitive cell for '
                  'each species, right-handed lattice, same group order as the primitive description; no exception for any atom ordering.',
                  './check C19 --tier ' + tier)
