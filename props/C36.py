"""C36 -- value types obey equality, hashing and arithmetic laws."""
from vf.common import Report, finish, SEED
from vf.rtc import runner
from contracts import valuetypes as V, coords_sx


def main(tier):
    rep = Report('C36', tier)
    V.structural_obligations(rep)
    coords_sx.run_all(rep, only=('C36:', 'O14:', 'O13:'))
    kinds = ['GroupOp-exact', 'GroupOp-near-equal', 'PairState', 'ClusterSite+Cluster', 'vTK-exact', 'vTK-near-equal']
    runner.run(rep, 'value-type-laws', V.w_types, [(k, tier, SEED) for k in kinds], 'onsager')
    rep.assume('hash() is a function of value for tuples of ints and of content for byte strings',
               'floats as reals in the symbolic arithmetic obligations')
    rep.trust('the structural argument: a conjunction of exact field equalities is an equivalence relation; a hash computed from fields that __eq__ compares exactly respects it')
    rep.gaps.append('GroupOp and vacancyThermoKinetics compare float fields with np.allclose BY DESIGN: the equivalence-relation clause fails for them as a formula '
                    '(known findings, each identified by obligation and witness signature; any other failure is still reported)')
    return finish(rep, 'other',
                  'Structural contracts over the extracted __eq__/__ne__/__hash__ (negation, conjunction of exact field equalities, hash over compared fields) '
                  'for every value type; PairState arithmetic identities and commutation with symmetry discharged symbolically on the real source (E4); '
                  'the same laws evaluated on pools of real instances incl. near-equal floats (B).',
                  './check C36 --tier ' + tier)
