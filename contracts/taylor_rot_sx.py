"""C17, change of variables, decided symbolically: the real `rotatedirections` and `rotate` / `irotate` of Taylor3D / Taylor2D
(function objects of the current tree) are run on a FULLY SYMBOLIC transformation matrix M (d*d symbols) and symbolic
coefficients, and the postcondition

        value(rotated expansion)(p)  ==  value(original expansion)(M p)            for all p, all M, all coefficients

is decided as a polynomial identity.  Value of a term: for an expansion "whose powers have the parity of their radial order"
(the precondition in the property) and l <= n, the term |q|^n * sum_pow c_pow u^pow with u = q/|q| is the POLYNOMIAL
sum_pow c_pow (q.q)^((n-|pow|)/2) q^pow; this closed form is the spec function.  One obligation per (dimension, n, l) with
0 <= l <= n <= Lmax, l = n mod 2: since `rotatecoeff` maps every (n, l, c) entry of the list on its own (a comprehension /
loop over the entries: checked structurally on the extracted source in the same run) and the value is additive over entries,
the single-entry obligations cover every expansion in the precondition.  Two further obligations per dimension run a
three-entry list (one of them with a matrix-valued coefficient) through `rotate` and `irotate` to check the list handling.

What is replaced while the code runs: the module global `np` is a proxy whose `zeros` / `ones` return object arrays holding
exact 0 / 1 (a float array cannot hold a symbol) and whose `sqrt` returns a magnitude object that answers `< 1e-8` with
False (precondition: no row of M is shorter than 1e-8 -- M is invertible).  Arithmetic is exact; floating-point rounding of
the real runs is not modelled (the run-time contract of C17 exercises it)."""
import time, ast
import numpy as np
import sympy as sp
from sympy.polys.rings import ring
from sympy.polys.domains import ZZ


class _Mag:
    """|row of M|: only compared with the zero threshold (precondition: not shorter than 1e-8)"""
    def __init__(self, e): self.e = e
    def __lt__(self, o): return False
    def __gt__(self, o): return True


class NPProxy:
    def __init__(self, real, one, zero): self._np, self._1, self._0 = real, one, zero
    def __getattr__(self, k): return getattr(self._np, k)
    def zeros(self, shape, dtype=float, **kw):
        a = np.empty(shape, dtype=object); a[...] = self._0; return a
    def ones(self, shape, dtype=float, **kw):
        a = np.empty(shape, dtype=object); a[...] = self._1; return a
    def sqrt(self, x): return _Mag(x)


def nmono(dim, l): return (l + 1) * (l + 2) * (l + 3) // 6 if dim == 3 else (l + 1) * (l + 2) // 2


def run_task(task):
    """task = (dim, kind, payload) -> (name, status, secs, detail, witness)"""
    from vf.common import repo_on_path; repo_on_path()
    from onsager import PowerExpansion as PE
    dim, kind, payload = task
    cls = PE.Taylor3D if dim == 3 else PE.Taylor2D
    cls()
    L = cls.Lmax
    t0 = time.time()
    name = '%dD:%s:%s' % (dim, kind, str(payload).replace(' ', ''))
    # polynomial ring ZZ[M.., p.., c..]: exact and fast
    mnames = ['m%d%d' % (i, j) for i in range(dim) for j in range(dim)]
    pnames = ['p%d' % i for i in range(dim)]
    entries = payload if kind != 'single' else [payload + ((),)]
    cnames = []
    for e, (n, l, shape) in enumerate(entries):
        for p in range(nmono(dim, l)):
            for idx in np.ndindex(*shape) if shape else [()]:
                cnames.append('c%d_%d_%s' % (e, p, '_'.join(map(str, idx))))
    Rg = ring(mnames + pnames + cnames, ZZ)
    R, gens = Rg[0], Rg[1:]
    G = dict(zip(mnames + pnames + cnames, gens))
    M = np.empty((dim, dim), dtype=object)
    for i in range(dim):
        for j in range(dim): M[i, j] = G['m%d%d' % (i, j)]
    P = np.array([G[x] for x in pnames], dtype=object)
    Q = np.array([sum((M[i, j] * P[j] for j in range(dim)), R.zero) for i in range(dim)], dtype=object)
    def coeffs(e, n, l, shape):
        a = np.empty((nmono(dim, l),) + shape, dtype=object)
        for p in range(nmono(dim, l)):
            deg = int(sum(cls.ind2pow[p]))
            for idx in np.ndindex(*shape) if shape else [()]:
                # parity precondition: only monomials of the parity of n
                a[(p,) + idx] = G['c%d_%d_%s' % (e, p, '_'.join(map(str, idx)))] if (n - deg) % 2 == 0 else R.zero
        return a
    def value(coefflist, q):
        q2 = sum((x * x for x in q), R.zero)
        tot = None
        for n, l, c in coefflist:
            N = nmono(dim, l)
            if c.shape[0] != N: raise ValueError('term (%d,%d) holds %d rows, expected %d' % (n, l, c.shape[0], N))
            for p in range(N):
                deg = int(sum(cls.ind2pow[p]))
                row = c[p]
                if np.ndim(row) == 0 and row == 0: continue
                if (n - deg) % 2 or n < deg:
                    # a coefficient outside the precondition must vanish identically
                    if any(x != 0 for x in np.ravel(row)): raise ArithmeticError('entry (%d,%d): non-zero coefficient on a monomial of degree %d (parity / range of the radial order violated)' % (n, l, deg))
                    continue
                mon = R.one
                for i in range(dim): mon = mon * q[i] ** int(cls.ind2pow[p][i])
                mon = mon * q2 ** ((n - deg) // 2)
                term = row * mon
                tot = term if tot is None else tot + term
        return tot if tot is not None else R.zero
    real_np = PE.np
    PE.np = NPProxy(real_np, R.one, R.zero)
    try:
        try:
            npt = cls.rotatedirections(M)
            T = cls([(n, l, coeffs(e, n, l, shape)) for e, (n, l, shape) in enumerate(entries)])
            snap = [(n, l, c.copy()) for n, l, c in T.coefflist]
            want = value(snap, Q)
            fails = []
            Rt = T.rotate(npt)
            d = value(Rt.coefflist, P) - want
            if any(x != 0 for x in np.ravel(d)): fails.append('rotate: value at p differs from the original at M p')
            if not (len(T.coefflist) == len(snap) and all(a[0] == b[0] and a[1] == b[1] and a[2].shape == b[2].shape and np.all(a[2] == b[2]) for a, b in zip(snap, T.coefflist))):
                fails.append('rotate changed its operand')
            X = cls([(n, l, c.copy()) for n, l, c in snap]); Y = X.irotate(npt)
            d = value(X.coefflist, P) - want
            if Y is not X or any(x != 0 for x in np.ravel(d)): fails.append('irotate: value at p differs from the original at M p')
        finally:
            PE.np = real_np
    except Exception as ex:
        return (name, 'undecided', time.time() - t0, 'symbolic run raised %s: %s' % (type(ex).__name__, str(ex)[:300]), None)
    if fails:
        return (name, 'fail', time.time() - t0, '; '.join(fails), {'replayed': False, 'signature': name})
    return (name, 'ok', time.time() - t0, '', None)


def replay_numeric(task, seed=0):
    """random numbers on the unmodified numeric methods, own evaluator"""
    from vf.common import repo_on_path; repo_on_path()
    from onsager import PowerExpansion as PE
    from contracts import taylor_rt as TR
    dim, kind, payload = task
    cls = PE.Taylor3D if dim == 3 else PE.Taylor2D
    cls()
    rng = np.random.default_rng(seed)
    entries = payload if kind != 'single' else [payload + ((),)]
    try:
        for trial in range(20):
            cl = []
            for (n, l, shape) in entries:
                c = rng.normal(size=(nmono(dim, l),) + shape).astype(complex)
                for p in range(nmono(dim, l)):
                    if (int(sum(cls.ind2pow[p])) - n) % 2: c[p] = 0
                cl.append((n, l, c))
            while True:
                M = rng.normal(size=(dim, dim))
                if abs(np.linalg.det(M)) > .3: break
            p = rng.normal(size=dim)
            T = cls([(n, l, c.copy()) for n, l, c in cl])
            Rt = T.rotate(cls.rotatedirections(M))
            if not TR.close(TR.V(cls, dim, Rt, p), TR.V(cls, dim, cl, M @ p)):
                return {'replayed': True, 'input': 'entries %s, M=%s, p=%s' % ([(n, l) for n, l, s in entries], np.round(M, 4).tolist(), np.round(p, 4).tolist()),
                        'observed': 'rotated value %s, original at M p %s' % (np.ravel(TR.V(cls, dim, Rt, p))[:2], np.ravel(TR.V(cls, dim, cl, M @ p))[:2])}
    except Exception as ex:
        return {'replayed': True, 'observed': 'raises %s: %s' % (type(ex).__name__, ex)}
    return {'replayed': False}


def tasks(tier):
    out = []
    L = 4
    for dim in (2, 3):
        for n in range(L + 1):
            for l in range(n % 2, n + 1, 2):
                out.append((dim, 'single', (n, l)))
        out.append((dim, 'list', [(4, 2, ()), (1, 1, ()), (2, 0, ())]))          # unsorted list, reduced entries
        out.append((dim, 'list', [(2, 2, (2, 2)), (2, 0, (2, 2)), (3, 1, (2, 2))]))   # repeated n (separated form), matrix values
    return out


def entrywise_structure(rep):
    """`rotatecoeff` maps each (n, l, c) entry on its own: both the comprehension and the in-place loop iterate over the entry list
    and build the new entry from npowtrans[n], c, l, n and class tables only"""
    from vf import extract
    from vf.common import Ob
    for clsname in ('Taylor3D', 'Taylor2D'):
        fq = 'onsager/PowerExpansion.py::%s.rotatecoeff' % clsname
        try:
            fn = extract.get('onsager/PowerExpansion.py', clsname + '.rotatecoeff')
        except KeyError as ex:
            if clsname == 'Taylor2D': continue          # inherited from Taylor3D (the symbolic runs above call whatever Taylor2D resolves to)
            rep.add(Ob('symbolic-rotation:%s.rotatecoeff:function-present' % clsname, 'P', 'undecided', 'ast-structural', 0., str(ex), function=fq)); continue
        rep.under_contract(fq, 'onsager/PowerExpansion.py', fn.l0, fn.l1)
        ok, why = True, ''
        allowed = {'n', 'l', 'c', 'cls', 'npowtrans', 'np', 'padtuple', 'i', 'acoeff', 'enumerate'}
        comps = [x for x in ast.walk(fn.node) if isinstance(x, ast.ListComp)]
        loops = [x for x in ast.walk(fn.node) if isinstance(x, ast.For)]
        if len(comps) != 1 or len(loops) != 1: ok, why = False, 'expected one comprehension (copy) and one loop (in place) over the entries, found %d / %d' % (len(comps), len(loops))
        else:
            for body in (comps[0].elt, loops[0]):
                names = {x.id for x in ast.walk(body) if isinstance(x, ast.Name)}
                if not names <= allowed: ok, why = False, 'the new entry depends on %s besides its own (n, l, c)' % sorted(names - allowed)
            for x in ast.walk(loops[0]):
                if isinstance(x, ast.Subscript) and isinstance(x.ctx, ast.Store) and ast.unparse(x) != 'acoeff[i]': ok, why = False, 'the in-place loop stores into %s' % ast.unparse(x)
        rep.add(Ob('symbolic-rotation:%s.rotatecoeff:each-entry-mapped-on-its-own' % clsname, 'P', 'ok' if ok else 'undecided', 'ast-structural', 0., why,
                   witness=None if ok else {'replayed': False, 'signature': clsname + '.rotatecoeff:entrywise'}, function=fq))


def run_all(rep, tier):
    from vf.common import Ob
    import multiprocessing as mp
    ts = tasks(tier)
    with mp.get_context('fork').Pool(min(16, len(ts))) as pool:
        res = pool.map(run_task, ts, chunksize=1)
    for task, (nm, status, secs, detail, wit) in zip(ts, res):
        if status == 'fail':
            w = replay_numeric(task)
            wit = dict(wit, **w)
            if w.get('observed'): detail += ' | replay: ' + w['observed']
        rep.add(Ob('symbolic-rotation:' + nm, 'P', status, 'polynomial identity over ZZ[M, p, c] (sympy rings)' if status != 'undecided' else 'symbolic-run', secs, detail, witness=wit,
                   function='onsager/PowerExpansion.py::Taylor%dD.rotatedirections' % task[0]))
    if not ts: rep.add(Ob('symbolic-rotation:obligation-count', 'P', 'fault', 'symbolic-run', 0., 'no task'))
    entrywise_structure(rep)
    rep.assume('rotation contract: the expansion satisfies the precondition of the property (coefficients only on monomials whose degree has the parity of the radial order n and does not exceed it; 0 <= n <= Lmax = 4); no row of M shorter than 1e-8')
    rep.trust('numpy object arrays of exact ring elements behave like float arrays for + * tensordot pad; floats are reals (rounding is exercised by the run-time contract only)')
