"""Run-time contracts (level B) for onsager/supercell.py: C27 (supercell symmetry and equivalence mapping)."""
import itertools
import numpy as np
from vf.rtc.runner import Acc


def super_configs(tier):
    from onsager import crystal, supercell
    hcp = crystal.Crystal.HCP(1., chemistry='Mg')
    hcpO = hcp.addbasis(hcp.Wyckoffpos(np.array([0., 0., 0.5])), chemistry=['O'])
    fcc = crystal.Crystal.FCC(1., 'Ni')
    b2 = crystal.Crystal(np.eye(3), [[np.zeros(3)], [0.5 * np.ones(3)]], chemistry=['A', 'B'])
    ortho = crystal.Crystal(np.diag([1., 1.2, 1.5]), [[np.zeros(3), np.array([0.5, 0.5, 0.3])]], chemistry=['A'])
    out = [('FCC 2x2x2, 1 solute', lambda: supercell.Supercell(fcc, 2 * np.eye(3, dtype=int), Nsolute=1)),
           ('FCC nondiagonal det 4', lambda: supercell.Supercell(fcc, np.array([[1, 1, 0], [-1, 1, 0], [0, 0, 2]]), Nsolute=1)),
           ('HCP+O_i 2x2x1', lambda: supercell.Supercell(hcpO, np.diag([2, 2, 1]), interstitial=[1], Nsolute=1)),
           ('B2 2x1x1, 2 solutes', lambda: supercell.Supercell(b2, np.diag([2, 1, 1]), Nsolute=2)),
           ('ortho 2-site 2x1x2', lambda: supercell.Supercell(ortho, np.diag([2, 1, 2]))),
           # left-handed (negative determinant) supercell matrices
           ('HCP+O_i left-handed det -4', lambda: supercell.Supercell(hcpO, np.array([[2, 0, 0], [0, 2, 0], [0, 0, -1]]), interstitial=[1], Nsolute=1)),
           ('wurtzite-like polar left-handed det -2', lambda: supercell.Supercell(
               crystal.Crystal(hcp.lattice, [[np.array([1 / 3, 2 / 3, 0.]), np.array([2 / 3, 1 / 3, 0.5])], [np.array([1 / 3, 2 / 3, 0.375]), np.array([2 / 3, 1 / 3, 0.875])]], chemistry=['Zn', 'S']),
               np.array([[0, 1, 0], [1, 0, 0], [0, 0, 2]]), Nsolute=1))]
    if tier == 'thorough':
        out += [('HCP 3x3x2', lambda: supercell.Supercell(hcp, np.diag([3, 3, 2]), Nsolute=1)),
                ('FCC 3x3x3', lambda: supercell.Supercell(fcc, 3 * np.eye(3, dtype=int), Nsolute=1)),
                ('B2 nondiag det 6', lambda: supercell.Supercell(b2, np.array([[1, 1, 0], [0, 2, 0], [0, 0, 3]]), Nsolute=1))]
    return out


def w_supercell(arg):
    idx, tier, seed = arg
    from vf.common import repo_on_path; repo_on_path()
    import warnings; warnings.filterwarnings('ignore')
    label, build = super_configs(tier)[idx]
    sup = build(); acc = Acc(label)
    rng = np.random.default_rng(seed * 61 + idx)
    L = sup.N * sup.size
    G = sorted(sup.G, key=lambda g: g.indexmap[0])
    species = [sup.atomindices[n % sup.N][0] for n in range(L)]
    wyck = {}
    for w, ws in enumerate(sup.Wyckofflist):
        for n in ws: wyck[n] = w
    for g in G:
        m = g.indexmap[0]
        acc.check(sorted(m) == list(range(L)), 'operation-is-a-site-permutation', '', sig='perm')
        ok = all(np.allclose((lambda d: d - np.round(d))(sup.pos[m[n]] - (g.rot @ sup.pos[n] + g.trans)), 0, atol=1e-8) for n in range(L))
        acc.check(ok, 'permutation-consistent-with-geometry', 'rot=%s trans=%s' % (g.rot.tolist(), g.trans), sig='geom')
        acc.check(all(species[m[n]] == species[n] and wyck[m[n] % sup.N] == wyck[n % sup.N] for n in range(L)), 'permutation-preserves-sublattice', '', sig='chem')
        acc.check(np.allclose(g.cartrot @ sup.lattice, sup.lattice @ g.rot, atol=1e-8), 'cartesian-rotation-consistent', '', sig='cart')
    # every supercell site is a crystal site of the right species (positions through the supercell lattice)
    ok = True
    for n in range(L):
        ci = sup.atomindices[n % sup.N]
        u = np.linalg.solve(sup.crys.lattice, sup.lattice @ sup.pos[n]) - sup.crys.basis[ci[0]][ci[1]]
        if not np.allclose(u, np.round(u), atol=1e-8): ok = False
    acc.check(ok, 'supercell-sites-are-crystal-sites-of-the-recorded-type', '', sig='sites')
    ncomp = sum(1 for g0 in sup.crys.G if np.all((sup.invsuper @ g0.rot @ sup.superlatt) % sup.size == 0))
    acc.check(len(G) == ncomp * sup.size, 'group-order-is-compatible-point-operations-times-translations', '%d vs %d*%d' % (len(G), ncomp, sup.size), sig='order')
    # equivalence mapping
    def random_occ():
        s = sup.copy()
        for i in range(L): s.setocc(i, -1)
        for ci in sup.atomindices:
            if ci[0] not in (sup.interstitial or ()): s.fillperiodic(ci, Wyckoff=False)
        ndef = int(rng.integers(1, 4))
        for _ in range(ndef):
            i = int(rng.integers(L))
            native = sup.atomindices[i % sup.N][0]
            choices = [c for c in range(-1, sup.Nchem) if c != (native if native not in (sup.interstitial or ()) else -1)]
            s.setocc(i, int(rng.choice(choices)))
        return s
    def brute(s1, s2):
        return any(np.array_equal((g * s1).occ, s2.occ) for g in G)
    ntr = 12 if tier == 'quick' else 60
    for t in range(ntr):
        s1 = random_occ()
        g = G[int(rng.integers(len(G)))]
        s2 = g * s1
        lens = [len(l) for l in s2.chemorder]
        s2.reorder([list(rng.permutation(n)) for n in lens])
        gm, mapping = s1.equivalencemap(s2)
        acc.check(gm is not None, 'equivalence-found-for-symmetry-related-occupations', 'related by %s' % (g.indexmap[0],), sig=('rel', t))
        if gm is not None:
            gs = gm * s1
            ok = np.array_equal(gs.occ, s2.occ) and all(gs.chemorder[c][mapping[c][i]] == s2.chemorder[c][i] for c in range(len(mapping)) for i in range(len(mapping[c])))
            acc.check(ok and gm in sup.G, 'returned-operation-and-mapping-transform-one-into-the-other', '', sig=('sound', t))
            try:
                acc.check(gs.reorder(mapping) == s2, 'reorder-with-returned-mapping-gives-the-other-supercell', '', sig=('reorder', t))
            except Exception as ex:
                acc.check(False, 'reorder-with-returned-mapping-gives-the-other-supercell', '%s: %s' % (type(ex).__name__, ex))
        # the same question after a history on ONE object: query, transform in place, query again
        s4 = s1.copy(); s4.KrogerVink(); s4.defectindices()
        g2 = G[int(rng.integers(len(G)))]
        s4 *= g2
        gm4, mp4 = s4.equivalencemap(s2)
        acc.check(gm4 is not None and np.array_equal((gm4 * s4).occ, s2.occ), 'equivalence-found-after-in-place-transformation', 'after KrogerVink(); sup *= g', sig=('hist', t))
        gm5, mp5 = s2.equivalencemap(s4)
        acc.check(gm5 is not None, 'equivalence-is-found-in-both-directions', '', sig=('back', t))
        # a second, independent occupation: answer must agree with brute force over the group
        s3 = random_occ()
        gm3, mp3 = s1.equivalencemap(s3)
        acc.check((gm3 is not None) == brute(s1, s3), 'equivalence-reported-iff-some-operation-relates-the-occupations', 'reported %s, brute force %s' % (gm3 is not None, brute(s1, s3)), sig=('iff', t))
        if gm3 is not None:
            acc.check(np.array_equal((gm3 * s1).occ, s3.occ), 'returned-operation-and-mapping-transform-one-into-the-other', '', sig=('sound3', t))
    acc.sample = {'supercell': label, 'sites': L, 'group_order': len(G), 'checked': 'operations are geometric permutations; equivalencemap sound and complete vs brute force'}
    return acc.result()
