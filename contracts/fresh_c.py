"""Ownership contracts (vf.pyframe.fresh) behind C14: what VacancyMediated.Lij returns shares no storage with anything that outlives
the call, what it memoises is private or never handed out, and it modifies no shared array in place -- for every call history."""
from vf.pyframe.fresh import FRESH, ALIAS, VALUE

CONTRACTS = {
    'VacancyMediated.Lij': dict(
        relpath='onsager/OnsagerCalc.py', qualname='VacancyMediated.Lij',
        params={'self': VALUE, 'bFV': ALIAS, 'bFS': ALIAS, 'bFSV': ALIAS, 'bFT0': ALIAS, 'bFT1': ALIAS, 'bFT2': ALIAS, 'large_om2': VALUE},
        caches=('self.GFvalues', 'self.Lvvvalues', 'self.etavvalues'), value_methods=('iszero',),
        callees={'vacancyThermoKinetics': ALIAS, 'vTK._asdict': ALIAS,
                 'self.GFvalues.get': ALIAS, 'self.Lvvvalues.get': ALIAS, 'self.etavvalues.get': ALIAS,
                 'self.GFcalc.SetRates': VALUE, 'self.GFcalc.Diffusivity': ALIAS,       # returns the calculator's own D (see GFCrystalcalc.Diffusivity)
                 'self.GFcalc.biascorrection': ALIAS,      # without argument it returns the calculator's own eta
                 'self.GFcalc': VALUE,
                 'self._symmetricandescaperates': [FRESH] * 6},
        assumed=['VacancyMediated._symmetricandescaperates returns fresh arrays (its own contract, checked in the same run)',
                 'GFCrystalcalc.D and .eta are only ever re-bound, never stored into (class-level obligation, checked in the same run): the arrays memoised in Lvvvalues / etavvalues stay what they were']),
    'VacancyMediated._symmetricandescaperates': dict(
        relpath='onsager/OnsagerCalc.py', qualname='VacancyMediated._symmetricandescaperates',
        params={'self': VALUE, 'bFV': ALIAS, 'bFSVkinetic': ALIAS, 'bFT0': ALIAS, 'bFT1': ALIAS, 'bFT2': ALIAS}, caches=(), callees={}, globals=('itertools',)),
}
# C24: a copied / summed StarSet shares no mutable container with its operands (the operands of an addition stay what they were)
_SS_MUTABLE = ['jumpnetwork_index', 'jumplist', 'stars', 'states', 'index', 'indexdict']
STARSET_CONTRACTS = {
    'StarSet.copy': dict(
        relpath='onsager/crystalStars.py', qualname='StarSet.copy', params={'self': VALUE, 'empty': VALUE},
        new_objects={'newStarSet': _SS_MUTABLE}, deep_fields=('stars', 'jumpnetwork_index'), callees={'newStarSet.generate': VALUE}, caches=()),
    'StarSet.__iadd__': dict(
        relpath='onsager/crystalStars.py', qualname='StarSet.__iadd__', params={'self': VALUE, 'other': ALIAS},
        new_objects={'self': _SS_MUTABLE}, deep_fields=('stars', 'jumpnetwork_index'), owned_fields=tuple('self.' + f for f in _SS_MUTABLE), value_fields=('self.Nshells', 'self.Nstates', 'self.Nstars', 'self.chem', 'self.crys', 'self.__class__'),
        callees={}, caches=(), returns_self=True, value_methods=('iszero', 'g', 'add'), globals=('PairState', 'copy')),
    'StarSet.__add__': dict(
        relpath='onsager/crystalStars.py', qualname='StarSet.__add__', params={'self': ALIAS, 'other': ALIAS},
        callees={'self.copy': FRESH, 'other.copy': FRESH, 'scopy.__iadd__': VALUE}, caches=(),
        assumed=['StarSet.copy returns an object sharing no mutable container with its receiver; StarSet.__iadd__ modifies only its receiver (their own contracts, checked in the same run)']),
}
# C18 / C23: a Crystal shares no array with the arguments it was built from (later in-place edits by the caller cannot reach it)
CRYSTAL_CONTRACTS = {
    'Crystal.__init__': dict(
        relpath='onsager/crystal.py', qualname='Crystal.__init__',
        params={'self': VALUE, 'lattice': ALIAS, 'basis': ALIAS, 'chemistry': ALIAS, 'spins': ALIAS, 'NOSYM': VALUE, 'noreduce': VALUE, 'threshold': VALUE},
        new_objects={'self': ['lattice', 'basis', 'spins', 'chemistry', 'invlatt', 'metric', 'reciplatt']}, deep_fields=('basis', 'spins'),
        callees={'incell': FRESH, 'self.reduce': VALUE, 'self.minlattice': VALUE, 'self.calcmetric': [VALUE, FRESH], 'self.genBZG': FRESH, 'self.center': VALUE,
                 'self.gengroup': VALUE, 'self.genpoint': VALUE, 'self.genWyckoffsets': VALUE, 'GroupOp.ident': VALUE},
        caches=(), value_fields=('self.dim', 'self.N', 'self.Nchem', 'self.threshold'),
        assumed=['incell returns a new array (its own contract, checked in the same run)',
                 'reduce / minlattice / center / gengroup work on the fields of the crystal only (they receive no constructor argument)']),
    'incell': dict(relpath='onsager/crystal.py', qualname='incell', params={'vec': ALIAS}, callees={}, caches=()),
}
# C25 / C20: the site vector basis handed out is a new object each time (FullVectorBasis normalises what it receives IN PLACE)
VECTORBASIS_CONTRACTS = {
    'Crystal.VectorBasis': dict(relpath='onsager/crystal.py', qualname='Crystal.VectorBasis', params={'self': VALUE, 'ind': VALUE},
                                callees={'reduce': FRESH, 'VectorBasis': FRESH, 'g.eigen': FRESH}, globals=('CombineVectorBasis',), caches=(),
                                assumed=['functools.reduce over a list of new objects with CombineVectorBasis returns a new object or one of the list elements (never stored state)']),
}
CLASS_FIELDS = [('onsager/GFcalc.py', 'GFCrystalcalc', ['D', 'eta'])]


def run(rep, contracts=None, class_fields=None):
    import time
    from vf import extract
    from vf.common import Ob, Undecided
    from vf.pyframe import fresh
    for k, c in (CONTRACTS if contracts is None else contracts).items():
        fq = '%s::%s' % (c['relpath'], c['qualname']); t = time.time()
        try:
            fn = extract.get(c['relpath'], c['qualname'])
        except KeyError as ex:
            rep.add(Ob('ownership:%s:function-present' % k, 'P', 'undecided', 'ownership-typing', 0., str(ex), function=fq)); continue
        rep.under_contract(fq, c['relpath'], fn.l0, fn.l1)
        try:
            obs = fresh.Checker(c, fn).run()
        except Undecided as ex:
            rep.add(Ob('ownership:%s:supported-subset' % k, 'P', 'undecided', 'ownership-typing', time.time() - t, str(ex), function=fq)); continue
        if not any(o[0].startswith(('returns-fresh', 'new-object-field-private')) for o in obs):
            rep.add(Ob('ownership:%s:obligation-count' % k, 'P', 'fault', 'ownership-typing', 0., 'no return obligation generated', function=fq)); continue
        for (name, ok, detail, line) in obs:
            rep.add(Ob('ownership:%s:%s' % (k, name), 'P', 'ok' if ok else 'fail', 'ownership-typing (AST walk)', (time.time() - t) / len(obs), detail,
                       witness=None if ok else dict(replayed=False, line=line, signature='%s|%s' % (k, name.split('@')[0])), function=fq))
        for a in c.get('assumed', []): rep.assume('ownership contract of %s assumes: %s' % (k, a))
    for rel, cls, fields in (CLASS_FIELDS if class_fields is None else class_fields):
        tree, src = extract.module_ast(rel)
        bad = fresh.fields_only_rebound(tree, cls, fields)
        rep.add(Ob('ownership:%s:fields-rebound-not-mutated:%s' % (cls, ','.join(fields)), 'P', 'fail' if bad else 'ok', 'ownership-typing (AST walk)', 0.,
                   '; '.join('line %d: %s' % (l, t) for f, l, t in bad), witness=None if not bad else dict(replayed=False, signature='%s|rebound' % cls), function='%s::%s' % (rel, cls)))
    rep.trust('numpy operations and constructors return new arrays, `.copy()` copies, elements / slices / transposes of an array are views of it (ownership rules of vf.pyframe.fresh)')
