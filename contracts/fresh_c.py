"""Ownership contracts (vf.pyframe.fresh) behind C14: what VacancyMediated.Lij returns shares no storage with anything that outlives
the call, what it memoises is private or never handed out, and it modifies no shared array in place -- for every call history."""
from vf.pyframe.fresh import FRESH, ALIAS, VALUE

CONTRACTS = {
    'VacancyMediated.Lij': dict(
        relpath='onsager/OnsagerCalc.py', qualname='VacancyMediated.Lij',
        params={'self': VALUE, 'bFV': ALIAS, 'bFS': ALIAS, 'bFSV': ALIAS, 'bFT0': ALIAS, 'bFT1': ALIAS, 'bFT2': ALIAS, 'large_om2': VALUE},
        caches=('self.GFvalues', 'self.Lvvvalues', 'self.etavvalues'), value_methods=('iszero',),
        callees={'vacancyThermoKinetics': ALIAS, 'vTK._asdict': ALIAS,
                 'self.GFvalues.get': ALIAS, 'self.Lvvvalues.get': ALIAS, 'self.etavvalues.get': ALIAS,
                 'self.GFcalc.SetRates': VALUE, 'self.GFcalc.Diffusivity': ALIAS,       # returns the calculator's own D (see GFCrystalcalc.Diffusivity)
                 'self.GFcalc.biascorrection': ALIAS,      # without argument it returns the calculator's own eta
                 'self.GFcalc': VALUE,
                 'self._symmetricandescaperates': [FRESH] * 6},
        assumed=['VacancyMediated._symmetricandescaperates returns fresh arrays (its own contract, checked in the same run)',
                 'GFCrystalcalc.D and .eta are only ever re-bound, never stored into (class-level obligation, checked in the same run): the arrays memoised in Lvvvalues / etavvalues stay what they were']),
    'VacancyMediated._symmetricandescaperates': dict(
        relpath='onsager/OnsagerCalc.py', qualname='VacancyMediated._symmetricandescaperates',
        params={'self': VALUE, 'bFV': ALIAS, 'bFSVkinetic': ALIAS, 'bFT0': ALIAS, 'bFT1': ALIAS, 'bFT2': ALIAS}, caches=(), callees={}, globals=('itertools',)),
}
CLASS_FIELDS = [('onsager/GFcalc.py', 'GFCrystalcalc', ['D', 'eta'])]


def run(rep):
    import time
    from vf import extract
    from vf.common import Ob, Undecided
    from vf.pyframe import fresh
    for k, c in CONTRACTS.items():
        fq = '%s::%s' % (c['relpath'], c['qualname']); t = time.time()
        try:
            fn = extract.get(c['relpath'], c['qualname'])
        except KeyError as ex:
            rep.add(Ob('ownership:%s:function-present' % k, 'P', 'undecided', 'ownership-typing', 0., str(ex), function=fq)); continue
        rep.under_contract(fq, c['relpath'], fn.l0, fn.l1)
        try:
            obs = fresh.Checker(c, fn).run()
        except Undecided as ex:
            rep.add(Ob('ownership:%s:supported-subset' % k, 'P', 'undecided', 'ownership-typing', time.time() - t, str(ex), function=fq)); continue
        if not any(o[0].startswith('returns-fresh') for o in obs):
            rep.add(Ob('ownership:%s:obligation-count' % k, 'P', 'fault', 'ownership-typing', 0., 'no return obligation generated', function=fq)); continue
        for (name, ok, detail, line) in obs:
            rep.add(Ob('ownership:%s:%s' % (k, name), 'P', 'ok' if ok else 'fail', 'ownership-typing (AST walk)', (time.time() - t) / len(obs), detail,
                       witness=None if ok else dict(replayed=False, line=line, signature='%s|%s' % (k, name.split('@')[0])), function=fq))
        for a in c.get('assumed', []): rep.assume('ownership contract of %s assumes: %s' % (k, a))
    for rel, cls, fields in CLASS_FIELDS:
        tree, src = extract.module_ast(rel)
        bad = fresh.fields_only_rebound(tree, cls, fields)
        rep.add(Ob('ownership:%s:fields-rebound-not-mutated:%s' % (cls, ','.join(fields)), 'P', 'fail' if bad else 'ok', 'ownership-typing (AST walk)', 0.,
                   '; '.join('line %d: %s' % (l, t) for f, l, t in bad), witness=None if not bad else dict(replayed=False, signature='%s|rebound' % cls), function='%s::%s' % (rel, cls)))
    rep.trust('numpy operations and constructors return new arrays, `.copy()` copies, elements / slices / transposes of an array are views of it (ownership rules of vf.pyframe.fresh)')
