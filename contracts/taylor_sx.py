"""C16, level S (symbolic-bounded): the real Taylor3D / Taylor2D arithmetic executed on *symbolic* coefficient arrays.

The methods under contract are the repository's own function objects (module onsager.PowerExpansion, imported from the
current tree).  They are run on numpy object arrays whose entries are sympy symbols, one per coefficient, so one run covers
every complex value of every coefficient; the postcondition  V(result) - op(V(operands)) == 0  is then a polynomial identity
in the coefficient symbols, the direction components x, y(, z) and the radial symbol r, decided by sympy expansion.

What is replaced while they run: the module global `np` is a proxy that forwards everything to numpy except
`zeros(..., dtype=complex)`, which returns an object array of exact zeros (a complex128 array cannot hold a symbol).
Nothing else of the code is touched.  The branches of these methods depend only on the *structure* of the operands (the
(n, l) list, the array shapes), never on coefficient values, so each structure below is one complete path; the
structures are enumerated exhaustively over l = 0..Lmax for operands of one or two terms (bounded: <= 2 terms per operand,
the listed value shapes).  Arithmetic is exact (integers from the index tables, symbols): floating-point rounding of the
real runs is not modelled."""
import itertools, time
import numpy as np
import sympy as sp


class NPProxy:
    def __init__(self, real): self._np = real
    def __getattr__(self, k): return getattr(self._np, k)
    def zeros(self, shape, dtype=float, **kw):
        if dtype is complex:
            a = np.empty(shape, dtype=object); a[...] = sp.Integer(0); return a
        return self._np.zeros(shape, dtype=dtype, **kw)


def nmono(dim, l): return (l + 1) * (l + 2) * (l + 3) // 6 if dim == 3 else (l + 1) * (l + 2) // 2


def symexp(cls, dim, name, struct, shape):
    out = []
    for n, l in struct:
        N = nmono(dim, l)
        a = np.empty((N,) + shape, dtype=object)
        for idx in np.ndindex(a.shape):
            a[idx] = sp.Symbol('%s_%d_%d_%s' % (name, n if n >= 0 else 100 - n, l, '_'.join(map(str, idx))))
        out.append((n, l, a))
    return cls(out)


def Vsym(cls, dim, T, X, r, nmax=None):
    tot = 0
    for n, l, c in getattr(T, 'coefflist', T):
        if nmax is not None and n > nmax: continue
        N = nmono(dim, l)
        if c.shape[0] != N: raise ValueError('term (%d,%d) has %d rows, expected %d' % (n, l, c.shape[0], N))
        mon = np.array([sp.prod([X[i] ** int(cls.ind2pow[p][i]) for i in range(dim)]) for p in range(N)], dtype=object)
        tot = tot + r ** n * np.tensordot(mon, c, axes=1)
    return tot


def is_zero(e):
    e = np.asarray(e, dtype=object)
    for v in e.flat:
        if sp.expand(v) != 0: return False
    return True


def snap(T): return [(n, l, c.copy()) for n, l, c in T.coefflist]


def same(s, T):
    return len(s) == len(T.coefflist) and all(a[0] == b[0] and a[1] == b[1] and a[2].shape == b[2].shape and bool(np.all(a[2] == b[2])) for a, b in zip(s, T.coefflist))


def structures(L):
    one = [[(0, l)] for l in range(L + 1)]
    two = [[(0, l1), (1, l2)] for l1 in range(L + 1) for l2 in range(L + 1)]
    return one, two


def tasks(tier):
    """(dim, operation, structure A, structure B, shapes)"""
    L = 4
    out = []
    for dim in (3, 2):
        # sums: matched n with every (la, lb); unmatched n; two-term operands (merge + append + sort)
        for la in range(L + 1):
            for lb in range(L + 1):
                out.append((dim, 'sum', [(0, la)], [(0, lb)], ((), ())))
        for la, lb in ((0, 3), (2, 2), (4, 1)):
            out.append((dim, 'sum', [(1, la)], [(0, lb)], ((), ())))
            out.append((dim, 'sum', [(-1, la), (1, lb)], [(0, lb), (1, la)], ((), ())))
            out.append((dim, 'sum', [(0, la)], [(0, lb)], ((2, 2), (2, 2))))
        # products: every (la, lb) with la + lb <= Lmax, scalar x scalar; matrices for a subset; two-term operands (terms of equal n merge)
        for la in range(L + 1):
            for lb in range(L + 1 - la):
                out.append((dim, 'mul', [(0, la)], [(1, lb)], ((), ())))
        for la, lb in ((1, 1), (0, 2), (2, 1), (1, 3) if tier != 'quick' else (1, 0)):
            out.append((dim, 'mul', [(0, la)], [(2, lb)], ((2, 2), (2, 2))))
            out.append((dim, 'mul', [(0, la)], [(-2, lb)], ((), (2, 2))))
            out.append((dim, 'mul', [(0, la)], [(1, lb)], ((2, 3), (3,))))
        out.append((dim, 'mul', [(0, 1), (1, 2)], [(0, 2), (1, 1)], ((), ())))
        out.append((dim, 'mul', [(0, 0), (2, 2)], [(-2, 0), (0, 2)], ((2, 2), (2, 2))))
        # scalar / matrix products, truncation, slices, negation
        for l in (0, 2, 4):
            out.append((dim, 'scalar', [(0, l), (2, 1)], None, ((2, 2), None)))
            out.append((dim, 'ldot-rdot', [(0, l), (1, 1)], None, ((2, 2), None)))
            out.append((dim, 'misc', [(-1, l), (0, 1), (3, 2)], None, ((2, 2), None)))
        # the class keeps terms in whatever order it is given (constructor, ldot/rdot, slices, HDF5 loading in key order): operations must
        # not rely on increasing n
        out.append((dim, 'misc', [(3, 1), (-1, 0), (0, 2)], None, ((2, 2), None)))
        out.append((dim, 'misc', [(2, 0), (-1, 1), (1, 1), (0, 0)], None, ((2, 2), None)))
    return out


def run_task(task):
    from vf.common import repo_on_path; repo_on_path()
    from onsager import PowerExpansion as PE
    dim, op, sa, sb, (sha, shb) = task
    cls = PE.Taylor3D if dim == 3 else PE.Taylor2D
    cls()
    name = '%dD:%s:%s%s%s' % (dim, op, sa, ('x%s' % sb) if sb else '', '' if not (sha or shb) else ':%s%s' % (sha, shb or ''))
    name = name.replace(' ', '')
    t0 = time.time()
    X = sp.symbols('x y z')[:dim]; r = sp.Symbol('r')
    real_np = PE.np
    PE.np = NPProxy(real_np)
    fails = []
    try:
        A = symexp(cls, dim, 'a', sa, sha); a0 = snap(A); va = Vsym(cls, dim, A, X, r)
        if sb is not None:
            B = symexp(cls, dim, 'b', sb, shb); b0 = snap(B); vb = Vsym(cls, dim, B, X, r)
        def post(label, R, want, operands=True):
            if not is_zero(Vsym(cls, dim, R, X, r) - want): fails.append(label + ': value')
            if operands and not (same(a0, A) and (sb is None or same(b0, B))): fails.append(label + ': an operand changed')
        if op == 'sum':
            al, be = sp.symbols('alpha beta')
            post('A+B', A + B, va + vb); post('B+A', B + A, va + vb); post('A-B', A - B, va - vb)
            post('sumcoeff(alpha,beta)', cls(cls.sumcoeff(A, B, al, be)), al * va + be * vb)
            post('sum([A,B,B])', sum([A, B, B]), va + 2 * vb)
            C = cls(a0); C += B; post('A+=B', C, va + vb)
            C = cls(a0); C -= B; post('A-=B', C, va - vb)
            C = cls(a0); C += B; C += B; post('A+=B;A+=B', C, va + 2 * vb)      # a second in-place sum must not write through to B
            R = A + B
            for n_, l_, c_ in R.coefflist: c_[...] = sp.Integer(7)
            if not (same(a0, A) and same(b0, B)): fails.append('A+B: result shares storage with an operand')
        elif op == 'mul':
            def mul(x, y):
                return x * y if (np.ndim(x) == 0 or np.ndim(y) == 0) else np.tensordot(x, y, axes=1)
            post('A*B', A * B, mul(va, vb))
            post('coeffproductcoeff', cls(cls.coeffproductcoeff(A, B)), mul(va, vb))
        elif op == 'scalar':
            s = sp.Symbol('s')
            post('scalarproductcoeff(s)', cls(cls.scalarproductcoeff(s, A)), s * va)      # every scalar s
            post('7*A', 7 * A, 7 * va); post('A*(2+3j)', A * (2 + 3j), (2 + 3 * sp.I) * va)   # the operator dispatch, for numbers
            post('-A', -A, -va); post('+A', +A, va)
            d = {(n, l): sp.Symbol('d%d' % i) for i, (n, l, c) in enumerate(A.coefflist)}
            post('A*dict', A * d, sum(d[(n, l)] * Vsym(cls, dim, [(n, l, c)], X, r) for n, l, c in A.coefflist))
            C = cls(a0); cls.scalarproductcoeff(s, C, inplace=True); post('scalarproductcoeff-inplace', C, s * va)
        elif op == 'ldot-rdot':
            M = np.array(sp.symbols('m0:6'), dtype=object).reshape(3, 2); N = np.array(sp.symbols('k0:6'), dtype=object).reshape(2, 3)
            post('ldot', A.ldot(M), np.tensordot(M, va, axes=1)); post('rdot', A.rdot(N), np.tensordot(va, N, axes=1))
            Q = np.array(sp.symbols('q0:4'), dtype=object).reshape(2, 2)
            C = cls(a0); C.ildot(Q); post('ildot', C, np.tensordot(Q, va, axes=1))
            C = cls(a0); C.irdot(Q); post('irdot', C, np.tensordot(va, Q, axes=1))
        elif op == 'misc':
            for nm in (-2, -1, 0, 2, 3):
                post('truncate(%d)' % nm, A.truncate(nm), Vsym(cls, dim, A, X, r, nmax=nm))
                C = cls(a0); C.truncate(nm, inplace=True); post('truncate-inplace(%d)' % nm, C, Vsym(cls, dim, a0, X, r, nmax=nm))
            post('A[0]', A[0], va[0]); post('A[1,0]', A[1, 0], va[1, 0]); post('A[:,1:]', A[:, 1:], va[:, 1:])
            post('copy', A.copy(), va)
            Z = cls.zeros(-1, 3, (2, 2)); Bv = symexp(cls, dim, 'b', sa, (2,))
            Z[1, :] = Bv
            vz = Vsym(cls, dim, Z, X, r); vbv = Vsym(cls, dim, Bv, X, r)
            if not (is_zero(vz[1, :] - vbv) and is_zero(vz[0, :])): fails.append('slice assignment: value')
    except Exception as ex:
        PE.np = real_np
        return (name, 'undecided', time.time() - t0, '%s: %s' % (type(ex).__name__, str(ex)[:200]), None)
    PE.np = real_np
    if fails:
        return (name, 'fail', time.time() - t0, '; '.join(fails[:4]), {'replayed': False, 'signature': '%s|%s' % (op, fails[0])})
    return (name, 'ok', time.time() - t0, '', None)


def replay_numeric(task, seed=0):
    """replay a failed symbolic obligation with concrete random coefficients on the unmodified numpy path"""
    from vf.common import repo_on_path; repo_on_path()
    from onsager import PowerExpansion as PE
    from contracts import taylor_rt as TR
    dim, op, sa, sb, (sha, shb) = task
    cls = PE.Taylor3D if dim == 3 else PE.Taylor2D
    cls()
    rng = np.random.default_rng(seed)
    mk = lambda st, sh: cls([(n, l, (rng.normal(size=(nmono(dim, l),) + sh) + 1j * rng.normal(size=(nmono(dim, l),) + sh))) for n, l in st])
    A = mk(sa, sha); q = rng.normal(size=dim)
    try:
        if op == 'sum':
            B = mk(sb, shb); va, vb = TR.V(cls, dim, A, q), TR.V(cls, dim, B, q)
            S = A + B
            bad = not TR.close(TR.V(cls, dim, S, q), va + vb) or not TR.close(TR.V(cls, dim, B, q), vb) or not TR.close(TR.V(cls, dim, A, q), va)
            C = A.copy(); C += B; C += B
            bad = bad or not TR.close(TR.V(cls, dim, C, q), va + 2 * vb) or not TR.close(TR.V(cls, dim, B, q), vb)
            return {'replayed': bad, 'observed': 'sum of random expansions with structures %s + %s at q=%s %s' % (sa, sb, q.tolist(), 'violates' if bad else 'satisfies') + ' V(A+B)=V(A)+V(B) / operands unchanged'}
        if op == 'mul':
            B = mk(sb, shb); va, vb = TR.V(cls, dim, A, q), TR.V(cls, dim, B, q)
            w = va * vb if (np.ndim(va) == 0 or np.ndim(vb) == 0) else np.tensordot(va, vb, axes=1)
            bad = not TR.close(TR.V(cls, dim, A * B, q), w)
            return {'replayed': bad, 'observed': 'product of random expansions with structures %s x %s at q=%s %s V(A*B)=V(A)V(B)' % (sa, sb, q.tolist(), 'violates' if bad else 'satisfies')}
    except Exception as ex:
        return {'replayed': True, 'observed': 'raises %s: %s' % (type(ex).__name__, ex)}
    return {'replayed': False}


def run_all(rep, tier):
    from vf.common import Ob
    import multiprocessing as mp
    ts = tasks(tier)
    with mp.get_context('fork').Pool(min(16, len(ts))) as pool:
        res = pool.map(run_task, ts, chunksize=1)
    for task, (nm, status, secs, detail, wit) in zip(ts, res):
        if status == 'fail':
            w = replay_numeric(task)
            wit = dict(wit, **w)
            if w.get('observed'): detail += ' | replay: ' + w['observed']
        rep.add(Ob('symbolic:' + nm, 'S', status, 'sympy-expand' if status != 'undecided' else 'symbolic-run', secs, detail, witness=wit, function='onsager/PowerExpansion.py::Taylor3D'))
    rep.extra['symbolic_structures'] = len(ts)
