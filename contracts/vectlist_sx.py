"""Contract of Crystal.vectlist (the orthonormal frame of a site's vector basis) discharged symbolically (E4 style), for every
unit vector: the real function body, extracted from /repo on every run, is executed on a symbolic basis vector
n = (n0, n1[, n2]) under the relation |n|^2 = 1; every `if` whose test is not decided by the symbolic values forks the run
(path enumeration: each path carries its decisions), and on every path the returned list must satisfy

    dim 0 : empty list                        dim 1 : the list [n]
    dim d : an orthonormal frame of R^d       dim 2 (3D) : two orthonormal vectors, both orthogonal to the normal n

as identities of rational functions modulo n.n = 1 (sqrt(e)^2 = e for the radicands that occur).  A refuted path is replayed on
the real function with a numeric unit vector chosen on that path.

What the execution assumes: numpy object arrays of sympy expressions behave like float arrays for + - * / dot cross
(np.sqrt is mapped to sympy.sqrt); floats are reals.  What extraction drops: the docstring and the @staticmethod decorator."""
import ast, itertools, time
import numpy as np
import sympy as sp
from vf import extract
from vf.common import Ob

REL, QN = 'onsager/crystal.py', 'Crystal.vectlist'


class _NP:
    """numpy shim: sqrt / abs on symbolic entries"""
    def __getattr__(self, k): return getattr(np, k)
    @staticmethod
    def sqrt(x):
        if isinstance(x, np.ndarray) and x.dtype == object: return np.array([sp.sqrt(e) for e in x.ravel()], dtype=object).reshape(x.shape)
        return sp.sqrt(x) if isinstance(x, sp.Basic) else np.sqrt(x)
    @staticmethod
    def array(x, *a, **k):
        if any(isinstance(e, sp.Basic) for e in np.ravel(np.asarray(x, dtype=object))): return np.array(x, dtype=object)
        return np.array(x, *a, **k)
    @staticmethod
    def eye(n, *a, **k): return np.eye(n, *a, **k)


class _Fork(Exception): pass


def _instrument(fn):
    """rewrite every `if test:` into `if __br__(k, test):` (k = ordinal in source order)"""
    node = ast.parse(ast.unparse(ast.Module(body=[ast.FunctionDef(name='f', args=fn.node.args, body=fn.body, decorator_list=[], lineno=1, col_offset=0)], type_ignores=[])))
    k = [0]
    class T(ast.NodeTransformer):
        def visit_If(self, n):
            self.generic_visit(n)
            n.test = ast.Call(func=ast.Name(id='__br__', ctx=ast.Load()), args=[ast.Constant(k[0]), n.test], keywords=[]); k[0] += 1
            return n
    node = ast.fix_missing_locations(T().visit(node))
    return node, k[0]


def _run_paths(fn, arg):
    """-> list of (decisions {k: (test expr, taken)}, result) over all feasible decision vectors of undecided tests"""
    node, nif = _instrument(fn)
    code = compile(node, '<extracted %s>' % QN, 'exec')
    out = []
    pending = [dict()]
    seen = set()
    while pending:
        script = pending.pop()
        taken = {}
        def br(k, t):
            if isinstance(t, (bool, np.bool_)): return bool(t)
            if t is sp.true: return True
            if t is sp.false: return False
            if isinstance(t, sp.Basic):
                if k in script: taken[k] = (t, script[k]); return script[k]
                # undecided: take True now, schedule False
                alt = dict(script); alt.update({kk: v[1] for kk, v in taken.items()}); alt[k] = False
                pending.append(alt)
                taken[k] = (t, True); return True
            return bool(t)
        ns = {'np': _NP(), '__br__': br, 'abs': lambda x: sp.Abs(x) if isinstance(x, sp.Basic) else abs(x)}
        exec(code, ns)
        res = ns['f'](arg)
        key = tuple(sorted((k, v[1]) for k, v in taken.items()))
        if key in seen: continue
        seen.add(key)
        out.append((taken, res))
    return out


def _zero(e, rel):
    e = sp.together(sp.expand(sp.sympify(e)))
    num, den = sp.fraction(e)
    num = sp.expand(num)
    if num == 0: return True
    gens = sorted(rel.free_symbols | num.free_symbols, key=str)
    try:
        if any(isinstance(a, sp.Pow) and a.exp.is_Rational and a.exp.q != 1 for a in sp.preorder_traversal(num)): return bool(sp.simplify(num.subs(gens[-1] ** 2, sp.solve(rel, gens[-1] ** 2)[0])) == 0)
        _, rem = sp.reduced(num, [rel], *gens)
        return sp.expand(rem) == 0
    except Exception:
        return False


def _numeric_point(d, taken, rng):
    """a numeric unit vector on the path (tests evaluated numerically)"""
    for _ in range(4000):
        v = rng.normal(size=d); v /= np.sqrt(v @ v)
        if all(bool(t.subs({sp.Symbol('n%d' % i, real=True): float(v[i]) for i in range(d)})) == want for (t, want) in taken.values()): return v
    return None


def run(rep, prefix='vectlist'):
    t0 = time.time()
    fq = '%s::%s' % (REL, QN)
    try:
        fn = extract.get(REL, QN)
    except KeyError as ex:
        rep.add(Ob('%s:function-present' % prefix, 'P', 'undecided', 'symx', 0., str(ex), function=fq)); return
    rep.under_contract(fq, REL, fn.l0, fn.l1)
    nob = 0
    rng = np.random.default_rng(5)
    for d in (2, 3):
        n = [sp.Symbol('n%d' % i, real=True) for i in range(d)]
        rel = sum(x ** 2 for x in n) - 1
        nv = np.array(n, dtype=object)
        for vd in range(0, d + 1):
            if vd == 2 and d == 3: kind = 'plane'
            elif vd == 1: kind = 'line'
            elif vd == 0: kind = 'point'
            else: kind = 'full'
            name0 = '%s:%dD:basis-dimension-%d(%s)' % (prefix, d, vd, kind)
            t1 = time.time()
            try:
                paths = _run_paths(fn, (vd, nv if vd not in (0, d) else np.zeros(d)))
            except Exception as ex:
                rep.add(Ob(name0 + ':supported-subset', 'P', 'undecided', 'symx path enumeration', time.time() - t1, 'symbolic execution of the extracted body failed: %s: %s' % (type(ex).__name__, str(ex)[:300]), function=fq)); nob += 1
                continue
            for taken, res in paths:
                pname = name0 + (''.join(':if#%d=%s' % (k, 'T' if v[1] else 'F') for k, v in sorted(taken.items())))
                ok, detail = True, ''
                try:
                    vl = [np.asarray(v, dtype=object) for v in res]
                    if len(vl) != vd: ok, detail = False, 'returned %d vectors for a basis of dimension %d' % (len(vl), vd)
                    else:
                        for a in range(vd):
                            for b in range(a, vd):
                                if not _zero(sum(x * y for x, y in zip(vl[a], vl[b])) - (1 if a == b else 0), rel):
                                    ok, detail = False, '<v%d|v%d> != %d modulo |n| = 1' % (a, b, int(a == b))
                        if ok and kind == 'plane' and not all(_zero(sum(x * y for x, y in zip(v, nv)), rel) for v in vl): ok, detail = False, 'a returned vector is not orthogonal to the plane normal'
                        if ok and kind == 'line' and not all(_zero(x - y, rel) for x, y in zip(vl[0], nv)): ok, detail = False, 'the returned vector is not the line direction'
                except Exception as ex:
                    rep.add(Ob(pname, 'P', 'undecided', 'symx path enumeration', time.time() - t1, '%s: %s' % (type(ex).__name__, str(ex)[:300]), function=fq)); nob += 1; continue
                wit = None
                if not ok:
                    wit = dict(replayed=False, signature=pname)
                    pt = _numeric_point(d, taken, rng) if kind in ('plane', 'line') else np.zeros(d)
                    if pt is not None:
                        try:
                            from vf.common import repo_on_path; repo_on_path()
                            from onsager import crystal
                            got = crystal.Crystal.vectlist((vd, np.array(pt)))
                            G = np.array([[float(np.dot(x, y)) for y in got] for x in got])
                            bad = (len(got) != vd) or not np.allclose(G, np.eye(vd), atol=1e-9) or (kind == 'plane' and not np.allclose([np.dot(x, pt) for x in got], 0, atol=1e-9))
                            wit = dict(replayed=bool(bad), signature=pname, input='Crystal.vectlist((%d, %r))' % (vd, pt.tolist()), observed='Gram matrix %s' % np.round(G, 6).tolist())
                        except Exception as ex:
                            wit['observed'] = 'replay raised %s: %s' % (type(ex).__name__, ex)
                rep.add(Ob(pname, 'P', 'ok' if ok else 'fail', 'symx path enumeration + sympy normal form modulo |n|^2 = 1', time.time() - t1, detail, witness=wit, function=fq)); nob += 1
    # canary: the relation must not make everything vanish (a frame with an un-normalised vector has to be refuted)
    n3 = [sp.Symbol('n%d' % i, real=True) for i in range(3)]
    if _zero(n3[0] ** 2 + n3[1] ** 2 - 1, sum(x ** 2 for x in n3) - 1):
        rep.add(Ob('%s:canary' % prefix, 'P', 'fault', 'symx', 0., 'the normal-form test accepts n0^2 + n1^2 = 1 for a 3D unit vector: it is vacuous', function=fq))
    if nob == 0:
        rep.add(Ob('%s:obligation-count' % prefix, 'P', 'fault', 'symx', 0., 'no obligation generated', function=fq))
    rep.assume('Crystal.vectlist contract: the basis vector handed in is a unit vector (established by VectorBasis / CombineVectorBasis; checked at run time in C20)')
    rep.trust('numpy object arrays of sympy expressions behave like float arrays for + - * / dot cross; floats are reals; sympy normal forms')
