"""C16 / C17 run-time contracts for onsager.PowerExpansion (Taylor3D and Taylor2D).

Abstract view of an expansion:  V(T)(q) = sum over terms (n, l, c) of |q|^n * sum_{p < N(l)} c[p] * qhat^pow(p)
with N(l) the number of monomials of total degree <= l.  V is written here from the documentation of the data
layout (own monomial count, own evaluation loop); the library's evaluator __call__ is itself put under contract
against V.  Every operation then gets the postcondition "V(result) == operation applied to V(operands)" together
with the frame "operands that are not modified in place keep their value, and the result shares no storage with them".

The finite index tables are decided exhaustively for the library's fixed maximum order (Lmax = 4) against scipy's
spherical harmonics / complex exponentials evaluated at sampled directions (a linear-algebra identity per table
entry block, residual 1e-11)."""
import itertools
import numpy as np
from vf.rtc.runner import Acc

TOL = 2e-9


def nmono(dim, l):
    if l < 0: return 0
    return (l + 1) * (l + 2) * (l + 3) // 6 if dim == 3 else (l + 1) * (l + 2) // 2


def unit(rng, dim):
    v = rng.normal(size=dim)
    return v / np.sqrt(v @ v)


def V(cls, dim, coefflist, q, nmax=None):
    """the abstract value (own evaluation; uses only the monomial table ind2pow, itself checked exhaustively)"""
    coefflist = getattr(coefflist, 'coefflist', coefflist)
    qm = np.sqrt(q @ q); u = q / qm
    tot = 0
    for n, l, c in coefflist:
        if nmax is not None and n > nmax: continue
        N = nmono(dim, l)
        if c.shape[0] != N: raise ValueError('term (%d,%d) holds %d rows, %d monomials of degree <= l' % (n, l, c.shape[0], N))
        mon = np.array([np.prod(u ** cls.ind2pow[p]) for p in range(N)])
        tot = tot + qm ** float(n) * np.tensordot(mon, c, axes=1)
    return tot


def close(a, b):
    a = np.asarray(a, dtype=complex); b = np.asarray(b, dtype=complex)
    if a.shape != b.shape:
        try: a, b = np.broadcast_arrays(a, b)
        except ValueError: return False
    return bool(np.all(np.abs(a - b) <= TOL * (1 + np.abs(a) + np.abs(b))))


def rand_exp(cls, dim, rng, shape, ns=None, lcap=4, parity=False, real=False):
    """random expansion: distinct n, random l <= lcap (parity: l <= n, l = n mod 2 and only monomials of the parity of n)"""
    if ns is None:
        pool = list(range(0, 5)) if parity else list(range(-2, 5))
        ns = sorted(rng.choice(pool, size=int(rng.integers(1, 4)), replace=False))
    out = []
    for n in ns:
        n = int(n)
        if parity:
            ls = [l for l in range(n % 2, min(n, lcap) + 1, 2)]
            if not ls: continue
            l = int(rng.choice(ls))
        else:
            l = int(rng.integers(0, lcap + 1))
        c = rng.normal(size=(nmono(dim, l),) + shape) + (0 if real else 1j * rng.normal(size=(nmono(dim, l),) + shape))
        c = c.astype(complex)
        if parity:
            for p in range(nmono(dim, l)):
                if (int(sum(cls.ind2pow[p])) - n) % 2: c[p] = 0
        out.append((n, l, c))
    return cls(out)


def snapshot(T): return [(n, l, c.copy()) for n, l, c in T.coefflist]


def same(snap, T):
    cl = T.coefflist
    return len(snap) == len(cl) and all(a[0] == b[0] and a[1] == b[1] and a[2].shape == b[2].shape and np.array_equal(a[2], b[2]) for a, b in zip(snap, cl))


def scribble(T):
    """overwrite the storage of T (used to expose storage shared with an operand)"""
    for n, l, c in T.coefflist: c[...] = 7.25


# ---------------------------------------------------------------- tables
def w_tables(arg):
    dim, tier, seed = arg
    from vf.common import repo_on_path; repo_on_path()
    from onsager import PowerExpansion as PE
    from scipy.special import factorial
    cls = PE.Taylor3D if dim == 3 else PE.Taylor2D
    cls()
    acc = Acc('Taylor%dD-tables' % dim)
    L = cls.Lmax; Np = cls.Npower
    rng = np.random.default_rng(seed + dim)
    # monomial index: a bijection ordered by total degree
    exps = [t for t in itertools.product(range(L + 1), repeat=dim) if sum(t) <= L]
    acc.check(Np == len(exps) == nmono(dim, L), 'monomial-count', '%d vs %d' % (Np, len(exps)), sig='count')
    seen = set()
    for t in exps:
        p = int(cls.pow2ind[t]); seen.add(p)
        acc.check(0 <= p < Np and tuple(int(x) for x in cls.ind2pow[p]) == t, 'pow2ind-ind2pow-inverse', str(t), sig='inv')
    acc.check(len(seen) == Np, 'pow2ind-injective', '', sig='inj')
    for t in itertools.product(range(L + 1), repeat=dim):
        if sum(t) > L: acc.check(int(cls.pow2ind[t]) == -1, 'pow2ind-marks-unrepresented-monomials', str(t), sig='unrep')
    for l in range(L + 1):
        acc.check(int(cls.powlrange[l]) == nmono(dim, l) and all(int(sum(cls.ind2pow[p])) <= l for p in range(nmono(dim, l)))
                  and all(int(sum(cls.ind2pow[p])) > l for p in range(nmono(dim, l), Np)), 'powlrange-is-count-of-degree<=l', str(l), sig='plr')
    acc.check(int(cls.powlrange[-1]) == 0, 'powlrange[-1]-is-0', '', sig='plr-1')
    # direct products of monomials
    for p0 in range(Np):
        for p1 in range(Np):
            t = tuple(int(x) for x in cls.ind2pow[p0] + cls.ind2pow[p1])
            want = int(cls.pow2ind[t]) if sum(t) <= L else -1
            acc.check(int(cls.directmult[p0, p1]) == want, 'directmult-is-monomial-product', '%d,%d' % (p0, p1), sig='dm')
    # multinomial coefficients
    for n in range(L + 1):
        for p in range(Np):
            t = [int(x) for x in cls.ind2pow[p]]
            want = factorial(n, True) / np.prod([factorial(x, True) for x in t]) if sum(t) == n else 0
            acc.check(abs(cls.powercoeff[n, p] - want) < 1e-12, 'powercoeff-is-multinomial', '%d,%d' % (n, p), sig='pc')
    # harmonic tables, against scipy at sampled directions (more samples than unknowns: a linear identity per row)
    U = np.array([unit(rng, dim) for _ in range(4 * Np)])
    MON = np.array([[np.prod(u ** cls.ind2pow[p]) for p in range(Np)] for u in U])          # samples x Np
    if dim == 3:
        from scipy.special import sph_harm_y
        th = np.arccos(np.clip(U[:, 2], -1, 1)); ph = np.arctan2(U[:, 1], U[:, 0])
        lm = [(l, m) for l in range(L + 1) for m in range(-l, l + 1)]
        acc.check(cls.NYlm == len(lm) and all(int(cls.Ylm2ind[l, m]) == i and tuple(int(x) for x in cls.ind2Ylm[i]) == (l, m) for i, (l, m) in enumerate(lm)),
                  'Ylm-index-bijection', '', sig='ylmidx')
        H = np.array([sph_harm_y(l, m, th, ph) for l, m in lm]).T                            # samples x NYlm
        hl = [l for l, m in lm]
        h2p, p2h = cls.Ylmpow, cls.powYlm
    else:
        ph = np.arctan2(U[:, 1], U[:, 0])
        ls = list(range(-L, L + 1))
        acc.check(cls.NFC == len(ls) and all(int(cls.FC2ind[l]) == i and int(cls.ind2FC[i]) == l for i, l in enumerate(ls)), 'FC-index-bijection', '', sig='fcidx')
        H = np.array([np.exp(1j * l * ph) for l in ls]).T
        hl = [abs(l) for l in ls]
        h2p, p2h = cls.FCpow, cls.powFC
    for i in range(H.shape[1]):
        acc.check(np.max(np.abs(MON @ h2p[i] - H[:, i])) < 1e-11, 'harmonic-in-powers-table-evaluates-to-the-harmonic', 'row %d' % i, sig=('h2p', hl[i]))
    for p in range(Np):
        acc.check(np.max(np.abs(H @ p2h[p] - MON[:, p])) < 1e-11, 'power-in-harmonics-table-evaluates-to-the-monomial', 'row %d' % p, sig=('p2h', int(sum(cls.ind2pow[p]))))
    # projections: c -> Lproj[l] . c keeps exactly the degree-l harmonic content of the function with coefficient vector c
    for l in list(range(L + 1)) + [-1]:
        P = cls.Lproj[l]
        for p in range(Np):
            e = np.zeros(Np); e[p] = 1.
            f = MON @ (P @ e)                                        # projected function at the samples
            coef = p2h[p].copy()                                     # harmonic content of the monomial
            keep = np.array([1. if (l == -1 or hl[i] == l) else 0. for i in range(H.shape[1])])
            acc.check(np.max(np.abs(f - H @ (coef * keep))) < 1e-10, 'Lproj-keeps-exactly-the-l-component', 'l=%d p=%d' % (l, p), sig=('proj', l))
        # a vector with support on degree <= l0 stays there
        for l0 in range(L + 1):
            N0 = nmono(dim, l0)
            acc.check(np.max(np.abs(P[N0:, :N0])) < 1e-12 if N0 < Np else True, 'Lproj-does-not-raise-the-degree', 'l=%d l0=%d' % (l, l0), sig=('projdeg', l))
    acc.sample = {'class': cls.__name__, 'Lmax': L, 'Npower': Np, 'directions': len(U)}
    return acc.result()


# ---------------------------------------------------------------- arithmetic (C16)
def w_arith(arg):
    dim, tier, seed = arg
    from vf.common import repo_on_path; repo_on_path()
    from onsager import PowerExpansion as PE
    cls = PE.Taylor3D if dim == 3 else PE.Taylor2D
    cls()
    acc = Acc('Taylor%dD-seed%d' % (dim, seed))
    rng = np.random.default_rng(seed * 7 + dim)
    L = cls.Lmax
    qs = [rng.normal(size=dim) * rng.uniform(.3, 2.) for _ in range(3)]
    val = lambda T, q, **k: V(cls, dim, T, q, **k)
    fpow = lambda T: {(n, l): (lambda x, n=n: x ** float(n)) for n, l, c in T.coefflist}
    shapes = [(), (2, 2), (2, 3), (3,)]
    for shape in shapes:
        sg = str(shape)
        A = rand_exp(cls, dim, rng, shape); B = rand_exp(cls, dim, rng, shape); C = rand_exp(cls, dim, rng, shape)
        a0, b0, c0 = snapshot(A), snapshot(B), snapshot(C)
        va = [val(A, q) for q in qs]; vb = [val(B, q) for q in qs]; vc = [val(C, q) for q in qs]
        # evaluator
        for q, v in zip(qs, va):
            acc.check(close(A(q, fpow(A)), v), 'call-with-functions-evaluates-the-series', sg, sig=('call', sg))
            acc.check(close(A(q, {k: f(np.sqrt(q @ q)) for k, f in fpow(A).items()}), v), 'call-with-values-evaluates-the-series', sg, sig=('callv', sg))
            d = A(q)
            acc.check(close(sum(np.sqrt(q @ q) ** float(n) * d[(n, l)] for (n, l) in d), v) and set(d) == set(A.nl()), 'call-dictionary-evaluates-the-series', sg, sig=('calld', sg))
        # ... also when the list holds several entries with the same (n, l) (pieces of separated expansions put in one list)
        Rep = cls(snapshot(A) + [(n, l, c * complex(rng.normal(), rng.normal())) for n, l, c in snapshot(A)][:2])
        for q in qs:
            v = val(Rep, q)
            acc.check(close(Rep(q, fpow(Rep)), v), 'call-with-functions-evaluates-the-series(repeated (n,l) entries)', sg, sig=('callrep', sg))
            acc.check(close(Rep(q, {k: f(np.sqrt(q @ q)) for k, f in fpow(Rep).items()}), v), 'call-with-values-evaluates-the-series(repeated (n,l) entries)', sg, sig=('callvrep', sg))
        def ops():
            yield 'A+B', A + B, [x + y for x, y in zip(va, vb)]
            yield 'B+A', B + A, [x + y for x, y in zip(va, vb)]
            yield 'A-B', A - B, [x - y for x, y in zip(va, vb)]
            yield '-A', -A, [-x for x in va]
            yield '+A', +A, va
            yield 'sum([A,B,C,B])', sum([A, B, C, B]), [x + 2 * y + z for x, y, z in zip(va, vb, vc)]
            yield '(A+B)-B', (A + B) - B, va
            yield 'A.copy()', A.copy(), va
            s = complex(rng.normal(), rng.normal())
            yield 's*A', s * A, [s * x for x in va]
            yield 'A*s', A * s, [s * x for x in va]
            yield '2*A', 2 * A, [2 * x for x in va]
            dct = {(n, l): complex(rng.normal(), rng.normal()) for n, l, c in A.coefflist}
            yield 'A*dict', A * dct, [sum(dct[(n, l)] * val([(n, l, c)], q) for n, l, c in A.coefflist) for q in qs]
            nm = int(rng.integers(-2, 4))
            yield 'A.truncate(%d)' % nm, A.truncate(nm), [val(A, q, nmax=nm) for q in qs]
            yield 'sumcoeff(A,B,alpha,beta)', cls(cls.sumcoeff(A, B, 2.5, -1.5)), [2.5 * x - 1.5 * y for x, y in zip(va, vb)]
            yield 'negcoeff(A)', cls(cls.negcoeff(A)), [-x for x in va]
            yield 'reducecoeff(A)', cls(cls.reducecoeff(A)), va
            yield 'collectcoeff(A)', cls(cls.collectcoeff(A)), va
            yield 'separatecoeff(A)', cls(cls.separatecoeff(A)), va
            yield 'separatecoeff(reduce(A+B))', cls(cls.separatecoeff((A + B).reduce())), [x + y for x, y in zip(va, vb)]
            yield 'collectcoeff(separatecoeff(A))', cls(cls.collectcoeff(cls.separatecoeff(A))), va
            yield 'truncatecoeff(A)', cls(cls.truncatecoeff(A, 1)), [val(A, q, nmax=1) for q in qs]
            # an empty operand (accumulator start, difference of equal expansions reduced, truncation that removes everything)
            Zr = [0 * x for x in va]
            yield 'empty-B', cls([]) - B, [-y for y in vb]
            yield 'empty+B', cls([]) + B, vb
            yield 'B-empty', B - cls([]), vb
            yield 'sumcoeff(empty,B,2,-3)', cls(cls.sumcoeff(cls([]), B, 2., -3.)), [-3. * y for y in vb]
            yield 'sumcoeff(A,empty,2,-3)', cls(cls.sumcoeff(A, cls([]), 2., -3.)), [2. * x for x in va]
            # lists in which one (n, l) occurs more than once (separate() followed by a sum, one n held in two pieces): evaluation adds them all
            S1 = cls(cls.separatecoeff(A))
            yield 'separate(A)+B', S1 + B, [x + y for x, y in zip(va, vb)]
            yield 'separate(A)-separate(B)', S1 - cls(cls.separatecoeff(B)), [x - y for x, y in zip(va, vb)]
            dup = cls([(n, l, c.copy()) for n, l, c in a0] + [(n, l, 0.5 * c) for n, l, c in a0])
            yield 'list-with-repeated-(n,l)', dup, [1.5 * x for x in va]
            dup2 = cls([(n, l, c.copy()) for n, l, c in a0] + [(n, l, 0.5 * c) for n, l, c in a0])      # (a yielded result is scribbled on by the aliasing clause: build it again)
            yield 'separate(list-with-repeated-(n,l))', cls(cls.separatecoeff(dup2)), [1.5 * x for x in va]
            if len(shape) == 2:
                M = rng.normal(size=(3, shape[0])) + 1j * rng.normal(size=(3, shape[0]))
                N = rng.normal(size=(shape[1], 2)) + 1j * rng.normal(size=(shape[1], 2))
                yield 'A.ldot(M)', A.ldot(M), [M @ x for x in va]
                yield 'A.rdot(N)', A.rdot(N), [x @ N for x in va]
                yield 'A[0]', A[0], [x[0] for x in va]
                yield 'A[1,1]', A[1, 1], [x[1, 1] for x in va]
                yield 'A[:,1:]', A[:, 1:], [x[:, 1:] for x in va]
                yield 'A[0:1,0:2]', A[0:1, 0:2], [x[0:1, 0:2] for x in va]
            if len(shape) == 1:
                M = rng.normal(size=(2, shape[0])) + 0j
                yield 'A.ldot(M)', A.ldot(M), [M @ x for x in va]
                yield 'A[1:]', A[1:], [x[1:] for x in va]
        for name, R, want in ops():
            ok = all(close(val(R, q), w) for q, w in zip(qs, want))
            acc.check(ok, 'value-of-result-is-operation-on-values', '%s shape %s' % (name, sg), sig=('op', name.split('(')[0][:14]))
            acc.check(same(a0, A) and same(b0, B) and same(c0, C), 'operands-keep-their-value', '%s shape %s' % (name, sg), sig=('frame', name.split('(')[0][:14]))
            if '[' not in name:                       # slices are documented views (nodeepcopy)
                scribble(R)
                acc.check(same(a0, A) and same(b0, B) and same(c0, C), 'result-shares-no-storage-with-operands', '%s shape %s' % (name, sg), sig=('alias', name.split('(')[0][:14]))
            A, B, C = cls(a0), cls(b0), cls(c0)
        # in-place forms
        def iops():
            X = cls(a0); X += B; yield 'A+=B', X, [x + y for x, y in zip(va, vb)]
            X = cls(a0); X -= B; yield 'A-=B', X, [x - y for x, y in zip(va, vb)]
            X = cls(a0); X += B; X += C; X -= B; yield 'A+=B;A+=C;A-=B', X, [x + z for x, z in zip(va, vc)]
            X = cls(a0); X.truncate(1, inplace=True); yield 'truncate-inplace', X, [val(a0, q, nmax=1) for q in qs]
            for nm in (0, 1, 2):      # terms listed in decreasing / shuffled order of n (the class keeps the order it is given)
                X = cls(list(reversed(a0))); X.truncate(nm, inplace=True); yield 'truncate-inplace(reversed term order)', X, [val(a0, q, nmax=nm) for q in qs]
                perm = [a0[k] for k in rng.permutation(len(a0))]
                X = cls(perm); X.truncate(nm, inplace=True); yield 'truncate-inplace(shuffled term order)', X, [val(a0, q, nmax=nm) for q in qs]
                X = cls(perm).truncate(nm); yield 'truncate(shuffled term order)', X, [val(a0, q, nmax=nm) for q in qs]
            X = cls(a0); X.reduce(); yield 'reduce', X, va
            X = cls(a0); X.separate(); yield 'separate', X, va
            X = cls(a0); X.reduce(); X.separate(); yield 'reduce;separate', X, va
            X = cls(a0) + cls(b0); X.reduce(); X.separate(); X.reduce(); yield '(A+B).reduce.separate.reduce', X, [x + y for x, y in zip(va, vb)]
            X = cls(a0); cls.scalarproductcoeff(3.5, X, inplace=True); yield 'scalarproductcoeff-inplace', X, [3.5 * x for x in va]
            X = cls(a0); cls.sumcoeff(X, B, 2, 3, inplace=True) if False else None
            if len(shape) == 2 and shape[0] == shape[1]:
                M = rng.normal(size=shape) + 0j
                X = cls(a0); X.ildot(M); yield 'ildot', X, [M @ x for x in va]
                X = cls(a0); X.irdot(M); yield 'irdot', X, [x @ M for x in va]
            # addterms with disjoint powers
            used = {n for n, l, c in a0}
            extra = [(n, l, c) for n, l, c in c0 if n not in used]
            X = cls(a0); X.addterms(extra); yield 'addterms', X, [x + val(extra, q) if extra else x for x, q in zip(va, qs)]
        for name, R, want in iops():
            ok = all(close(val(R, q), w) for q, w in zip(qs, want))
            acc.check(ok, 'value-after-in-place-operation', '%s shape %s' % (name, sg), sig=('iop', name[:14]))
            acc.check(same(b0, B) and same(c0, C), 'other-operands-keep-their-value', '%s shape %s' % (name, sg), sig=('iframe', name[:14]))
            scribble(R)
            acc.check(same(b0, B) and same(c0, C), 'in-place-result-shares-no-storage-with-the-other-operand', '%s shape %s' % (name, sg), sig=('ialias', name[:14]))
            B, C = cls(b0), cls(c0)
        # separate leaves only pure-l terms; reduce never raises l
        X = cls(a0); X.reduce()
        acc.check(all(l <= max(l2 for n2, l2, c2 in a0 if n2 == n) for n, l, c in X.coefflist) and len({n for n, l, c in X.coefflist}) == len(X.coefflist),
                  'reduce-one-term-per-n-and-no-higher-l', sg, sig=('reduce-shape', sg))
        X.separate()
        for n, l, c in X.coefflist:
            Pl = cls.Lproj[l][:nmono(dim, l), :nmono(dim, l)]
            acc.check(np.allclose(np.tensordot(Pl, c, axes=1), c, atol=1e-9), 'separate-terms-are-pure-l', sg, sig=('pure', sg))
        # zeros / slice assignment
        if len(shape) == 2:
            Z = cls.zeros(-2, 4, shape)
            acc.check(all(close(val(Z, q), np.zeros(shape)) for q in qs), 'zeros-evaluates-to-zero', sg, sig='zeros')
            Bs = rand_exp(cls, dim, rng, (shape[1],))
            Z[0, :] = Bs
            acc.check(all(close(val(Z, q)[0, :], val(Bs, q)) and close(val(Z, q)[1:, :], 0 * val(Z, q)[1:, :]) for q in qs), 'slice-assignment-sets-the-slice-only', sg, sig='setitem')
    # products of expansions (combined angular order within Lmax)
    for trial in range(4):
        la = int(rng.integers(0, L + 1)); lb = int(rng.integers(0, L - la + 1))
        for sa, sb in (((2, 3), (3, 2)), ((), (2, 2)), ((2, 2), ()), ((), ()), ((2, 2), (2,))):
            A = rand_exp(cls, dim, rng, sa, lcap=la); B = rand_exp(cls, dim, rng, sb, lcap=lb)
            a0, b0 = snapshot(A), snapshot(B)
            P = A * B
            def mul(x, y):
                return x * y if (np.ndim(x) == 0 or np.ndim(y) == 0) else np.tensordot(x, y, axes=1)
            acc.check(all(close(val(P, q), mul(val(a0, q), val(b0, q))) for q in qs), 'value-of-product-is-product-of-values', '%s x %s la=%d lb=%d' % (sa, sb, la, lb), sig=('mul', str(sa), str(sb)))
            acc.check(same(a0, A) and same(b0, B), 'operands-keep-their-value', 'A*B', sig=('frame', 'mul'))
            scribble(P)
            acc.check(same(a0, A) and same(b0, B), 'result-shares-no-storage-with-operands', 'A*B', sig=('alias', 'mul'))
        if True:
            A = rand_exp(cls, dim, rng, (2, 2), lcap=1); B = rand_exp(cls, dim, rng, (2, 2), lcap=1); C = rand_exp(cls, dim, rng, (2, 2), lcap=2)
            acc.check(all(close(val((A * B) * C, q), val(A, q) @ val(B, q) @ val(C, q)) and close(val(A * (B * C), q), val(A, q) @ val(B, q) @ val(C, q)) and
                          close(val(A * (B + C), q), val(A, q) @ (val(B, q) + val(C, q))) for q in qs), 'products-associate-and-distribute-in-value', '', sig='assoc')
    # construction from direction / matrix pairs
    for trial in range(3):
        shape = [(2, 2), (), (3, 3)][trial]
        basis = [((rng.normal(size=shape) + 1j * rng.normal(size=shape)) if shape else np.array(complex(rng.normal(), rng.normal())), rng.normal(size=dim)) for _ in range(int(rng.integers(1, 5)))]
        for N, pre in ((-1, None), (2, None), (4, [1, 0, -.5, 0, 1 / 24.]), (3, [rng.normal() for _ in range(4)])):
            cl = cls.constructexpansion(basis, N=N, pre=pre)
            T = cls();
            for term in cl: T += cls(list(term))
            NN = L if N < 0 else N
            pp = [1.] * (NN + 1) if pre is None else pre
            want = [sum(pp[n] * M * (v @ q) ** n for M, v in basis for n in range(NN + 1)) for q in qs]
            acc.check(len(cl) == NN + 1 and all(close(val(T, q), w) for q, w in zip(qs, want)), 'constructexpansion-reproduces-the-power-series', 'N=%s shape %s' % (N, shape), sig=('construct', N))
    acc.sample = {'class': cls.__name__, 'seed': seed, 'points': len(qs)}
    return acc.result()


# ---------------------------------------------------------------- change of variables and inversion (C17)
def w_rotinv(arg):
    dim, tier, seed = arg
    from vf.common import repo_on_path; repo_on_path()
    from onsager import PowerExpansion as PE
    cls = PE.Taylor3D if dim == 3 else PE.Taylor2D
    cls()
    acc = Acc('Taylor%dD-seed%d' % (dim, seed))
    rng = np.random.default_rng(seed * 11 + dim)
    L = cls.Lmax
    val = lambda T, q, **k: V(cls, dim, T, q, **k)
    ps = [rng.normal(size=dim) * rng.uniform(.3, 2.) for _ in range(3)]
    mats = []
    for t in range(4):
        while True:
            M = rng.normal(size=(dim, dim))
            if abs(np.linalg.det(M)) > .2: break
        mats.append(M)
    th = rng.uniform(0, 6.28)
    R = np.eye(dim); R[0, 0] = R[1, 1] = np.cos(th); R[0, 1] = -np.sin(th); R[1, 0] = np.sin(th)
    mats += [R, -np.eye(dim), np.diag([2., .5, -1.5][:dim]), np.eye(dim)[::-1].copy()]
    for M in mats:
        npt = cls.rotatedirections(M)
        kind = 'orthogonal' if np.allclose(M @ M.T, np.eye(dim)) else ('diagonal' if np.allclose(M, np.diag(np.diag(M))) else 'general')
        for shape in ((), (2, 2), (3,)):
            for variant in range(4):
                T = rand_exp(cls, dim, rng, shape, parity=True)
                if variant == 3:   # separated form: for each n one entry per l = n, n-2, ... (what separate() produces)
                    T = cls([(n, l, np.where((np.array([sum(cls.ind2pow[p]) for p in range(nmono(dim, l))]) % 2 == n % 2).reshape((-1,) + (1,) * len(shape)),
                                             rng.normal(size=(nmono(dim, l),) + shape), 0).astype(complex)) for n in range(2, L + 1) for l in range(n % 2, n + 1, 2)])
                if variant == 1: T = rand_exp(cls, dim, rng, shape, ns=[0, 1, 2, 3, 4], parity=True)
                if variant == 2:   # un-reduced: every term at l = n
                    T = cls([(n, n, np.where((np.array([sum(cls.ind2pow[p]) for p in range(nmono(dim, n))]) % 2 == n % 2).reshape((-1,) + (1,) * len(shape)),
                                             rng.normal(size=(nmono(dim, n),) + shape), 0).astype(complex)) for n in range(L + 1)])
                if not T.coefflist: continue
                t0 = snapshot(T)
                Rt = T.rotate(npt)
                acc.check(all(close(val(Rt, p), val(t0, M @ p)) for p in ps), 'rotated-expansion-at-p-is-original-at-transformed-point', '%s shape %s' % (kind, shape), sig=('rot', kind, variant))
                # the same statement through the library's own evaluator (radial functions |q|^n supplied per term)
                lib = lambda E, q: E(np.array(q, dtype=float), {(n, l): (lambda x, n=n: x ** float(n)) for (n, l, c) in E.coefflist})
                try:
                    acc.check(all(close(lib(Rt, p), val(t0, M @ p)) for p in ps), 'rotated-expansion-at-p-is-original-at-transformed-point(library evaluator)', '%s shape %s variant %d' % (kind, shape, variant), sig=('rotlib', kind, variant))
                except Exception as ex:
                    acc.check(False, 'rotated-expansion-at-p-is-original-at-transformed-point(library evaluator)', '%s: %s' % (type(ex).__name__, str(ex)[:200]), sig=('rotlib', kind, variant))
                acc.check(same(t0, T), 'rotate-leaves-the-operand-unchanged', kind, sig=('rotframe', kind))
                X = cls(t0); Y = X.irotate(npt)
                acc.check(Y is X and all(close(val(X, p), val(t0, M @ p)) for p in ps), 'irotate-in-place-is-original-at-transformed-point', '%s shape %s' % (kind, shape), sig=('irot', kind, variant))
                # composition: rotating by M1 then M2 is rotating by the product
                M2 = mats[0]
                Rt2 = cls(t0).rotate(npt).rotate(cls.rotatedirections(M2))
                acc.check(all(close(val(Rt2, p), val(t0, M @ (M2 @ p))) for p in ps), 'rotations-compose', kind, sig=('rotcomp', kind))
    # inversion
    for trial in range(6):
        for shape in ((), (2, 2), (3, 3)):
            n0 = int(rng.choice([0, 2, 1]))
            for Nmax in (0, 1, 2, -1):
                K = Nmax + n0                      # highest relative order needed
                if K < 0 or K > L: continue
                def lead():
                    if shape == (): return np.array([complex(rng.uniform(.5, 2.) * rng.choice([-1, 1]), rng.normal())])
                    while True:
                        A = rng.normal(size=shape) + 1j * rng.normal(size=shape)
                        if abs(np.linalg.det(A)) > .3: return A.reshape((1,) + shape)
                terms = [(n0, 0, lead())]
                for step in range(1, K + 2):
                    if rng.random() < .75 or step == 1:
                        l = int(rng.integers(0, min(step, L) + 1))
                        terms.append((n0 + step, l, (rng.normal(size=(nmono(dim, l),) + shape) + 1j * rng.normal(size=(nmono(dim, l),) + shape))))
                T = cls(terms); t0 = snapshot(T)
                try:
                    Ti = T.inv(Nmax)
                except Exception as ex:
                    acc.check(False, 'inverse-exists-for-isotropic-invertible-lead', '%s: %s' % (type(ex).__name__, ex), sig=('invraise', type(ex).__name__)); continue
                acc.check(same(t0, T), 'inv-leaves-the-operand-unchanged', '', sig='invframe')
                acc.check(all(n <= Nmax for n, l, c in Ti.coefflist) and min(n for n, l, c in Ti.coefflist) == -n0, 'inverse-orders-run-from-minus-lead-to-Nmax', '', sig='invorders')
                for P, side in ((Ti * T, 'left'), (T * Ti, 'right')):
                    I = np.eye(shape[0]) if shape else 1.
                    for p in ps[:2]:
                        u = p / np.sqrt(p @ p)
                        d = P(u)     # {(n,l): value at the direction}; orders 0..K are complete
                        byn = {}
                        for (n, l), v in d.items(): byn[n] = byn.get(n, 0) + v
                        ok = all(close(byn.get(k, 0 * I), I if k == 0 else 0 * I) for k in range(0, K + 1)) and all(n >= 0 for n in byn)
                        acc.check(ok, 'inverse-times-original-is-identity-through-requested-order', '%s n0=%d Nmax=%d shape %s' % (side, n0, Nmax, shape), sig=('inv', side, n0, Nmax, str(shape)))
    # a non-isotropic leading term is refused
    T = cls([(2, 2, rng.normal(size=(nmono(dim, 2), 2, 2)) + 0j), (4, 0, np.eye(2).reshape(1, 2, 2) + 0j)])
    try:
        T.inv(0); acc.check(False, 'anisotropic-lead-is-refused', '', sig='refuse')
    except ValueError:
        acc.check(True, 'anisotropic-lead-is-refused', '', sig='refuse')
    acc.sample = {'class': cls.__name__, 'seed': seed, 'matrices': len(mats)}
    return acc.result()
