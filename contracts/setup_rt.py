"""C29 run-time contracts for Interstitial.makesupercells / VacancyMediated.makesupercells (3D crystals; the supercell
class is 3D only).  The specification reads each *tag string*, derives which sites of the periodic supercell must be
vacant / solute / interstitial, and compares the full occupancy; transition pairs must differ by exactly one moving atom
whose displacement is the jump modulo the supercell lattice; each recorded (tag, g, mapping) must carry the named state
onto the endpoint (g applied to positions by hand: x -> rot x + trans in supercell coordinates)."""
import re, warnings
import numpy as np
from vf.rtc.runner import Acc

SUPERS = {
    '2x2x2': np.diag([2, 2, 2]), '3x3x3': np.diag([3, 3, 3]), '4x3x3': np.diag([4, 3, 3]), '3x3x2': np.diag([3, 3, 2]),
    'sheared': np.array([[3, 2, 0], [0, 3, 0], [0, 0, 3]]), 'rot-hex': np.array([[4, -2, 0], [2, 2, 0], [0, 0, 2]]),
    'fcc-like': np.array([[-2, 2, 2], [2, -2, 2], [2, 2, -2]]), 'circulant': np.array([[3, 1, 0], [0, 3, 1], [1, 0, 3]]),
    'left-handed': np.array([[0, 3, 0], [3, 0, 0], [0, 0, 3]]), '1x1x1': np.eye(3, dtype=int), '4x4x4': np.diag([4, 4, 4]),
    '5x5x3': np.diag([5, 5, 3]), '3x5x5': np.diag([3, 5, 5]),
}
DEF = re.compile(r'([isv]):([+-]\d+\.\d+),([+-]\d+\.\d+),([+-]\d+\.\d+)')


class View:
    """independent view of a supercell: site table in supercell direct coordinates"""
    def __init__(self, sup):
        self.pos = np.array(sup.pos); self.N = len(self.pos)
        self.Sinv = np.linalg.inv(np.array(sup.superlatt, dtype=float))
        self.latt = np.array(sup.crys.lattice) @ np.array(sup.superlatt, dtype=float)
        self.key = {}
        for i, x in enumerate(self.pos): self.key[self.k(x)] = i
    @staticmethod
    def k(x):
        y = np.round((np.asarray(x) % 1.) * 1e5).astype(int) % 100000
        return tuple(int(v) for v in y)
    def site_of_unitcell(self, u, tol=2e-3):
        """supercell site nearest the unit-cell coordinates u (tags carry 3 decimals)"""
        x = self.Sinv @ np.asarray(u, dtype=float)
        d = self.pos - x; d -= np.round(d)
        du = (np.linalg.inv(self.Sinv) @ d.T).T            # back in unit-cell coordinates
        n2 = np.sum(du * du, axis=1)
        i = int(np.argmin(n2))
        return i if n2[i] < (3 * tol) ** 2 else None
    def apply(self, g, i):
        return self.key.get(self.k(g.rot @ self.pos[i] + g.trans))


def parse(tag):
    return [(m.group(1), np.array([float(m.group(k)) for k in (2, 3, 4)])) for m in DEF.finditer(tag)]


def endpoints_of(tag):
    """defect lists of the two endpoints of a transition tag"""
    body = tag.split(':', 1)[1] if tag.startswith('omega') else tag
    a, b = body.split('^')
    if tag.startswith('omega1'):
        sol = a.split('-v')[0]
        return parse(a), parse(sol + '-' + b)
    return parse(a), parse(b)


def expect_occ(view, base_occ, defects, chem, schem):
    occ = base_occ.copy()
    for kind, u in defects:
        i = view.site_of_unitcell(u)
        if i is None: return None
        occ[i] = {'v': -1, 's': schem, 'i': chem}[kind]
    return occ


def too_small(calc_states, superlatt, latt):
    """two different pair states of the kinetic shell with the same solute and vacancy sublattice sites whose separation differs by a supercell vector"""
    S = np.array(superlatt, dtype=float); Sinv = np.linalg.inv(S)
    seen = {}
    for ps in calc_states:
        key = (ps.i, ps.j) + tuple(int(v) for v in np.round(((Sinv @ ps.R) % 1.) * 1e5).astype(int) % 100000)
        if key in seen and not np.array_equal(seen[key], ps.R): return True
        seen.setdefault(key, ps.R)
    return False


def check_dict(acc, calc, sd, sup_n, kind, label, warned=False):
    crys, chem = calc.crys, calc.chem
    schem = crys.Nchem
    any_sup = next(iter(sd['states'].values()))
    view = View(any_sup)
    atomchem = [c for (c, i) in any_sup.atomindices]
    base = np.array([atomchem[n % any_sup.N] for n in range(view.N)])
    if kind == 'interstitial': base = np.where(base == chem, -1, base)
    acc.check(view.N == abs(round(np.linalg.det(sup_n))) * crys.N, 'supercell-has-det-times-N-sites', label, sig='size')
    # keys
    if kind == 'interstitial':
        want_states = [t[0] for t in calc.tags['states']]; want_trans = [t[0] for t in calc.tags['transitions']]
    else:
        want_states = [t[0] for k in ('vacancy', 'solute', 'solute-vacancy') for t in calc.tags[k]]
        want_trans = [t[0] for k in ('omega0', 'omega1', 'omega2') for t in calc.tags[k]]
        ref = sd['reference']
        acc.check(np.array_equal(np.array(ref.occ), base), 'reference-cell-has-no-defects', label, sig='ref')
    acc.check(sorted(sd['states']) == sorted(want_states), 'one-state-supercell-per-representative-tag', label, sig='skeys')
    acc.check(sorted(sd['transitions']) == sorted(want_trans) and sorted(sd['transmapping']) == sorted(want_trans), 'one-transition-pair-per-representative-tag', label, sig='tkeys')
    for k in list(sd['states']) + list(sd['transitions']):
        want = calc.tagdict[k] if kind == 'interstitial' else (calc.tagdicttype[k], calc.tagdict[k])
        acc.check(sd['indices'].get(k) == want, 'indices-name-the-class-of-each-tag', k, sig='indices')
    # states
    for tag, s in sd['states'].items():
        exp = expect_occ(view, base, parse(tag), chem, schem)
        acc.check(exp is not None and np.array_equal(np.array(s.occ), exp), 'state-supercell-has-exactly-the-defects-its-tag-names', '%s %s' % (label, tag), sig=('state', tag[0], len(parse(tag))))
        acc.check(s.__sane__(), 'state-supercell-well-formed', tag, sig='sane')
    # transitions
    for tag, (s0, s1) in sd['transitions'].items():
        ttype = tag.split(':')[0] if tag.startswith('omega') else 'interstitial'
        d0, d1 = endpoints_of(tag)
        if ttype == 'omega2':
            # the tag names the final complex in the frame of the solute's new unit cell: it must be the exchanged initial complex up to a lattice translation
            (k0s, us0), (k0v, uv0) = d0; (k1s, us1), (k1v, uv1) = d1
            t = uv0 - us1
            acc.check((k0s, k0v, k1s, k1v) == ('s', 'v', 's', 'v') and np.allclose(t, np.round(t), atol=2e-3) and np.allclose(uv1 + t, us0, atol=4e-3),
                      'omega2-tag-final-complex-is-the-exchanged-initial-complex-translated', tag, sig='om2tag')
            d1 = [('s', uv0), ('v', us0)]
        named = {}
        for kind_, u in d0 + d1:
            i = view.site_of_unitcell(u)
            named.setdefault(i, set()).add(view.k(view.Sinv @ u) if False else tuple(np.round(u, 3)))
        if any(len(v) > 1 for v in named.values()):
            # two different named positions fall on one site of the cell: the cell is too small for this transition; only the warning is required
            acc.check(warned, 'too-small-cell-warns', '%s: positions named by %s coincide in the cell but no warning' % (label, tag), sig='warn-coincide')
            continue
        for s, dd, nm in ((s0, d0, 'initial'), (s1, d1, 'final')):
            exp = expect_occ(view, base, dd, chem, schem)
            acc.check(exp is not None and np.array_equal(np.array(s.occ), exp), 'transition-endpoint-has-exactly-the-defects-its-tag-names', '%s %s %s' % (label, tag, nm), sig=('trans', ttype, nm))
            acc.check(s.__sane__(), 'transition-supercell-well-formed', tag, sig='sane')
        # exactly one moving atom, same slot in the ordered atom lists
        moved = []
        ok_shape = len(s0.chemorder) == len(s1.chemorder) and all(len(a) == len(b) for a, b in zip(s0.chemorder, s1.chemorder))
        if ok_shape:
            for c, (l0, l1) in enumerate(zip(s0.chemorder, s1.chemorder)):
                for n, (a, b) in enumerate(zip(l0, l1)):
                    if a != b: moved.append((c, a, b))
        mover = {'interstitial': chem, 'omega0': chem, 'omega1': chem, 'omega2': schem}[ttype]
        acc.check(ok_shape and len(moved) == 1 and moved[0][0] == mover, 'pair-differs-by-a-single-moving-atom-of-the-right-species', '%s %s moved=%s' % (label, tag, moved[:3]), sig=('single', ttype))
        if ok_shape and len(moved) == 1:
            c, a, b = moved[0]
            if kind == 'interstitial':
                jumps = calc.jumpnetwork[calc.tagdict[tag]]; dx = np.array(jumps[0][1])
            else:
                jn = {'omega0': calc.om0_jn, 'omega1': calc.om1_jn, 'omega2': calc.om2_jn}[ttype]
                dx = -np.array(jn[calc.tagdict[tag]][0][1])          # the atom moves against the vacancy
            delta = view.latt @ (view.pos[b] - view.pos[a]) - dx
            n = np.linalg.solve(view.latt, delta)
            acc.check(np.allclose(n, np.round(n), atol=1e-6), 'moving-atom-displacement-matches-the-jump-modulo-the-cell', '%s %s' % (label, tag), sig=('disp', ttype))
        # recorded mappings
        tm = sd['transmapping'][tag]
        acc.check(len(tm) == 2, 'two-mapping-entries-per-transition', tag, sig='tmlen')
        for s, ent, nm in zip((s0, s1), tm, ('initial', 'final')):
            if ent is None:
                # allowed only if no generated state can be carried onto this endpoint by a supercell symmetry
                can = False
                for k, v in sd['states'].items():
                    if sorted(np.array(v.occ).tolist()) != sorted(np.array(s.occ).tolist()): continue
                    for g in v.G:
                        img = np.full(view.N, -9)
                        for i in range(view.N):
                            j = view.apply(g, i)
                            if j is None: break
                            img[j] = v.occ[i]
                        else:
                            if np.array_equal(img, np.array(s.occ)): can = True; break
                    if can: break
                acc.check(not can, 'missing-mapping-only-when-no-state-maps-onto-the-endpoint', '%s %s %s' % (label, tag, nm), sig=('nomap', ttype))
                continue
            k, g, mapping = ent
            ok = k in sd['states']
            if ok:
                v = sd['states'][k]
                ok = len(mapping) == len(s.chemorder) and all(len(m) == len(l) for m, l in zip(mapping, s.chemorder))
                if ok:
                    for c, (m, l) in enumerate(zip(mapping, s.chemorder)):
                        if sorted(m) != list(range(len(l))): ok = False; break
                        for i, tgt in enumerate(l):
                            if view.apply(g, v.chemorder[c][m[i]]) != tgt: ok = False; break
                        if not ok: break
            acc.check(ok, 'recorded-mapping-carries-the-named-state-onto-the-endpoint', '%s %s %s' % (label, tag, nm), sig=('map', ttype, nm))


def w_setup(arg):
    cid, sname, tier, seed, kind = arg
    from vf.common import repo_on_path; repo_on_path()
    from vf.rtc import catalogue
    acc = Acc('%s/%s/%s' % (kind, cid, sname))
    e = [f for c, f in catalogue.builders('thorough', seed) if c == cid][0]()
    crys, chem = e['crys'], e['chem']
    sup_n = SUPERS[sname]
    with warnings.catch_warnings():
        warnings.simplefilter('ignore')
        from onsager import OnsagerCalc
        jn = crys.jumpnetwork(chem, e['cutoff'])
        if kind == 'interstitial': calc = OnsagerCalc.Interstitial(crys, chem, crys.sitelist(chem), jn)
        else: calc = OnsagerCalc.VacancyMediated(crys, chem, crys.sitelist(chem), jn, 1)
    with warnings.catch_warnings(record=True) as w:
        warnings.simplefilter('always')
        sd = calc.makesupercells(sup_n.copy())
    warned = any(issubclass(x.category, RuntimeWarning) and 'too small' in str(x.message) for x in w)
    if kind == 'vacancy':
        latt = crys.lattice @ sup_n
        small = too_small(calc.kinetic.states, sup_n, latt)
        acc.check(warned or not small, 'too-small-cell-warns', '%s: kinetic-shell states coincide in the cell but no warning' % sname, sig='warn')
        h = 1. / np.linalg.norm(np.linalg.inv(latt), axis=1)
        big = max(np.linalg.norm(ps.dx) for ps in calc.kinetic.states) < 0.5 * h.min() - 1e-6
        acc.check(not (warned and big), 'large-cell-does-not-warn', sname, sig='nowarn')
        if small and tier == 'quick' and False: return acc.result()
    check_dict(acc, calc, sd, sup_n, kind, sname, warned)
    acc.sample = {'calculator': kind, 'crystal': cid, 'supercell': sup_n.tolist(), 'states': len(sd['states']), 'transitions': len(sd['transitions']), 'warned': warned}
    return acc.result()
