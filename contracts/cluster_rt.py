"""Run-time contracts (level B): C31 (cluster enumeration / identity), C32 (cluster-expansion evaluators agree),
C34 (kinetic barriers obey detailed balance), on the small real samplers of vf/rtc/samplers.py -- exhaustive over
mobile occupations (2^8) in the thorough tier, a seeded sample in the quick tier."""
import itertools
import numpy as np
from vf.rtc.runner import Acc


# ----------------------------------------------------------------------------------------- C32
def site_index(sup, R, ci):
    """independent lookup: supercell site index of crystal site ci in cell R, through positions"""
    u = sup.crys.basis[ci[0]][ci[1]]
    x = np.linalg.solve(sup.superlatt, np.asarray(R, dtype=float) + u)
    x = x - np.floor(x + 1e-8)
    mobile = ci in sup.indexmobile
    pos = sup.mobilepos if mobile else sup.specpos
    d = pos - x; d -= np.round(d)
    k = int(np.argmin(np.sum(d * d, axis=1)))
    assert np.sum(d[k] ** 2) < 1e-10
    return k, mobile


def brute_energy(d, occ, clusters=None, values=None):
    """spec: sum of cluster values over all clusters all of whose (non-special) sites are occupied; one term per
    cluster per translation (vacancy clusters: anchored at the vacancy site only)"""
    sup, socc = d['sup'], d['socc']
    clusters = d['clusterexp'] if clusters is None else clusters
    values = d['Evalues'] if values is None else values
    E = values[-1] * sup.size if len(values) > len(clusters) else 0.
    counts = np.zeros(len(clusters), dtype=int)
    trans = [np.array(t) for t in itertools.product(*[range(-3, 4)] * sup.crys.dim)]
    # translations of the crystal lattice modulo the supercell: one representative per supercell site of one sublattice
    reps = {}
    for t in trans:
        x = np.linalg.solve(sup.superlatt, t.astype(float)); x = x - np.floor(x + 1e-8)
        reps.setdefault(tuple(np.round(x, 6)), t)
    assert len(reps) == sup.size
    for m, (clist, val) in enumerate(zip(clusters, values)):
        for cl in clist:
            if cl.__vacancy__:
                if sup.vacancy is None: continue
                vs = cl.vacancy()
                Rs = []
                for t in reps.values():
                    k, mob = site_index(sup, t + vs.R, vs.ci)
                    if mob and k == sup.vacancy: Rs.append(t)
            else:
                Rs = list(reps.values())
            for t in Rs:
                ok = True
                for site in cl:      # iterates the non-special sites only
                    k, mob = site_index(sup, t + site.R, site.ci)
                    if mob: ok = ok and occ[k] == 1
                    else: ok = ok and socc[k] == 1
                if ok: counts[m] += 1; E += val
    return E, counts


def occupations(d, rng, tier):
    from vf.rtc import samplers
    return list(samplers.occupations(d, rng, limit=24 if tier == 'quick' else None))


def w_evaluators(arg):
    idx, tier, seed = arg
    from vf.common import repo_on_path; repo_on_path()
    import warnings; warnings.filterwarnings('ignore')
    from vf.rtc import samplers
    label, build = samplers.cases(tier)[idx]
    d = build(seed); acc = Acc(label)
    sup = d['sup']; rng = np.random.default_rng(seed * 53 + idx)
    mc = samplers.make_sampler(d)
    mats = sup.expandcluster_matrices(d['socc'], d['clusterexp'])
    vals = d['Evalues']
    for occ in occupations(d, rng, tier):
        mocc = np.where(occ == 1, 1, 0)
        Eb, cb = brute_energy(d, occ)
        cnt = sup.evalcluster(mocc, d['socc'], d['clusterexp'])
        sig = tuple(int(x) for x in occ)
        acc.check(np.array_equal(cnt[:-1], cb) and cnt[-1] == sup.size, 'cluster-counter-equals-brute-force-count', 'occ=%r: %r vs %r' % (list(occ), cnt[:-1].tolist(), cb.tolist()), sig=sig)
        acc.check(abs(np.dot(vals, cnt) - Eb) < 1e-10 * (1 + abs(Eb)), 'cluster-counter-energy', '', sig=sig)
        cm = np.array([sum(int(np.sum(np.all(mocc[m] == 1, axis=1))) if m.size or m.shape[0] else 0 for m in ml) for ml in mats])
        # an index matrix with zero columns (clusters made of spectators only) counts one per active row
        cm = np.array([sum((m.shape[0] if m.ndim < 2 or m.shape[1] == 0 else int(np.sum(np.all(mocc[m] == 1, axis=1)))) for m in ml) for ml in mats])
        acc.check(np.array_equal(cm, cb), 'index-matrix-expansion-equals-brute-force-count', 'occ=%r: %r vs %r' % (list(occ), cm.tolist(), cb.tolist()), sig=sig)
        mc.start(occ.copy())
        Em = mc.E()
        acc.check(abs(Em - Eb) < 1e-10 * (1 + abs(Eb)), 'interaction-list-evaluator-and-sampler-energy-equal-brute-force', 'occ=%r: sampler %r brute force %r' % (list(occ), Em, Eb), sig=sig)
    # the sampler walked between configurations (Gray code: one site flipped per step) must keep reporting the brute-force energy
    n = sup.Nmobile * sup.size
    free = [i for i in range(n) if i != d['vacancy']]
    occ = np.zeros(n, dtype=int)
    if d['vacancy'] is not None: occ[d['vacancy']] = -1
    mc.start(occ.copy())
    steps = min(2 ** len(free) - 1, 40 if tier == 'quick' else 255)
    for k in range(1, steps + 1):
        bit = (k & -k).bit_length() - 1        # Gray code: flip the lowest set bit's site
        i = free[bit % len(free)]
        if occ[i] == 0: occ[i] = 1; mc.update((i,), ())
        else: occ[i] = 0; mc.update((), (i,))
        Eb, _ = brute_energy(d, occ)
        acc.check(abs(mc.E() - Eb) < 1e-10 * (1 + abs(Eb)), 'sampler-energy-along-a-walk-equals-brute-force', 'step %d occ=%r: %r vs %r' % (k, list(occ), mc.E(), Eb), sig=('walk', k))
    acc.sample = {'case': label, 'sites': int(sup.Nmobile * sup.size), 'clusters': int(sum(len(c) for c in d['clusterexp'])), 'vacancy': d['vacancy'],
                  'checked': 'evalcluster, expandcluster_matrices, clusterevaluator+MonteCarloSampler.E against a brute-force sum; sampler walked along a Gray code'}
    return acc.result()


# ----------------------------------------------------------------------------------------- C34
def w_balance(arg):
    idx, tier, seed = arg
    from vf.common import repo_on_path; repo_on_path()
    import warnings; warnings.filterwarnings('ignore')
    from onsager import supercell
    from vf.rtc import samplers
    label, build = samplers.cases(tier)[idx]
    d = build(seed); acc = Acc(label)
    if d['chem'] is None:
        acc.sample = {'case': label, 'note': 'no jump network'}; acc.check(True, 'no-jump-network', sig='none'); return acc.result()
    rng = np.random.default_rng(seed * 59 + idx)
    mc = samplers.make_sampler(d)
    vac = d['vacancy']
    mc2cache = {}
    def sampler_with_vacancy(j):
        if j not in mc2cache:
            sup2 = supercell.ClusterSupercell(d['crys'], d['sup'].superlatt, spectator=d['sup'].spectator)
            sup2.addvacancy(j)
            d2 = dict(d, sup=sup2, vacancy=j)
            mc2cache[j] = samplers.make_sampler(d2)
        return mc2cache[j]
    mcB = samplers.make_sampler(d)
    for occ in occupations(d, rng, tier):
        mc.start(occ.copy())
        E0 = mc.E()
        ijl, Ql, dxl = mc.transitions()
        sig = tuple(int(x) for x in occ)
        acc.check(len(ijl) == len(Ql) == len(dxl), 'transition-lists-aligned', '', sig=sig)
        for (i, j), Q, dx in zip(ijl, Ql, dxl):
            if vac is None:
                acc.check(occ[i] == 1 and occ[j] == 0, 'only-allowed-transitions-reported', '%d->%d with occ %d,%d' % (i, j, occ[i], occ[j]))
                occ2 = occ.copy(); occ2[i], occ2[j] = 0, 1
                m2 = mcB
            else:
                acc.check(i == vac, 'vacancy-transitions-start-at-the-vacancy', '')
                occ2 = occ.copy(); occ2[i], occ2[j] = occ[j], occ[i]
                m2 = sampler_with_vacancy(j)
            m2.start(occ2.copy())
            E2 = m2.E()
            rev = [(Q2, dx2) for (a, b), Q2, dx2 in zip(*m2.transitions()) if a == j and b == i and np.allclose(dx2, -dx, atol=1e-8)]
            acc.check(len(rev) == 1, 'reverse-transition-reported-with-opposite-displacement', 'occ=%r %d->%d dx=%r: %d matching reverse transitions' % (list(occ), i, j, dx, len(rev)), sig=sig + (i, j))
            if rev:
                acc.check(abs((Q - rev[0][0]) - (E2 - E0)) < 1e-9 * (1 + abs(E0) + abs(Q)), 'forward-minus-reverse-barrier-equals-energy-difference',
                          'occ=%r %d->%d: Q-Q\'=%r, dE=%r' % (list(occ), i, j, Q - rev[0][0], E2 - E0), sig=sig + (i, j))
        # completeness of the reported transitions (no vacancy): every jump of the network from an occupied to an empty site
        if vac is None:
            want = sum(1 for (i, j), dx in mc.jumps if occ[i] == 1 and occ[j] == 0)
            acc.check(len(ijl) == want, 'every-allowed-transition-reported', '%d reported, %d allowed' % (len(ijl), want), sig=sig)
    acc.sample = {'case': label, 'jumps': len(mc.jumps), 'vacancy': vac, 'checked': 'Q - Q_reverse == E_final - E_initial, reverse displacement'}
    return acc.result()


# ----------------------------------------------------------------------------------------- C31
def brute_clusters(c, cutoff, maxorder, exclude=()):
    """every set of 1..maxorder distinct sites (of non-excluded species) with all pair distances < cutoff, modulo
    lattice translation, as frozensets of (ci, R) normalised so that the lexicographically first site is in cell 0"""
    sites = [ci for ci in c.atomindices if ci[0] not in exclude]
    win = int(np.ceil(cutoff / min(np.sqrt(c.metric[i, i]) for i in range(c.dim)))) + 1
    cells = [np.array(n) for n in itertools.product(range(-win, win + 1), repeat=c.dim)]
    allsites = [(ci, R) for ci in sites for R in cells]
    pos = {(ci, tuple(R)): c.lattice @ (R + c.basis[ci[0]][ci[1]]) for ci, R in allsites}
    out = set()
    zero = tuple([0] * c.dim)
    base = [(ci, zero) for ci in sites]
    def norm(cl):
        cl = sorted(cl)
        R0 = np.array(cl[0][1])
        return frozenset((ci, tuple(np.array(R) - R0)) for ci, R in cl)
    frontier = [[b] for b in base]
    for order in range(1, maxorder + 1):
        nxt = []
        for cl in frontier:
            out.add(norm(cl))
            if order == maxorder: continue
            for (ci, R) in allsites:
                s = (ci, tuple(R))
                if s in cl: continue
                if all(np.linalg.norm(pos[s] - pos[t]) < cutoff for t in cl): nxt.append(cl + [s])
        frontier = nxt
    return out


def w_clusters(arg):
    idx, tier, seed = arg
    from vf.common import repo_on_path; repo_on_path()
    import warnings; warnings.filterwarnings('ignore')
    from onsager import cluster
    from vf.rtc import catalogue
    cid, f = catalogue.builders(tier, seed)[idx]
    e = f(); c = e['crys']; acc = Acc(cid)
    if c.N > 6 and tier == 'quick': maxorder = 2
    else: maxorder = 3
    # cutoff between the first and second shell of all inter-site distances
    ds = sorted({round(float(np.linalg.norm(c.lattice @ (np.array(n) + u1 - u0))), 5) for a in c.basis for u0 in a for b in c.basis for u1 in b
                 for n in itertools.product(range(-2, 3), repeat=c.dim)} - {0.0})
    for ncut in ((1,) if c.N > 4 else (1, 2)):
        cutoff = 0.5 * (ds[ncut - 1] + ds[ncut]) if len(ds) > ncut else ds[-1] * 1.1
        for exclude in ((),) + (((len(c.basis) - 1,),) if len(c.basis) > 1 else ()):
            tag = 'cutoff %.4f order %d exclude %r' % (cutoff, maxorder, exclude)
            try:
                ce = cluster.makeclusters(c, cutoff, maxorder, exclude=exclude)
            except Exception as ex:
                acc.check(False, 'makeclusters-no-exception', '%s: %s: %s' % (tag, type(ex).__name__, ex)); continue
            flat = [cl for cs in ce for cl in cs]
            def keyof(cl):
                sites = sorted((cs.ci, tuple(int(x) for x in cs.R)) for cs in cl.sites)
                R0 = np.array(sites[0][1])
                return frozenset((ci, tuple(np.array(R) - R0)) for ci, R in sites)
            got = [keyof(cl) for cl in flat]
            spec = brute_clusters(c, cutoff, maxorder, exclude)
            acc.check(len(got) == len(set(got)), 'each-cluster-listed-once', tag, sig=(tag, 'once'))
            acc.check(set(got) == spec, 'clusters-are-exactly-the-site-sets-within-the-cutoff', '%s: %d found, %d expected, extra %d missing %d' % (tag, len(set(got)), len(spec), len(set(got) - spec), len(spec - set(got))), sig=(tag, 'spec'))
            ok = True
            for cs in ce:
                rep = next(iter(cs))
                orb = {rep.g(c, g) for g in c.G}
                if set(cs) != orb: ok = False
            acc.check(ok, 'cluster-sets-are-complete-disjoint-orbits', tag, sig=(tag, 'orbits'))
            # identity: translation and reordering
            for cl in flat[:40]:
                sh = cluster.Cluster([cs + [1, -2, 3][:c.dim] for cs in reversed(cl.sites)])
                acc.check(sh == cl and hash(sh) == hash(cl), 'cluster-identity-invariant-under-translation-and-reordering', tag, sig=(tag, 'ident'))
            if not exclude and ncut == 1:
                chem = e['chem']
                jn = c.jumpnetwork(chem, e['cutoff'])
                try:
                    ts = cluster.makeTSclusters(c, chem, jn, ce)
                    ok = True; okrev = True
                    for cs in ts:
                        for cl in cs:
                            for g in c.G:
                                if cl.g(c, g) not in cs: ok = False
                            s0, s1 = cl.transitionstate()
                            revd = cluster.Cluster([s1, s0] + [x for x in cl], transition=True)
                            if revd not in cs: okrev = False
                    acc.check(ok, 'TS-cluster-sets-closed-under-symmetry', tag, sig=(tag, 'ts'))
                    acc.check(okrev, 'TS-cluster-sets-closed-under-reversal', tag, sig=(tag, 'tsrev'))
                    vc = cluster.makeVacancyClusters(c, chem, ce)
                    ok = all(cl.g(c, g) in cs for cs in vc for cl in cs for g in c.G)
                    acc.check(ok, 'vacancy-cluster-sets-closed-under-symmetry', tag, sig=(tag, 'vac'))
                    acc.check(all(cl.vacancy().ci[0] == chem for cs in vc for cl in cs), 'vacancy-clusters-live-on-the-requested-sublattice', tag)
                    # transition-state clusters built on vacancy clusters: both flags set
                    jumps = {(i, j, tuple(np.round(dx, 6) + 0.)) for jl in jn for (i, j), dx in jl}
                    def is_jump(s0, s1):
                        if s0.ci[0] != chem or s1.ci[0] != chem: return False
                        dx = c.pos2cart(s1.R, s1.ci) - c.pos2cart(s0.R, s0.ci)
                        return (s0.ci[1], s1.ci[1], tuple(np.round(dx, 6) + 0.)) in jumps
                    acc.check(all(is_jump(*cl.transitionstate()) for cs in ts for cl in cs), 'TS-cluster-transition-is-a-jump-of-the-network', tag, sig=(tag, 'tsjump'))
                    tsv = cluster.makeTSclusters(c, chem, jn, vc)
                    okj = okg = okr = okid = oksp = True
                    for cs in tsv:
                        for cl in cs:
                            s0, s1 = cl.transitionstate()
                            if not is_jump(s0, s1): okj = False
                            if any(cl.g(c, g) not in cs for g in c.G): okg = False
                            rest = [x for x in cl]
                            # the reverse transition: vacancy on the end site, moving back; a spectator entry on the end site (the
                            # "with endpoint" variety, which names the species arriving there) becomes one on the start site
                            if cluster.Cluster([s1, s0] + [s0 if x == s1 else x for x in rest], transition=True, vacancy=True) not in cs: okr = False
                            # identity: a common translation and any order of the non-special sites give the same cluster ...
                            sh = cluster.Cluster([s0 + [2, -1, 1][:c.dim], s1 + [2, -1, 1][:c.dim]] + [x + [2, -1, 1][:c.dim] for x in reversed(rest)], transition=True, vacancy=True)
                            if not (sh == cl and hash(sh) == hash(cl) and sh.transitionstate() == (s0, s1) or sh.transitionstate() == cl.transitionstate()): okid = False
                            if not (sh == cl and hash(sh) == hash(cl)): okid = False
                            # ... while exchanging the final site with a spectator on the same sublattice names another transition
                            for k, x in enumerate(rest):
                                if x.ci[0] == chem and x != s1 and s1 not in rest:
                                    other = cluster.Cluster([s0, x] + rest[:k] + [s1] + rest[k + 1:], transition=True, vacancy=True)
                                    if other == cl and not (x.ci == s1.ci and np.array_equal(x.R, s1.R)): oksp = False
                    acc.check(okj, 'vacancy-TS-cluster-transition-is-a-jump-of-the-network', tag, sig=(tag, 'tsvjump'))
                    acc.check(okg, 'vacancy-TS-cluster-sets-closed-under-symmetry', tag, sig=(tag, 'tsvg'))
                    acc.check(okr, 'vacancy-TS-cluster-sets-closed-under-reversal', tag, sig=(tag, 'tsvrev'))
                    acc.check(okid, 'vacancy-TS-cluster-identity-invariant-under-translation-and-reordering-of-spectators', tag, sig=(tag, 'tsvid'))
                    acc.check(oksp, 'vacancy-TS-cluster-identity-distinguishes-the-final-site-from-spectators', tag, sig=(tag, 'tsvsp'))
                    flatv = [cl for cs in tsv for cl in cs]
                    acc.check(len(flatv) == len(set(flatv)) and all(sum(cl in cs for cs in tsv) == 1 for cl in flatv[:60]), 'vacancy-TS-cluster-sets-disjoint', tag, sig=(tag, 'tsvdis'))
                except Exception as ex:
                    acc.check(False, 'TS/vacancy-cluster-construction-no-exception', '%s: %s' % (type(ex).__name__, str(ex)[:200]))
    acc.sample = {'crystal': cid, 'maxorder': maxorder, 'checked': 'makeclusters vs brute force; orbit closure; identity; TS and vacancy clusters closed under symmetry / reversal'}
    return acc.result()


def annotate_C32(rep):
    rep.trust('brute-force spec: one term per cluster per lattice translation modulo the supercell; sites located through their positions (independent of ClusterSupercell.index)')
    rep.gaps.append('sampler catalogue only (FCC/HCP/B2 2x2x2-size cells, long-range pairs wrapping onto their own image, spectator sublattice, fixed vacancy); quick tier samples 24 occupations per case')


def annotate_C34(rep):
    rep.gaps.append('sampler catalogue only; quick tier samples 24 occupations per case, thorough is exhaustive (2^8)')


def annotate_C31(rep):
    rep.trust('brute-force spec: breadth-first growth of site sets inside a lattice window larger than the cutoff')
    rep.gaps.append('catalogue crystals, cutoffs at the first (and second, for small cells) shell of inter-site distances, order <= 3; TS/vacancy clusters are checked for closure, not against an independent enumeration')
