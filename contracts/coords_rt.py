"""C23 bounded companion (level B) and replay: the same route-consistency contracts evaluated numerically on REAL
crystals of the catalogue (floating point, real numpy), including cart2pos (O4), which branches on tolerances and is
therefore outside the symbolic engine."""
import numpy as np
from vf.rtc.runner import Acc


def routes(acc, c, chem, rng, ntr=6):
    from onsager import crystal, crystalStars as stars, cluster
    G = sorted(c.G, key=lambda g: (g.rot.tobytes(), tuple(np.round(g.trans, 6))))
    d = c.dim
    tol = 1e-9
    close = lambda a, b: np.allclose(a, b, atol=tol)
    nat = len(c.basis[chem])
    for t in range(ntr):
        g, h = G[rng.integers(len(G))], G[rng.integers(len(G))]
        R = rng.integers(-3, 4, size=d); R2 = rng.integers(-3, 4, size=d)
        i, j, k = (int(rng.integers(nat)) for _ in range(3))
        u = rng.uniform(0, 1, d); x = rng.normal(size=d); y = rng.normal(size=d)
        Rc, uc = c.cart2unit(c.unit2cart(R, crystal.incell(u)))
        acc.check(np.all(Rc == R) and close(uc, crystal.incell(u)), 'O1:cart2unit-after-unit2cart', 'R=%r u=%r -> %r %r' % (R, u, Rc, uc), sig='O1')
        acc.check(close(c.unit2cart(*c.cart2unit(x)), x), 'O2:unit2cart-after-cart2unit', '', sig='O2')
        acc.check(close(c.pos2cart(R, (chem, i)), c.unit2cart(R, c.basis[chem][i])), 'O3:pos2cart-is-unit2cart-of-basis', '', sig='O3')
        Rp, ind = c.cart2pos(c.pos2cart(R, (chem, i)))
        acc.check(ind == (chem, i) and np.all(Rp == R), 'O4:cart2pos-after-pos2cart', 'R=%r site %d -> %r %r' % (R, i, Rp, ind), sig='O4')
        Rg, indg = c.g_pos(g, R, (chem, i))
        acc.check(close(c.pos2cart(Rg, indg), c.g_cart(g, c.pos2cart(R, (chem, i)))), 'O5:g_pos-agrees-with-g_cart', '', sig='O5')
        Rv, uv = c.g_vect(g, R, c.basis[chem][i])
        acc.check(close(c.unit2cart(Rv, uv), c.pos2cart(Rg, indg)), 'O6:g_vect-on-basis-position-agrees-with-g_pos', '', sig='O6')
        Rv, uv = c.g_vect(g, R, crystal.incell(u))
        acc.check(close(c.unit2cart(Rv, uv), c.g_cart(g, c.unit2cart(R, crystal.incell(u)))), 'O7:g_vect-agrees-with-g_cart', '', sig='O7')
        acc.check(close(c.g_direc(g, x - y), c.g_cart(g, x) - c.g_cart(g, y)), 'O8:g_direc-of-difference', '', sig='O8')
        acc.check(close(c.g_tensor(g, np.outer(x, y)), np.outer(c.g_direc(g, x), c.g_direc(g, y))), 'O9:g_tensor-of-outer-product', '', sig='O9')
        gh = g * h
        acc.check(close(c.g_cart(gh, x), c.g_cart(g, c.g_cart(h, x))), 'O10:product-acts-as-composition(g_cart)', '', sig='O10')
        Ra, ia = c.g_pos(gh, R, (chem, i)); Rb, ib = c.g_pos(h, R, (chem, i)); Rb, ib = c.g_pos(g, Rb, ib)
        acc.check(ia == ib and np.all(Ra == Rb), 'O10:product-acts-as-composition(g_pos,indexmap)', 'site %d: %r %r vs %r %r' % (i, Ra, ia, Rb, ib), sig='O10p')
        gi = g.inv()
        acc.check(close(c.g_cart(gi, c.g_cart(g, x)), x), 'O11:inverse-is-inverse-map(g_cart)', '', sig='O11')
        Ra, ia = c.g_pos(gi, *c.g_pos(g, R, (chem, i)))
        acc.check(ia == (chem, i) and np.all(Ra == R), 'O11:inverse-is-inverse-map(g_pos)', '', sig='O11p')
        n = rng.integers(-2, 3, size=d)
        acc.check(close(c.g_cart(g + n, x), c.g_cart(g, x) + c.lattice @ n) and close(c.g_cart(g - n, x), c.g_cart(g, x) - c.lattice @ n), 'O12:adding-lattice-vector', '', sig='O12')
        ps = stars.PairState.fromcrys_latt(c, chem, (i, j), R)
        acc.check(ps.__sane__(c, chem), 'O14:fromcrys_latt-gives-true-separation', 'i,j=%d,%d R=%r dx=%r' % (i, j, R, ps.dx), sig='O14a')
        back = stars.PairState.fromcrys(c, chem, (i, j), ps.dx)
        acc.check(np.all(back.R == R), 'O14:fromcrys-inverts-fromcrys_latt', '', sig='O14')
        gps = ps.g(c, chem, g)
        Ri, ii = c.g_pos(g, np.zeros(d, dtype=int), (chem, i)); Rj, jj = c.g_pos(g, R, (chem, j))
        acc.check((gps.i, gps.j) == (ii[1], jj[1]) and np.all(gps.R == Rj - Ri) and gps.__sane__(c, chem) and close(gps.dx, c.g_direc(g, ps.dx)),
                  'O13:PairState.g-agrees-with-g_pos-and-stays-sane', '', sig='O13')
        cs = cluster.ClusterSite((chem, j), R); gcs = cs.g(c, g)
        acc.check(gcs.ci == jj and np.all(gcs.R == Rj), 'O13:ClusterSite.g-agrees-with-g_pos', '', sig='O13c')


def w_routes(arg):
    idx, tier, seed = arg
    from vf.common import repo_on_path; repo_on_path()
    import warnings; warnings.filterwarnings('ignore')
    from vf.rtc import catalogue
    cid, f = catalogue.builders(tier, seed)[idx]
    e = f(); c = e['crys']; acc = Acc(cid)
    rng = np.random.default_rng(seed * 23 + idx)
    for chem in range(len(c.basis)):
        routes(acc, c, chem, rng, 6 if tier == 'quick' else 30)
    # the same routes on a crystal whose constructor arguments were afterwards edited in place by the caller (one array re-used
    # for a family of crystals): the object must carry its own consistent lattice / inverse / operations
    try:
        from onsager import crystal as _cr
        latt_in = np.array(c.lattice); basis_in = [[np.array(u) for u in b] for b in c.basis]
        kw = {} if c.spins is None else {'spins': [[np.array(x) if np.ndim(x) else x for x in sp] for sp in c.spins]}
        c2 = _cr.Crystal(latt_in, basis_in, list(c.chemistry), **kw)
        latt_in[-1, -1] *= 1.2; latt_in[0, -1] += 0.07
        for b in basis_in:
            for u in b: u += 0.123
        class _Tag:
            def __init__(self, a): self.a = a
            def check(self, ok, clause, detail='', **k): return self.a.check(ok, clause + ' [arguments edited in place after construction]', detail, **k)
            def __getattr__(self, n): return getattr(self.a, n)
        for chem in range(len(c2.basis)):
            routes(_Tag(acc), c2, chem, rng, 3 if tier == 'quick' else 10)
    except Exception as ex:
        acc.check(False, 'routes-after-arguments-edited-in-place', 'raised %s: %s' % (type(ex).__name__, str(ex)[:200]), sig='owns')
    acc.sample = {'crystal': cid, 'checked': 'O1-O14 numerically incl. cart2pos, random operations / lattice vectors / sites; again on a rebuilt crystal whose constructor arguments were then edited in place'}
    return acc.result()


def replay(name, d):
    """numeric replay of a refuted symbolic obligation on real crystals of dimension d -> witness or None"""
    from vf.rtc import catalogue
    key = name.split(':')[0]
    for cid, f in catalogue.builders('quick', 0):
        e = f(); c = e['crys']
        if c.dim != d: continue
        acc = Acc(cid)
        for chem in range(len(c.basis)):
            routes(acc, c, chem, np.random.default_rng(5), 8)
        bad = [v for v in acc.viols if v['clause'].split(':')[0] == key or key == 'C36']
        if bad:
            return {'replayed': True, 'signature': name, 'input': 'catalogue crystal %s (real numpy module)' % cid,
                    'observed': 'clause %s fails numerically: %s' % (bad[0]['clause'], bad[0]['detail'])}
    return None
