"""C13 run-time contracts for the YAML and stand-alone HDF5 round trips (crystals, group operations, pair states, cluster
sites, clusters of all four kinds; GF calculator, star sets, vector star sets, Taylor expansions)."""
import numpy as np
from vf.rtc.runner import Acc


def w_yaml_hdf5(arg):
    idx, tier, seed = arg
    from vf.common import repo_on_path; repo_on_path()
    import warnings; warnings.filterwarnings('ignore')
    import yaml, h5py
    from onsager import crystal, crystalStars as stars, cluster, GFcalc, PowerExpansion as PE, OnsagerCalc
    from vf.rtc import catalogue
    cid, f = catalogue.builders(tier, seed)[idx]
    e = f(); c, chem = e['crys'], e['chem']; acc = Acc(cid)
    rng = np.random.default_rng(seed * 83 + idx)
    rt = lambda obj: yaml.load(yaml.dump(obj), Loader=yaml.Loader)
    # crystal
    c2 = rt(c)
    ok = c2.dim == c.dim and np.allclose(c2.lattice, c.lattice, atol=1e-14) and [len(b) for b in c2.basis] == [len(b) for b in c.basis] and \
        all(np.allclose(u, v, atol=1e-14) for a, b in zip(c2.basis, c.basis) for u, v in zip(a, b)) and c2.chemistry == c.chemistry and len(c2.G) == len(c.G)
    acc.check(ok, 'crystal-yaml-round-trip', '', sig='crys')
    G = sorted(c.G, key=lambda g: g.rot.tobytes())
    for g in G[:6]:
        g2 = rt(g)
        acc.check(g2 == g and hash(g2) == hash(g) and g2.indexmap == g.indexmap, 'groupop-yaml-round-trip', '', sig='gop')
    jn = c.jumpnetwork(chem, e['cutoff'])
    ss = stars.StarSet(jn, c, chem, 1, originstates=True)
    for ps in ss.states[:8]:
        p2 = rt(ps)
        acc.check(p2 == ps and hash(p2) == hash(ps) and np.allclose(p2.dx, ps.dx, atol=1e-14), 'pairstate-yaml-round-trip', '', sig='ps')
    ce = cluster.makeclusters(c, e['cutoff'], 2)
    vc = cluster.makeVacancyClusters(c, chem, ce)
    ts = cluster.makeTSclusters(c, chem, jn, ce)
    tsv = cluster.makeTSclusters(c, chem, jn, vc)
    for kind, exp in (('plain', ce), ('vacancy', vc), ('transition', ts), ('transition+vacancy', tsv)):
        n = 0
        for cs in exp:
            for cl in list(cs)[:2]:
                c3 = rt(cl); n += 1
                acc.check(c3 == cl and cl == c3 and hash(c3) == hash(cl) and c3 in cs and c3.Norder == cl.Norder and
                          c3.__transition__ == cl.__transition__ and c3.__vacancy__ == cl.__vacancy__,
                          'cluster-yaml-round-trip(%s)' % kind, repr(cl)[:80], sig=('cl', kind))
                for site in cl.sites[:2]:
                    acc.check(rt(site) == site, 'clustersite-yaml-round-trip', '', sig='cs')
            if n >= 6: break
    # stand-alone HDF5: star set, vector star set, GF calculator, Taylor expansion
    f5 = h5py.File('rt-%s.h5' % idx, 'w', driver='core', backing_store=False)
    ss.addhdf5(f5.create_group('ss')); ss2 = stars.StarSet.loadhdf5(c, f5['ss'])
    acc.check(ss2.states == ss.states and ss2.stars == ss.stars and np.array_equal(ss2.index, ss.index) and ss2.Nshells == ss.Nshells and
              all(ss2.stateindex(s) == ss.stateindex(s) for s in ss.states), 'starset-hdf5-round-trip', '', sig='ss')
    # the reloaded set is the same object in every field that later computations read, and behaves the same
    acc.check(ss2.jumplist == ss.jumplist and [list(x) for x in ss2.jumpnetwork_index] == [list(x) for x in ss.jumpnetwork_index] and
              len({id(x) for x in ss2.jumpnetwork_index}) == len(ss2.jumpnetwork_index) and ss2.Nstates == ss.Nstates and ss2.Nstars == ss.Nstars and
              len({id(x) for x in ss2.stars}) == len(ss2.stars),
              'starset-hdf5-round-trip:jump-tables-identical-and-unshared', '', sig='ssj')
    def canon(net):
        jn_, jt_, sp_ = net
        return sorted((tuple(sorted((i, f) for (i, f), dx in jl)), t_, tuple(p_)) for jl, t_, p_ in zip(jn_, jt_, sp_))
    acc.check(canon(ss2.jumpnetwork_omega1()) == canon(ss.jumpnetwork_omega1()) and canon(ss2.jumpnetwork_omega2()) == canon(ss.jumpnetwork_omega2()),
              'starset-hdf5-round-trip:omega-networks-of-the-reloaded-set-identical', '', sig='sso')
    ss3 = stars.StarSet.loadhdf5(c, f5['ss']); ss3.generate(2, originstates=True)
    ssg = stars.StarSet(jn, c, chem, 2, originstates=True)
    acc.check(set(ss3.states) == set(ssg.states) and ss3.Nstars == ssg.Nstars and canon(ss3.jumpnetwork_omega1()) == canon(ssg.jumpnetwork_omega1()),
              'starset-hdf5-round-trip:regenerating-a-reloaded-set-equals-a-fresh-one', '', sig='ssg')
    vs = stars.VectorStarSet(ss)
    vs.addhdf5(f5.create_group('vs')); vs2 = stars.VectorStarSet.loadhdf5(ss, f5['vs'])
    acc.check(vs2.Nvstars == vs.Nvstars and vs2.vecpos == vs.vecpos and all(np.array_equal(a, b) for x, y in zip(vs2.vecvec, vs.vecvec) for a, b in zip(x, y))
              and np.array_equal(vs2.outer, vs.outer), 'vectorstarset-hdf5-round-trip', '', sig='vs')
    try:
        gf = GFcalc.GFCrystalcalc(c, chem, c.sitelist(chem), jn, 2)
        gf.addhdf5(f5.create_group('gf')); gf2 = GFcalc.GFCrystalcalc.loadhdf5(c, f5['gf'])
        Ns, Nj = len(c.sitelist(chem)), len(jn)
        for t in range(2):
            pre, be = rng.uniform(.5, 2, Ns), rng.uniform(0, 1, Ns); preT = rng.uniform(.5, 2, Nj); beT = be.max() + rng.uniform(.3, 1.5, Nj)
            gf.SetRates(pre, be, preT, beT); gf2.SetRates(pre, be, preT, beT)
            pts = [(ps.i, ps.j, ps.dx) for ps in ss.states[:6]]
            acc.check(np.array_equal(gf.D, gf2.D) and all(gf(*p) == gf2(*p) for p in pts), 'gf-calculator-hdf5-round-trip-identical-results', 'dataset %d' % t, sig=('gf', t))
    except ArithmeticError:
        pass
    T = PE.Taylor3D if c.dim == 3 else PE.Taylor2D
    T()
    coeff = []
    for (n_, l_) in ((0, 0), (1, 1), (2, 2), (2, 0), (-2, 0)):
        coeff.append((n_, l_, rng.normal(size=(T.powlrange[l_], 2, 2)) + 1j * rng.normal(size=(T.powlrange[l_], 2, 2))))
    ex = T(coeff)
    ex.addhdf5(f5.create_group('taylor')); ex2 = T.loadhdf5(f5['taylor'])
    # the file is keyed by (n, l) and listed in key order, so the terms may come back in a different order
    d1 = {(int(a[0]), int(a[1])): a[2] for a in ex.coefflist}; d2 = {(int(a[0]), int(a[1])): a[2] for a in ex2.coefflist}
    ok = len(ex2.coefflist) == len(ex.coefflist) and set(d1) == set(d2) and all(np.array_equal(d1[k], d2[k]) and d1[k].dtype == d2[k].dtype for k in d1)
    acc.check(ok, 'taylor-expansion-hdf5-round-trip', '', sig='taylor')
    acc.sample = {'crystal': cid, 'checked': 'YAML: crystal, group ops, pair states, cluster sites, four kinds of clusters; HDF5: star set, vector star set, GF calculator, Taylor expansion'}
    return acc.result()
