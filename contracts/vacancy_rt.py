"""Run-time contracts (level B) for OnsagerCalc.VacancyMediated on a catalogue of real calculators:
C03 (symmetry / invariance / positivity), C04 (reference invariances, rate covariance), C06 (tracer identities),
C08 (omega2 algorithms), C14 (history independence), C13 (HDF5 round trip), C15 (tags)."""
import io, itertools
import numpy as np
from vf.rtc.runner import Acc

VAC_IDS_QUICK = ['FCC', 'BCC', 'HCP', 'B2', 'square2D', 'honeycomb2D', 'HCP+OT', 'ortho2site', 'wurtzite+X', 'P-4(S4 site)', 'mono-P2/m-rotated', 'rect2D-rot30']
VAC_IDS_THOROUGH = VAC_IDS_QUICK + ['SC', 'diamond', 'L12', 'tria2D', 'rect2D', 'oblique2D', 'rumpled-omega', 'omega', 'tric-P-1', 'HCP-rotated', 'random5-dim2-1atoms', 'random7-dim2-2atoms']


def vac_ids(tier): return VAC_IDS_QUICK if tier == 'quick' else VAC_IDS_THOROUGH


def build(cid, tier, seed, Nthermo=1):
    from onsager import OnsagerCalc
    from vf.rtc import catalogue
    e = [f for c, f in catalogue.builders('thorough', seed) if c == cid][0]()
    c, chem = e['crys'], e['chem']
    jn = c.jumpnetwork(chem, e['cutoff'])
    return OnsagerCalc.VacancyMediated(c, chem, c.sitelist(chem), jn, Nthermo), e


def data(d, rng, spread=1.0, tracer=False):
    """seeded thermodynamic data (dictionary for preene2betafree)"""
    N, Nj = len(d.sitelist), len(d.om0_jn)
    t = {'preV': rng.uniform(.5, 2, N), 'eneV': spread * rng.uniform(0, 1, N),
         'preT0': rng.uniform(.5, 2, Nj)}
    t['eneT0'] = t['eneV'].max() + spread * rng.uniform(0.3, 1.5, Nj)
    if tracer:
        t.update(d.maketracerpreene(**t))
    else:
        t['preS'] = rng.uniform(.5, 2, N); t['eneS'] = spread * rng.uniform(-0.5, 0.5, N)
        t['preSV'] = rng.uniform(.5, 2, d.thermo.Nstars); t['eneSV'] = spread * rng.uniform(-0.7, 0.7, d.thermo.Nstars)
        t.update(d.makeLIMBpreene(**t))
        t['preT1'] = t['preT1'] * rng.uniform(.7, 1.4, len(t['preT1'])); t['eneT1'] = t['eneT1'] + spread * rng.uniform(-0.2, 0.4, len(t['eneT1']))
        t['preT2'] = t['preT2'] * rng.uniform(.7, 1.4, len(t['preT2'])); t['eneT2'] = t['eneT2'] + spread * rng.uniform(-0.3, 0.5, len(t['eneT2']))
    return t


def L(d, t, kT=1., **kw):
    return d.Lij(*d.preene2betafree(kT, **t), **kw)


NAMES = ('L0vv', 'Lss', 'Lsv', 'L1vv')


def w_vacancy(arg):
    cid, tier, seed, which = arg
    from vf.common import repo_on_path; repo_on_path()
    import warnings; warnings.filterwarnings('ignore')
    acc = Acc(cid)
    try:
        d, e = build(cid, tier, seed)
    except Exception as ex:
        acc.check(False, 'calculator-constructs', '%s: %s' % (type(ex).__name__, str(ex)[:300])); return acc.result()
    c = d.crys; G = list(c.G)
    rng = np.random.default_rng(seed * 71 + sum(map(ord, cid)))
    hasOS = len(d.OSindices) > 0
    nsets = 3 if tier == 'quick' else 8
    for k in range(nsets):
        tag = 'dataset %d' % k
        if which == 'C03':
            t = data(d, rng, spread=(1.0, 3.0, 8.0)[k % 3], tracer=(k == 0))
            Ls = L(d, t); sc = max(np.abs(x).max() for x in Ls)
            for nm, T in zip(NAMES, Ls):
                acc.check(np.all(np.isfinite(T)), nm + '-finite', tag, sig=(k, nm, 'fin'))
                symtol = 1e-5 if hasOS else 1e-8       # with origin states the integrated bias correction enters: integration accuracy
                acc.check(np.abs(T - T.T).max() <= symtol * sc, nm + '-symmetric', '%s: %.2e' % (tag, np.abs(T - T.T).max() / sc), sig=(k, nm, 'sym'))
                acc.check(max(np.abs(g.cartrot @ T @ g.cartrot.T - T).max() for g in G) <= 1e-7 * sc, nm + '-invariant-under-point-group', tag, sig=(k, nm, 'inv'))
            for nm, T in ((NAMES[0], Ls[0]), (NAMES[1], Ls[1])):
                ev = np.linalg.eigvalsh(0.5 * (T + T.T)).min()
                acc.check(ev >= -1e-7 * sc, nm + '-positive-semidefinite', '%s: smallest eigenvalue %.4g (scale %.3g)' % (tag, ev, sc), sig=(k, nm, 'psd'),
                          signature='%s|%s|tracer=%s' % (nm, cid, k == 0))
        if which == 'C04':
            t = data(d, rng)
            base = L(d, t); sc = max(np.abs(x).max() for x in base)
            def same(Ls2, clause, factor=1.):
                worst = max(np.abs(a - factor * b).max() for a, b in zip(Ls2, base)) / (factor * sc)
                acc.check(worst <= 1e-7, clause, '%s: %.2e' % (tag, worst), sig=(k, clause))
            cs = rng.uniform(-2, 2)
            same(L(d, dict(t, eneV=t['eneV'] + cs, eneT0=t['eneT0'] + cs, eneT1=t['eneT1'] + cs, eneT2=t['eneT2'] + cs)), 'invariant-under-vacancy-energy-shift')
            same(L(d, dict(t, eneS=t['eneS'] + cs, eneT1=t['eneT1'] + cs, eneT2=t['eneT2'] + cs)), 'invariant-under-solute-energy-shift')
            s_ = rng.uniform(0.3, 4)
            same(L(d, dict(t, preV=t['preV'] * s_, preT0=t['preT0'] * s_, preT1=t['preT1'] * s_, preT2=t['preT2'] * s_)), 'invariant-under-joint-vacancy-prefactor-scaling')
            same(L(d, dict(t, preS=t['preS'] * s_, preT1=t['preT1'] * s_, preT2=t['preT2'] * s_)), 'invariant-under-joint-solute-prefactor-scaling')
            same(L(d, {kk: (v * s_ if kk.startswith('ene') else v) for kk, v in t.items()}, kT=s_), 'invariant-under-energy-temperature-coscaling')
            lam = rng.uniform(0.05, 20)
            scaled = dict(t, preT0=t['preT0'] * lam, preT1=t['preT1'] * lam, preT2=t['preT2'] * lam)
            same(L(d, scaled), 'every-coefficient-scales-with-the-rate-factor', lam)     # same (reused) calculator
            d2, _ = build(cid, tier, seed)
            same(L(d2, scaled), 'rate-scaling-on-a-fresh-calculator', lam)
            same(L(d, t), 'reused-calculator-reproduces-the-unscaled-result')
        if which == 'C06':
            t = data(d, rng, spread=(1.0, 2.5)[k % 2], tracer=True)
            L0, Lss, Lsv, L1 = L(d, t); sc = np.abs(L0).max()
            # crystals with origin states: the identity involves the integrated bias correction, so it holds to the Green-function
            # integration accuracy only (fixed constant 1e-4, the same as for the lattice equation of C10); otherwise it is algebraic
            tol = 1e-4 if hasOS else 1e-9
            acc.check(np.abs(Lsv + L0).max() <= tol * sc, 'solute-vacancy-coefficient-is-minus-bare-vacancy', '%s: %.2e (tolerance %.0e)' % (tag, np.abs(Lsv + L0).max() / sc, tol), sig=(k, 'sv'))
            acc.check(np.abs(L1).max() <= tol * sc, 'vacancy-correction-vanishes', '%s: %.2e' % (tag, np.abs(L1).max() / sc), sig=(k, 'l1'))
            lo = np.linalg.eigvalsh(0.5 * (Lss + Lss.T)).min(); hi = np.linalg.eigvalsh(0.5 * ((L0 - Lss) + (L0 - Lss).T)).min()
            acc.check(lo >= -max(tol, 1e-7) * sc and hi >= -max(tol, 1e-7) * sc, 'solute-coefficient-between-zero-and-bare-vacancy',
                      '%s: min eig Lss %.4g, min eig (L0vv-Lss) %.4g, scale %.3g' % (tag, lo, hi, sc), sig=(k, 'between'), signature='between|%s' % cid)
            # the caller converts units in place (the docstring says the results need multiplying by cv/kBT): the identities must survive
            for T in (L0, Lss, Lsv, L1): T *= 3.0
            L0b, Lssb, Lsvb, L1b = L(d, t)
            acc.check(np.abs(Lsvb + L0b).max() <= tol * sc and np.abs(L0b - L0 / 3.0).max() <= 1e-12 * sc, 'identities-survive-in-place-edits-of-earlier-results',
                      '%s: after scaling the returned arrays in place, L0vv changed by %.2e' % (tag, np.abs(L0b - L0 / 3.0).max() / sc), sig=(k, 'inplace'))
        if which == 'C08':
            t = data(d, rng)
            if k % 2 == 1 and len(t['eneT2']) >= 2:
                t['eneT2'] = t['eneT2'].copy(); t['eneT2'][0] -= 2.5       # exchange classes with rates an order of magnitude apart
            ref10 = None
            for s_ in (1e-3, 1., 1e3, 1e6, 1e8, 1e10, 1e12, 1e14, 1e15, 1e16):
                ts = dict(t, preT2=t['preT2'] * s_)
                Ld = L(d, ts); sc = max(np.abs(x).max() for x in Ld)
                for nm, T in zip(NAMES, Ld):
                    acc.check(np.all(np.isfinite(T)) and np.abs(T - T.T).max() <= 1e-6 * sc, 'default-selection-finite-and-symmetric', '%s scale %g %s' % (tag, s_, nm), sig=(k, s_, nm))
                if s_ <= 1e6:
                    La, Lb = L(d, ts, large_om2=0), L(d, ts, large_om2=np.inf)
                    worst = max(np.abs(a - b).max() for a, b in zip(La, Lb)) / sc
                    acc.check(worst <= 1e-7, 'large-rate-algorithm-agrees-with-standard-algorithm', '%s scale %g: %.2e' % (tag, s_, worst), sig=(k, s_, 'agree'), signature='agree|%s|%s' % (cid, 'below-1e-4' if worst < 1e-4 else 'above-1e-4'))
                if s_ == 1e10: ref10 = Ld
                if s_ >= 1e12 and ref10 is not None:
                    for nm, T, R in zip(NAMES, Ld, ref10):
                        dev = np.abs(T - R).max() / max(np.abs(R).max(), 1e-300)
                        acc.check(dev <= 1e-3, 'approaches-the-large-rate-limit-smoothly', '%s: %s at scale %g differs from its 1e10 value by %.2e' % (tag, nm, s_, dev),
                                  sig=(k, s_, nm, 'smooth'), signature='smooth|%s|%s|%g' % (cid, nm, s_))
    acc.sample = {'calculator': cid, 'Nvstars': int(d.vkinetic.Nvstars), 'origin_states': int(len(d.OSindices)), 'datasets': nsets, 'property': which}
    return acc.result()
