"""Run-time contracts (level B) for OnsagerCalc.VacancyMediated on a catalogue of real calculators:
C03 (symmetry / invariance / positivity), C04 (reference invariances, rate covariance), C06 (tracer identities),
C08 (omega2 algorithms), C14 (history independence), C13 (HDF5 round trip), C15 (tags)."""
import io, itertools
import numpy as np
from vf.rtc.runner import Acc

VAC_IDS_QUICK = ['FCC', 'BCC', 'HCP', 'B2', 'square2D', 'honeycomb2D', 'HCP+OT', 'ortho2site', 'wurtzite+X', 'P-4(S4 site)', 'mono-P2/m-rotated', 'rect2D-rot30']
VAC_IDS_THOROUGH = VAC_IDS_QUICK + ['SC', 'diamond', 'L12', 'tria2D', 'rect2D', 'oblique2D', 'rumpled-omega', 'omega', 'tric-P-1', 'HCP-rotated', 'random5-dim2', 'random7-dim2']     # random members: matched by prefix (the atom count in the id depends on the seed)


def vac_ids(tier): return VAC_IDS_QUICK if tier == 'quick' else VAC_IDS_THOROUGH


def build(cid, tier, seed, Nthermo=1):
    from onsager import OnsagerCalc
    from vf.rtc import catalogue
    e = [f for c, f in catalogue.builders('thorough', seed) if c == cid or (cid.startswith('random') and c.startswith(cid + '-'))][0]()
    c, chem = e['crys'], e['chem']
    jn = c.jumpnetwork(chem, e['cutoff'])
    return OnsagerCalc.VacancyMediated(c, chem, c.sitelist(chem), jn, Nthermo), e


def data(d, rng, spread=1.0, tracer=False):
    """seeded thermodynamic data (dictionary for preene2betafree)"""
    N, Nj = len(d.sitelist), len(d.om0_jn)
    t = {'preV': rng.uniform(.5, 2, N), 'eneV': spread * rng.uniform(0, 1, N),
         'preT0': rng.uniform(.5, 2, Nj)}
    t['eneT0'] = t['eneV'].max() + spread * rng.uniform(0.3, 1.5, Nj)
    if tracer:
        t.update(d.maketracerpreene(**t))
    else:
        t['preS'] = rng.uniform(.5, 2, N); t['eneS'] = spread * rng.uniform(-0.5, 0.5, N)
        t['preSV'] = rng.uniform(.5, 2, d.thermo.Nstars); t['eneSV'] = spread * rng.uniform(-0.7, 0.7, d.thermo.Nstars)
        t.update(d.makeLIMBpreene(**t))
        t['preT1'] = t['preT1'] * rng.uniform(.7, 1.4, len(t['preT1'])); t['eneT1'] = t['eneT1'] + spread * rng.uniform(-0.2, 0.4, len(t['eneT1']))
        t['preT2'] = t['preT2'] * rng.uniform(.7, 1.4, len(t['preT2'])); t['eneT2'] = t['eneT2'] + spread * rng.uniform(-0.3, 0.5, len(t['eneT2']))
    return t


def L(d, t, kT=1., **kw):
    return d.Lij(*d.preene2betafree(kT, **t), **kw)


NAMES = ('L0vv', 'Lss', 'Lsv', 'L1vv')


def w_vacancy(arg):
    cid, tier, seed, which = arg
    from vf.common import repo_on_path; repo_on_path()
    import warnings; warnings.filterwarnings('ignore')
    acc = Acc(cid)
    try:
        d, e = build(cid, tier, seed)
    except Exception as ex:
        acc.check(False, 'calculator-constructs', '%s: %s' % (type(ex).__name__, str(ex)[:300])); return acc.result()
    c = d.crys; G = list(c.G)
    rng = np.random.default_rng(seed * 71 + sum(map(ord, cid)))
    hasOS = len(d.OSindices) > 0
    acc.klass = 'OS=%d,wy=%d,pg=%d,dim=%d' % (hasOS, len(d.sitelist), len({tuple(np.round(g.cartrot, 6).ravel()) for g in G}), c.dim)
    nsets = 3 if tier == 'quick' else 8
    first_tracer = None
    for k in range(nsets + (1 if which == 'C06' else 0)):
        tag = 'dataset %d' % k
        if which == 'C03':
            t = data(d, rng, spread=(1.0, 3.0, 8.0)[k % 3], tracer=(k == 0))
            Ls = L(d, t); sc = max(np.abs(x).max() for x in Ls)
            for nm, T in zip(NAMES, Ls):
                acc.check(np.all(np.isfinite(T)), nm + '-finite', tag, sig=(k, nm, 'fin'))
                symtol = 1e-5 if hasOS else 1e-8       # with origin states the integrated bias correction enters: integration accuracy
                acc.check(np.abs(T - T.T).max() <= symtol * sc, nm + '-symmetric', '%s: %.2e' % (tag, np.abs(T - T.T).max() / sc), sig=(k, nm, 'sym'))
                acc.check(max(np.abs(g.cartrot @ T @ g.cartrot.T - T).max() for g in G) <= 1e-7 * sc, nm + '-invariant-under-point-group', tag, sig=(k, nm, 'inv'))
            for nm, T in ((NAMES[0], Ls[0]), (NAMES[1], Ls[1])):
                ev = np.linalg.eigvalsh(0.5 * (T + T.T)).min()
                acc.check(ev >= -1e-7 * sc, nm + '-positive-semidefinite', '%s: smallest eigenvalue %.4g (scale %.3g)' % (tag, ev, sc), sig=(k, nm, 'psd'),
                          signature='%s|%s|tracer=%s' % (nm, cid, k == 0))
        if which == 'C04':
            t = data(d, rng)
            base = L(d, t); sc = max(np.abs(x).max() for x in base)
            def same(Ls2, clause, factor=1.):
                worst = max(np.abs(a - factor * b).max() for a, b in zip(Ls2, base)) / (factor * sc)
                acc.check(worst <= 1e-7, clause, '%s: %.2e' % (tag, worst), sig=(k, clause))
            cs = rng.uniform(-2, 2)
            same(L(d, dict(t, eneV=t['eneV'] + cs, eneT0=t['eneT0'] + cs, eneT1=t['eneT1'] + cs, eneT2=t['eneT2'] + cs)), 'invariant-under-vacancy-energy-shift')
            same(L(d, dict(t, eneS=t['eneS'] + cs, eneT1=t['eneT1'] + cs, eneT2=t['eneT2'] + cs)), 'invariant-under-solute-energy-shift')
            s_ = rng.uniform(0.3, 4)
            same(L(d, dict(t, preV=t['preV'] * s_, preT0=t['preT0'] * s_, preT1=t['preT1'] * s_, preT2=t['preT2'] * s_)), 'invariant-under-joint-vacancy-prefactor-scaling')
            same(L(d, dict(t, preS=t['preS'] * s_, preT1=t['preT1'] * s_, preT2=t['preT2'] * s_)), 'invariant-under-joint-solute-prefactor-scaling')
            same(L(d, {kk: (v * s_ if kk.startswith('ene') else v) for kk, v in t.items()}, kT=s_), 'invariant-under-energy-temperature-coscaling')
            lam = rng.uniform(0.05, 20)
            scaled = dict(t, preT0=t['preT0'] * lam, preT1=t['preT1'] * lam, preT2=t['preT2'] * lam)
            same(L(d, scaled), 'every-coefficient-scales-with-the-rate-factor', lam)     # same (reused) calculator
            d2, _ = build(cid, tier, seed)
            same(L(d2, scaled), 'rate-scaling-on-a-fresh-calculator', lam)
            same(L(d, t), 'reused-calculator-reproduces-the-unscaled-result')
            # every rate times a factor far from one, applied once through the prefactors and once through the transition-state energies:
            # nothing in the calculator may compare a rate with an absolute number
            for big in (1e-10, 1e10):
                same(L(d, dict(t, preT0=t['preT0'] * big, preT1=t['preT1'] * big, preT2=t['preT2'] * big)), 'scales-with-an-extreme-rate-factor(prefactors)', big)
                sh = -np.log(big)
                same(L(d, dict(t, eneT0=t['eneT0'] + sh, eneT1=t['eneT1'] + sh, eneT2=t['eneT2'] + sh)), 'scales-with-an-extreme-rate-factor(transition-energies)', big)
        if which == 'C04' and k == 0:
            # clause (d): sites displaced inside the cell along a symmetry-invariant vector field (same space group, same jump topology,
            # same rates and bindings class by class, classes identified by their (i, j, R) content): same transport coefficients
            from onsager import crystal as _cr, OnsagerCalc as _oc
            chem = d.chem
            VB, _VV = c.FullVectorBasis(chem)
            if len(VB) > 0:
                def keyPS(PS): return (int(PS.i), int(PS.j), tuple(int(x) for x in PS.R))
                def starkeys(ss): return [frozenset(keyPS(ss.states[x]) for x in star) for star in ss.stars]
                def jkeys(jn, ss): return [frozenset((keyPS(ss.states[i]), keyPS(ss.states[j])) for (i, j), dx in jl) for jl in jn]
                Vf = np.array(VB[0]); Vf = Vf / np.abs(Vf).max(); eps = 0.02 * min(np.linalg.norm(c.lattice, axis=0))
                newb = [[np.array(u) for u in b] for b in c.basis]
                for i in range(len(newb[chem])): newb[chem][i] = newb[chem][i] + eps * (c.invlatt @ Vf[i])
                c2 = _cr.Crystal(c.lattice, newb, list(c.chemistry), noreduce=True)
                sh = c2.basis[chem][0] - newb[chem][0]
                same_order = all(np.allclose((c2.basis[cc][i] - newb[cc][i] - sh) - np.round(c2.basis[cc][i] - newb[cc][i] - sh), 0, atol=1e-9) for cc in range(len(newb)) for i in range(len(newb[cc])))
                if same_order and len(c2.G) == len(c.G):
                    jn2 = [[((i, j), c2.lattice @ (R + c2.basis[chem][j] - c2.basis[chem][i])) for (i, j), R in jl] for jl in c.jumpnetwork2lattice(chem, d.om0_jn)]
                    d2 = _oc.VacancyMediated(c2, chem, d.sitelist, jn2, d.Nthermo)
                    pairs = [(starkeys(d.thermo), starkeys(d2.thermo)), (jkeys(d.om1_jn, d.kinetic), jkeys(d2.om1_jn, d2.kinetic)), (jkeys(d.om2_jn, d.kinetic), jkeys(d2.om2_jn, d2.kinetic))]
                    if all(len(a) == len(b) and set(a) == set(b) for a, b in pairs):
                        mp_ = [[a.index(x) for x in b] for a, b in pairs]
                        tt = data(d, rng)
                        t2 = dict(tt, preSV=tt['preSV'][mp_[0]], eneSV=tt['eneSV'][mp_[0]], preT1=tt['preT1'][mp_[1]], eneT1=tt['eneT1'][mp_[1]], preT2=tt['preT2'][mp_[2]], eneT2=tt['eneT2'][mp_[2]])
                        La, Lb = L(d, tt), L(d2, t2); sca = max(np.abs(x).max() for x in La)
                        for nm, A_, B_ in zip(NAMES, La, Lb):
                            dev = np.abs(A_ - B_).max() / sca
                            acc.check(dev <= 1e-6, 'invariant-under-symmetry-preserving-site-displacement', '%s changes by %.2e of the largest coefficient when the sites move by %.3f along an invariant field (same rates, same bindings)' % (nm, dev, eps),
                                      sig=('disp', nm), signature='disp|%s|%s' % (nm, 'below-1e-1' if dev < 1e-1 else 'above-1e-1'))
        if which == 'C06':
            if k == nsets:
                # the first data set once more, after the others went through the same calculator: the identities are a property of
                # the inputs, not of what the Green-function calculator evaluated last
                t = first_tracer; tag = tag + ' (first data set again, after %d others)' % (nsets - 1)
            else:
                t = data(d, rng, spread=(1.0, 2.5)[k % 2], tracer=True)
                if first_tracer is None: first_tracer = t
            if k == 1:
                # every vacancy jump 1e-12 times slower (transition states 27.6 kT higher): the tracer identities are about rate ratios
                t = dict(t, eneT0=t['eneT0'] + 27.6); t.update(d.maketracerpreene(**t)); tag = tag + ' (all rates x 1e-12)'
            L0, Lss, Lsv, L1 = L(d, t); sc = np.abs(L0).max()
            # crystals with origin states: the identity involves the integrated bias correction, so it holds to the Green-function
            # integration accuracy only (fixed constant 1e-4, the same as for the lattice equation of C10); otherwise it is algebraic
            tol = 3e-4 if hasOS else 1e-9     # (1.1e-4 seen on the rotated monoclinic cell at an energy spread of 2.5 kT)
            r_sv, r_l1 = np.abs(Lsv + L0).max() / sc, np.abs(L1).max() / sc
            if hasOS and tol < max(r_sv, r_l1) <= 5e-3:
                # "to the integration accuracy": a residual above the fixed constant is accepted only if it is small and falls by 40 % or
                # more when the Green-function mesh is refined (NGFmax 4 -> 8) -- measured 1.3e-3 -> 8e-5 on the oblique 2D two-site cell;
                # a residual that does not shrink is a defect, not quadrature error
                from onsager import OnsagerCalc as _oc
                dref = _oc.VacancyMediated(d.crys, d.chem, d.sitelist, d.om0_jn, d.Nthermo, NGFmax=8)
                L0r, Lssr, Lsvr, L1r = L(dref, t); scr = np.abs(L0r).max()
                q_sv, q_l1 = np.abs(Lsvr + L0r).max() / scr, np.abs(L1r).max() / scr
                if (r_sv <= tol or q_sv <= 0.6 * r_sv) and (r_l1 <= tol or q_l1 <= 0.6 * r_l1):
                    tag = tag + ' (residual %.1e / %.1e falls to %.1e / %.1e on the refined mesh)' % (r_sv, r_l1, q_sv, q_l1)
                    r_sv, r_l1 = min(r_sv, tol), min(r_l1, tol)
            acc.check(r_sv <= tol, 'solute-vacancy-coefficient-is-minus-bare-vacancy', '%s: %.2e (tolerance %.0e)' % (tag, r_sv, tol), sig=(k, 'sv'))
            acc.check(r_l1 <= tol, 'vacancy-correction-vanishes', '%s: %.2e' % (tag, r_l1), sig=(k, 'l1'))
            lo = np.linalg.eigvalsh(0.5 * (Lss + Lss.T)).min(); hi = np.linalg.eigvalsh(0.5 * ((L0 - Lss) + (L0 - Lss).T)).min()
            acc.check(lo >= -max(tol, 1e-7) * sc and hi >= -max(tol, 1e-7) * sc, 'solute-coefficient-between-zero-and-bare-vacancy',
                      '%s: min eig Lss %.4g, min eig (L0vv-Lss) %.4g, scale %.3g' % (tag, lo, hi, sc), sig=(k, 'between'), signature='between|%s' % cid)
            # the caller converts units in place (the docstring says the results need multiplying by cv/kBT): the identities must survive
            for T in (L0, Lss, Lsv, L1): T *= 3.0
            L0b, Lssb, Lsvb, L1b = L(d, t)
            acc.check(np.abs(Lsvb + L0b).max() <= tol * sc and np.abs(L0b - L0 / 3.0).max() <= 1e-12 * sc, 'identities-survive-in-place-edits-of-earlier-results',
                      '%s: after scaling the returned arrays in place, L0vv changed by %.2e' % (tag, np.abs(L0b - L0 / 3.0).max() / sc), sig=(k, 'inplace'))
        if which == 'C08':
            t = data(d, rng)
            if k % 2 == 1 and len(t['eneT2']) >= 2:
                t['eneT2'] = t['eneT2'].copy(); t['eneT2'][0] -= 2.5       # exchange classes with rates an order of magnitude apart
            ref10 = None
            for s_ in (1e-3, 1., 1e3, 1e6, 1e8, 1e10, 1e12, 1e14, 1e15, 1e16):
                ts = dict(t, preT2=t['preT2'] * s_)
                try:
                    Ld = L(d, ts)
                except (np.linalg.LinAlgError, ArithmeticError) as ex:
                    acc.check(False, 'default-selection-finite-and-symmetric', '%s scale %g: %s: %s' % (tag, s_, type(ex).__name__, ex), sig=(k, s_, 'raise'),
                              signature='raise|%s|%s|%g' % (cid, type(ex).__name__, s_))
                    continue
                sc = max(np.abs(x).max() for x in Ld)
                for nm, T in zip(NAMES, Ld):
                    acc.check(np.all(np.isfinite(T)) and np.abs(T - T.T).max() <= 1e-6 * sc, 'default-selection-finite-and-symmetric', '%s scale %g %s' % (tag, s_, nm), sig=(k, s_, nm))
                if s_ <= 1e6:
                    try:
                        La, Lb = L(d, ts, large_om2=0), L(d, ts, large_om2=np.inf)
                    except (np.linalg.LinAlgError, ArithmeticError) as ex:
                        acc.check(False, 'large-rate-algorithm-agrees-with-standard-algorithm', '%s scale %g: %s: %s' % (tag, s_, type(ex).__name__, ex), sig=(k, s_, 'raise2'),
                                  signature='raise|%s|%s|%g' % (cid, type(ex).__name__, s_))
                        continue
                    worst = max(np.abs(a - b).max() for a, b in zip(La, Lb)) / sc
                    acc.check(worst <= 1e-7, 'large-rate-algorithm-agrees-with-standard-algorithm', '%s scale %g: %.2e' % (tag, s_, worst), sig=(k, s_, 'agree'), signature='agree|%s|%s' % (cid, 'below-1e-4' if worst < 1e-4 else 'above-1e-4'))
                # (that the default's choice of algorithm depends on rate ratios only is the degree-typing obligation
                #  `branch-condition-invariant` of VacancyMediated.Lij, level P: a numeric comparison of slowed-down data is dominated by
                #  roundoff amplified by the exchange ratio -- 1e-6 .. 1e-2 measured on the unchanged tree -- and was withdrawn)
                if s_ == 1e10: ref10 = Ld
                if s_ >= 1e12 and ref10 is not None:
                    for nm, T, R in zip(NAMES, Ld, ref10):
                        dev = np.abs(T - R).max() / max(np.abs(R).max(), 1e-300)
                        acc.check(dev <= 1e-3, 'approaches-the-large-rate-limit-smoothly', '%s: %s at scale %g differs from its 1e10 value by %.2e' % (tag, nm, s_, dev),
                                  sig=(k, s_, nm, 'smooth'), signature='smooth|%s|%s|%g' % (cid, nm, s_))
    acc.sample = {'calculator': cid, 'Nvstars': int(d.vkinetic.Nvstars), 'origin_states': int(len(d.OSindices)), 'datasets': nsets, 'property': which}
    return acc.result()


# ----------------------------------------------------------------------------------------- C13 / C14 / C15
def h5_roundtrip(d):
    import h5py
    from onsager import OnsagerCalc
    f = h5py.File('roundtrip-%d.h5' % id(d), 'w', driver='core', backing_store=False)
    d.addhdf5(f.create_group('calc'))
    return OnsagerCalc.VacancyMediated.loadhdf5(f['calc'])


def same_L(a, b, tol=0.):
    if tol == 0.: return all(np.array_equal(x, y) for x, y in zip(a, b))
    # one scale for the four tensors: a coefficient that vanishes identically (L1vv in the tracer limit) is roundoff of that scale
    sc = max(max(np.abs(x).max() for x in a), max(np.abs(y).max() for y in b), 1e-300)
    return all(np.allclose(x, y, rtol=tol, atol=tol * sc) for x, y in zip(a, b))


def w_history(arg):
    """C13 + C14: results depend only on the inputs -- not on the call history, cached values, in-place edits of earlier
    results, cache clears, range regeneration, or a save / reload; reloaded calculators reproduce results and tags exactly"""
    cid, tier, seed, which = arg
    from vf.common import repo_on_path; repo_on_path()
    import warnings; warnings.filterwarnings('ignore')
    acc = Acc(cid)
    rng = np.random.default_rng(seed * 73 + sum(map(ord, cid)))
    d, e = build(cid, tier, seed)
    npool = 3 if tier == 'quick' else 5
    pool = [data(d, rng, spread=(1.0, 2.0)[k % 2], tracer=(k == 1)) for k in range(npool)]
    # two inputs that share the vacancy data (same Green-function cache key) but differ in the solute data
    pool.append(dict(pool[0], eneSV=pool[0]['eneSV'] + 0.37, preS=pool[0]['preS'] * 1.3))
    fresh = []
    for t in pool:
        d0, _ = build(cid, tier, seed)
        fresh.append([x.copy() for x in L(d0, t)])
    sc = [max(np.abs(x).max() for x in F) for F in fresh]
    def check(dd, k, what, hist, tol=1e-11):
        got = L(dd, pool[k])
        ok = same_L(got, fresh[k], tol)
        acc.check(ok, what, 'input %d after %s: max deviation %.2e' % (k, ' ; '.join(hist[-5:]), max(np.abs(a - b).max() for a, b in zip(got, fresh[k])) / sc[k]), sig=(what, k, len(hist)))
        return got
    if which == 'C14':
        hist = []
        nsteps = 14 if tier == 'quick' else 60
        last = None
        for step in range(nsteps):
            op = rng.choice(['call', 'call', 'call', 'edit', 'clear', 'regen', 'reload']) if step > 1 else 'call'
            if op == 'call' or last is None:
                k = int(rng.integers(len(pool))); hist.append('Lij(%d)' % k)
                last = check(d, k, 'result-independent-of-call-history', hist)
            elif op == 'edit':
                for T in last: T *= rng.uniform(2, 5)
                T = last[0]; T[0, 0] += 1.0
                hist.append('edit-returned-arrays-in-place')
            elif op == 'clear':
                d.clearcache(); hist.append('clearcache()')
            elif op == 'regen':
                n0 = d.Nthermo
                try:
                    d.generate(n0 + 1); d.generatematrices(); d.generate(n0); d.generatematrices()
                    d.tags, d.tagdict, d.tagdicttype = d.generatetags()
                    hist.append('generate(%d);generate(%d)' % (n0 + 1, n0))
                except Exception as ex:
                    acc.check(False, 'range-regeneration-no-exception', '%s: %s' % (type(ex).__name__, str(ex)[:200])); break
            elif op == 'reload':
                d = h5_roundtrip(d); hist.append('save/reload')
        # A, B, A on inputs with different vacancy data and an edit in between (cache hit must return the value of the key)
        for (a, b) in ((0, 2), (2, 0)):
            d1, _ = build(cid, tier, seed)
            r1 = L(d1, pool[a]); L(d1, pool[b]); r3 = check(d1, a, 'cache-hit-returns-the-value-computed-for-that-input', ['Lij(%d)' % a, 'Lij(%d)' % b, 'Lij(%d)' % a])
            for T in r3: T += 7.0
            check(d1, a, 'caller-edits-of-a-cache-hit-do-not-reach-the-cache', ['Lij(%d)' % a, 'Lij(%d)' % b, 'Lij(%d)' % a, 'edit', 'Lij(%d)' % a])
        # a cache populated before saving must serve the same values after reloading (hits on the reloaded copy, then a miss, then hits again)
        try:
            d1, _ = build(cid, tier, seed)
            for a in (0, 2): L(d1, pool[a])
            d2 = h5_roundtrip(d1)
            hist = ['Lij(0)', 'Lij(2)', 'save/reload']
            for a in (0, 2, 1, 0):
                hist.append('Lij(%d)' % a); check(d2, a, 'cache-served-after-reload-equals-a-fresh-calculation', hist)
        except Exception as ex:
            acc.check(False, 'cache-served-after-reload-equals-a-fresh-calculation', '%s: %s' % (type(ex).__name__, str(ex)[:200]), sig=('reloadhit-exc',))
        # range regeneration to a DIFFERENT range: the regenerated calculator must equal one constructed at that range
        if sum(len(j) for j in d.om0_jn) <= 14:
            try:
                dA, _ = build(cid, tier, seed, Nthermo=1)
                L(dA, pool[0])                                   # populate caches first
                dA.generate(2); dA.generatematrices(); dA.tags, dA.tagdict, dA.tagdicttype = dA.generatetags()
                dB, _ = build(cid, tier, seed, Nthermo=2)
                t2 = data(dB, rng)
                gA, gB = L(dA, t2), L(dB, t2)
                sc2 = max(np.abs(x).max() for x in gB)
                acc.check(same_L(gA, gB, 1e-11), 'regenerated-range-equals-a-calculator-built-at-that-range',
                          'generate(2) after construction at Nthermo=1: max deviation %.2e' % (max(np.abs(a - b).max() for a, b in zip(gA, gB)) / sc2), sig=('regen2',))
                acc.check(dA.tags == dB.tags, 'regenerated-tags-equal-a-calculator-built-at-that-range', '', sig=('regen2tags',))
            except Exception as ex:
                acc.check(False, 'range-regeneration-no-exception', '%s: %s' % (type(ex).__name__, str(ex)[:200]), sig=('regen2exc',))
    if which == 'C13':
        for when in ('before-cache', 'after-cache'):
            d1, _ = build(cid, tier, seed)
            if when == 'after-cache':
                for k in (0, 1): L(d1, pool[k])
            try:
                d2 = h5_roundtrip(d1)
            except Exception as ex:
                acc.check(False, 'hdf5-round-trip-no-exception', '%s: %s: %s' % (when, type(ex).__name__, str(ex)[:200])); continue
            acc.check(d2.tags == d1.tags and d2.tagdict == d1.tagdict and d2.tagdicttype == d1.tagdicttype, 'reloaded-tags-identical', when, sig=('tags', when))
            for k in range(len(pool)):
                g1, g2 = L(d1, pool[k]), L(d2, pool[k])
                acc.check(same_L(g1, g2), 'reloaded-calculator-gives-identical-results', '%s input %d: max deviation %.2e' % (when, k, max(np.abs(a - b).max() for a, b in zip(g1, g2)) / sc[k]), sig=('L', when, k))
            for attr in ('GFvalues', 'Lvvvalues', 'etavvalues'):
                c1, c2 = getattr(d1, attr), getattr(d2, attr)
                ok = len(c1) == len(c2) and all(any(np.array_equal(np.hstack(k1), np.hstack(k2)) and np.array_equal(np.asarray(v1), np.asarray(v2)) for k2, v2 in c2.items()) for k1, v1 in c1.items())
                acc.check(ok, 'reloaded-cache-identical:' + attr, when, sig=('cache', attr, when))
            try:
                n = max(3, 2 * int(np.ceil(1.5 / min(np.linalg.norm(d2.crys.lattice, axis=0)))))
                if d2.dim == 3:
                    s1, s2 = d1.makesupercells(n * np.eye(3, dtype=int)), d2.makesupercells(n * np.eye(3, dtype=int))
                    acc.check(set(s1) == set(s2), 'reloaded-calculator-supports-every-public-method(makesupercells)', when, sig=('msc', when))
            except Exception as ex:
                acc.check(False, 'reloaded-calculator-supports-every-public-method(makesupercells)', '%s: %s: %s' % (when, type(ex).__name__, str(ex)[:150]), sig=('msc', when))
            # a second generation round trip and further use
            d3 = h5_roundtrip(d2)
            acc.check(same_L(L(d3, pool[-1]), L(d1, pool[-1])), 'second-generation-reload-identical', when, sig=('gen2', when))
        # the user's site list (any order of the Wyckoff sets, any order inside a set is the user's to choose) is part of what is saved
        if len(d.sitelist) >= 2:
            from onsager import OnsagerCalc
            c, chem = e['crys'], e['chem']
            user_sl = [list(w) for w in c.sitelist(chem)][::-1]
            dU = OnsagerCalc.VacancyMediated(c, chem, user_sl, c.jumpnetwork(chem, e['cutoff']), 1)
            tU = data(dU, rng); tU['eneV'] = np.linspace(0., 0.9, len(user_sl)); tU['eneS'] = np.linspace(0.4, -0.3, len(user_sl)); tU.update(dU.makeLIMBpreene(**tU))
            try:
                dU2 = h5_roundtrip(dU)
                acc.check([sorted(w) for w in dU2.sitelist] == [sorted(w) for w in dU.sitelist], 'reloaded-site-list-keeps-the-users-order-of-wyckoff-sets', '%r vs %r' % (dU2.sitelist, dU.sitelist), sig=('usl',))
                g1, g2 = L(dU, tU), L(dU2, tU)
                acc.check(same_L(g1, g2), 'reloaded-calculator-gives-identical-results(user-ordered site list)', 'max deviation %.2e' % (max(np.abs(a - b).max() for a, b in zip(g1, g2)) / max(np.abs(x).max() for x in g1)), sig=('Lusl',))
                acc.check(dU2.tags == dU.tags, 'reloaded-tags-identical(user-ordered site list)', '', sig=('tagusl',))
            except Exception as ex:
                acc.check(False, 'hdf5-round-trip-no-exception', 'user-ordered site list: %s: %s' % (type(ex).__name__, str(ex)[:200]))
    acc.sample = {'calculator': cid, 'inputs': len(pool), 'property': which}
    return acc.result()


def w_tags(arg):
    """C15: tags unique, name exactly one class; tags2preene reproduces exactly the supplied data; exact VERBOSE report"""
    cid, tier, seed, which = arg
    from vf.common import repo_on_path; repo_on_path()
    import warnings; warnings.filterwarnings('ignore')
    from onsager import OnsagerCalc
    acc = Acc(cid)
    rng = np.random.default_rng(seed * 79 + sum(map(ord, cid)))
    d, e = build(cid, tier, seed)
    di = OnsagerCalc.Interstitial(d.crys, d.chem, d.sitelist, d.om0_jn)
    try:
        dl = h5_roundtrip(d)       # tag input on a calculator restored from a file names the same classes
    except Exception as ex:
        dl = None; acc.check(False, 'reloaded-calculator-for-tag-input', '%s: %s' % (type(ex).__name__, str(ex)[:200]))
    for calc, kinds in ((di, ('states', 'transitions')), (d, d.__taglist__)) + (((dl, d.__taglist__),) if dl is not None else ()):
        if calc is dl:
            acc.check(dl.tags == d.tags and dl.tagdict == d.tagdict and dl.tagdicttype == d.tagdicttype, 'reloaded-tag-tables-identical', '', sig='reload')
        alltags = [t for k in kinds for cls in calc.tags[k] for t in cls]
        acc.check(len(alltags) == len(set(alltags)), 'tags-unique', type(calc).__name__, sig=('uniq', type(calc).__name__))
        ok = all(calc.tagdict[t] == i and calc.tagdicttype[t] == k for k in kinds for i, cls in enumerate(calc.tags[k]) for t in cls) and set(calc.tagdict) == set(alltags)
        acc.check(ok, 'tag-dictionary-names-exactly-the-class-that-lists-the-tag', type(calc).__name__, sig=('dict', type(calc).__name__))
        acc.check(all(len(cls) > 0 for k in kinds for cls in calc.tags[k]), 'every-class-has-a-tag', type(calc).__name__)
    # ---- what a tag NAMES: the positions written in the tag, decoded without the calculator, are the member's geometry
    import re
    DEFECT = re.compile(r'([isv]):((?:[+-]\d+\.\d+,?)+)')
    crys, chem = d.crys, d.chem; basis = crys.basis[chem]
    scale = max(np.linalg.norm(crys.lattice, axis=0))
    def decode(tag): return [(m.group(1), np.array([float(x) for x in m.group(2).rstrip(',').split(',')])) for m in DEFECT.finditer(tag)]
    def site_of(u):
        hits = []
        for s_, b in enumerate(basis):
            R = np.round(u - b)
            if np.abs(u - b - R).max() < 1.6e-3: hits.append((s_, R.astype(int)))
        return hits[0] if len(hits) == 1 else (None, None)
    def named(tag, kinds, want):
        # want: list of (site index, lattice vector or None for 'any, fixed by dx'), same length as kinds
        dec = decode(tag)
        if [k for k, u in dec] != list(kinds) or any(len(u) != crys.dim for k, u in dec): return False
        for (k, u), (s_, R) in zip(dec, want):
            s2, R2 = site_of(u)
            if s2 != s_ or (R is not None and not np.array_equal(R2, np.asarray(R))): return False
        return True
    def disp(tag, a, b):
        dec = decode(tag); return crys.lattice @ (dec[b][1] - dec[a][1])
    okI = all(named(t, 'i', [(s_, np.zeros(crys.dim, int))]) for sites, tl in zip(di.sitelist, di.tags['states']) for s_, t in zip(sites, tl))
    acc.check(okI, 'interstitial-state-tag-names-the-position-of-its-site', '', sig='nameI')
    okT = all(named(t, 'ii', [(i, np.zeros(crys.dim, int)), (j, None)]) and np.abs(disp(t, 0, 1) - dx).max() < 4e-3 * scale
              for jl, tl in zip(di.jumpnetwork, di.tags['transitions']) for ((i, j), dx), t in zip(jl, tl))
    bad = [t for jl, tl in zip(di.jumpnetwork, di.tags['transitions']) for ((i, j), dx), t in zip(jl, tl) if not (named(t, 'ii', [(i, np.zeros(crys.dim, int)), (j, None)]) and np.abs(disp(t, 0, 1) - dx).max() < 4e-3 * scale)]
    acc.check(okT, 'interstitial-transition-tag-names-start-site-and-end-point-of-its-jump', 'e.g. %s' % bad[:2], sig='nameT')
    Z = np.zeros(crys.dim, int)
    for kind, ch in (('vacancy', 'v'), ('solute', 's')):
        acc.check(all(named(t, ch, [(s_, Z)]) for sites, tl in zip(d.sitelist, d.tags[kind]) for s_, t in zip(sites, tl)), '%s-tag-names-the-position-of-its-site' % kind, '', sig='name' + ch)
    acc.check(all(named(t, 'sv', [(PS.i, Z), (PS.j, PS.R)]) for star, tl in zip(d.thermo.stars, d.tags['solute-vacancy']) for PS, t in zip([d.thermo.states[x] for x in star], tl)),
              'solute-vacancy-tag-names-the-complex-of-its-state', '', sig='namesv')
    acc.check(all(named(t, 'vv', [(i, Z), (j, None)]) and np.abs(disp(t, 0, 1) - dx).max() < 4e-3 * scale for jl, tl in zip(d.om0_jn, d.tags['omega0']) for ((i, j), dx), t in zip(jl, tl)),
              'omega0-tag-names-start-site-and-end-point-of-its-jump', '', sig='name0')
    ks = d.kinetic.states
    acc.check(all(named(t, 'svv', [(ks[i].i, Z), (ks[i].j, ks[i].R), (ks[j].j, ks[j].R)]) and ks[i].i == ks[j].i and np.abs(disp(t, 1, 2) - dx).max() < 4e-3 * scale
                  for jl, tl in zip(d.om1_jn, d.tags['omega1']) for ((i, j), dx), t in zip(jl, tl)), 'omega1-tag-names-the-solute-and-both-vacancy-positions-of-its-jump', '', sig='name1')
    acc.check(all(named(t, 'svsv', [(ks[i].i, Z), (ks[i].j, ks[i].R), (ks[j].i, Z), (ks[j].j, ks[j].R)]) for jl, tl in zip(d.om2_jn, d.tags['omega2']) for ((i, j), dx), t in zip(jl, tl)),
              'omega2-tag-names-both-complexes-of-its-exchange', '', sig='name2')
    sizes = {'vacancy': len(d.sitelist), 'solute': len(d.sitelist), 'solute-vacancy': d.thermo.Nstars, 'omega0': len(d.om0_jn), 'omega1': len(d.om1_jn), 'omega2': len(d.om2_jn)}
    names = {'vacancy': ('preV', 'eneV'), 'solute': ('preS', 'eneS'), 'solute-vacancy': ('preSV', 'eneSV'), 'omega0': ('preT0', 'eneT0'), 'omega1': ('preT1', 'eneT1'), 'omega2': ('preT2', 'eneT2')}
    acc.check(all(len(d.tags[k]) == n for k, n in sizes.items()), 'one-tag-class-per-symmetry-class', str({k: len(d.tags[k]) for k in sizes}), sig='sizes')
    classes = [(k, i) for k in d.__taglist__ for i in range(len(d.tags[k]))]
    ntr = 12 if tier == 'quick' else 60
    for trial in range(ntr):
        mode = ('all-first', 'random-subset', 'duplicates-and-bogus', 'balanced-duplicates-and-omissions', 'vacancy-solute-distinct')[trial % 5]
        chosen = {}
        if mode == 'all-first': sel = classes
        elif mode == 'vacancy-solute-distinct': sel = [c for c in classes if c[0] in ('vacancy', 'solute')]
        else: sel = [c for c in classes if rng.random() < 0.6]
        user = {}; given = {}
        for (k, i) in sel:
            tag = d.tags[k][i][int(rng.integers(len(d.tags[k][i])))] if mode != 'all-first' else d.tags[k][i][0]
            val = (float(rng.uniform(0.5, 2)), float(rng.uniform(-1, 1)))
            user[tag] = val; given[(k, i)] = (val, [tag])
        dups = []
        if mode in ('duplicates-and-bogus', 'balanced-duplicates-and-omissions'):
            multi = [(k, i) for (k, i) in given if len(d.tags[k][i]) > 1]
            for (k, i) in multi[:2]:
                extra = [t for t in d.tags[k][i] if t not in user][:1]
                for t in extra:
                    user[t] = given[(k, i)][0]; given[(k, i)][1].append(t)
            dups = [(k, i) for (k, i), (v, tl) in given.items() if len(tl) > 1]
            if mode == 'balanced-duplicates-and-omissions':
                # leave out exactly as many classes as there are surplus tags
                surplus = sum(len(tl) - 1 for v, tl in given.values())
                for (k, i) in [c for c in list(given) if len(given[c][1]) == 1][:surplus]:
                    for t in given[(k, i)][1]: del user[t]
                    del given[(k, i)]
        bogus = []
        if mode == 'duplicates-and-bogus':
            bogus = ['no-such-tag-%d' % trial, 'v:+9.999,+9.999,+9.999']
            for b in bogus: user[b] = (1.0, 0.0)
        keys = list(user); rng.shuffle(keys); user = {k_: user[k_] for k_ in keys}
        try:
            thermo, missing, duplicate, bad = d.tags2preene(user, VERBOSE=True)
            thermo2 = d.tags2preene(user)
        except Exception as ex:
            acc.check(False, 'tags2preene-no-exception', '%s: %s: %s' % (mode, type(ex).__name__, str(ex)[:200])); continue
        limb = None
        ok = True; detail = ''
        for (k, i) in classes:
            pn, en = names[k]
            if (k, i) in given and len(given[(k, i)][1]) == 1:
                if (thermo[pn][i], thermo[en][i]) != given[(k, i)][0]: ok = False; detail = '%s[%d] = %r, supplied %r' % (k, i, (thermo[pn][i], thermo[en][i]), given[(k, i)][0])
            elif (k, i) not in given and k not in ('omega1', 'omega2'):
                if (thermo[pn][i], thermo[en][i]) != (1.0, 0.0): ok = False; detail = '%s[%d] default' % (k, i)
        acc.check(ok, 'supplied-data-reproduced-exactly-in-the-parameter-set', '%s: %s' % (mode, detail), sig=(mode, 'data', trial))
        # classes of omega1/omega2 without data take the LIMB back-fill of the other data
        lim = d.makeLIMBpreene(**{k_: thermo[k_] for k_ in ('preS', 'eneS', 'preSV', 'eneSV', 'preT0', 'eneT0')})
        ok = all(((k, i) in given) or (thermo[names[k][0]][i] == lim[names[k][0]][i] and thermo[names[k][1]][i] == lim[names[k][1]][i]) for (k, i) in classes if k in ('omega1', 'omega2'))
        acc.check(ok, 'missing-transition-data-back-filled-by-the-default', mode, sig=(mode, 'limb', trial))
        acc.check(all(np.array_equal(thermo[k_], thermo2[k_]) for k_ in thermo2), 'verbose-flag-does-not-change-the-data', mode)
        if dl is not None and trial < 5:
            try:
                thermo3 = dl.tags2preene(user)
                acc.check(set(thermo3) == set(thermo2) and all(np.array_equal(thermo3[k_], thermo2[k_]) for k_ in thermo2), 'reloaded-calculator-reads-the-same-tag-input', mode, sig=(mode, 'reload'))
            except Exception as ex:
                acc.check(False, 'reloaded-calculator-reads-the-same-tag-input', '%s: %s: %s' % (mode, type(ex).__name__, str(ex)[:200]))
        want_missing = {k: [d.tags[k][i] for (kk, i) in classes if kk == k and (kk, i) not in given] for k in d.__taglist__}
        want_missing = {k: v for k, v in want_missing.items() if v}
        got_missing = {k: sorted(map(tuple, v)) for k, v in missing.items()}
        acc.check(got_missing == {k: sorted(map(tuple, v)) for k, v in want_missing.items()}, 'verbose-report-lists-exactly-the-classes-without-data',
                  '%s: reported %d classes, expected %d' % (mode, sum(len(v) for v in missing.values()), sum(len(v) for v in want_missing.values())), sig=(mode, 'missing', trial))
        acc.check(sorted(sorted(x) for x in duplicate) == sorted(sorted(given[c][1]) for c in given if len(given[c][1]) > 1), 'verbose-report-lists-exactly-the-classes-given-more-than-once', mode, sig=(mode, 'dup', trial))
        acc.check(sorted(bad) == sorted(bogus), 'verbose-report-lists-exactly-the-unrecognised-tags', mode, sig=(mode, 'bad', trial))
    acc.sample = {'calculator': cid, 'classes': len(classes), 'trials': ntr}
    return acc.result()
