"""C35 bounded stand-in (level B): the REAL numba-compiled sampler against the reference sampler on catalogue
samplers, over exhaustive / seeded histories of start, E, deltaE_trial, update, transitions, MCmoves, copy."""
import random
import numpy as np


def coupled(mc, j, L):
    """coupling relation R between reference and compiled state -> None or (clause, detail)"""
    if list(map(int, mc.occ)) != list(map(int, j.occ)): return ('same-occupation', '%r vs %r' % (list(mc.occ), list(j.occ)))
    if list(map(int, mc.clustercount)) != list(map(int, j.clustercount)): return ('same-cluster-counts', 'counts differ')
    if set(int(x) for x in j.occupied_set[:j.Nocc]) != set(mc.occupied_set) or j.Nocc != len(mc.occupied_set):
        return ('same-occupied-set', '%r vs %r' % (sorted(j.occupied_set[:j.Nocc]), sorted(mc.occupied_set)))
    if set(int(x) for x in j.unoccupied_set[:j.Nunocc]) != set(mc.unoccupied_set) or j.Nunocc != len(mc.unoccupied_set):
        return ('same-unoccupied-set', '')
    for k in range(j.Nocc):
        if j.index[j.occupied_set[k]] != k: return ('index-inverts-occupied-set', 'slot %d' % k)
    for k in range(j.Nunocc):
        if j.index[j.unoccupied_set[k]] != k: return ('index-inverts-unoccupied-set', 'slot %d' % k)
    e1, e2 = mc.E(), j.E()
    if abs(e1 - e2) > 1e-9 * (1 + abs(e1)): return ('same-energy', '%r vs %r' % (e1, e2))
    return None


def transitions_agree(mc, j):
    if mc.jumps is None: return None
    ijl, Ql, dxl = mc.transitions()
    jij, jQ, jdx = j.transitions()
    ref = {}
    allowed_idx = []
    n_ref = 0
    # reference lists only allowed jumps, in jump order; the compiled one lists every jump (inf = forbidden)
    k = 0
    for n in range(len(jij)):
        i, f = int(jij[n][0]), int(jij[n][1])
        is_allowed = not np.isinf(jQ[n])
        expect_allowed = (mc.vacancy >= 0) or (mc.occ[i] == 1 and mc.occ[f] == 0)
        if mc.vacancy >= 0: expect_allowed = True      # reference reports every vacancy jump
        if is_allowed != expect_allowed and mc.vacancy < 0:
            return ('forbidden-transitions-marked-infinite', 'jump %d (%d->%d) occ=%d,%d Q=%r' % (n, i, f, mc.occ[i], mc.occ[f], jQ[n]))
        if mc.vacancy >= 0:
            # with a vacancy the compiled sampler allows the jump when the initial site is the vacancy or (1 -> 0)
            pass
        if expect_allowed and mc.vacancy < 0:
            if k >= len(ijl): return ('same-transitions', 'reference lists fewer transitions')
            if tuple(ijl[k]) != (i, f) or abs(Ql[k] - jQ[n]) > 1e-9 * (1 + abs(Ql[k])) or not np.allclose(dxl[k], jdx[n]):
                return ('same-barriers', 'jump %d: ref %r Q=%r, jit Q=%r' % (n, ijl[k], Ql[k], jQ[n]))
            k += 1
    if mc.vacancy >= 0:
        if len(ijl) != len(jij): return ('same-transitions', 'vacancy: %d vs %d' % (len(ijl), len(jij)))
        for n in range(len(jij)):
            if tuple(ijl[n]) != (int(jij[n][0]), int(jij[n][1])): return ('same-transitions', 'order')
            occ_i, occ_f = mc.occ[jij[n][0]], mc.occ[jij[n][1]]
            if np.isinf(jQ[n]):
                # compiled: forbidden unless initial is the vacancy or (1,0); reference with vacancy lists all
                if occ_i == -1 or (occ_i == 1 and occ_f == 0): return ('forbidden-transitions-marked-infinite', 'jump %d wrongly forbidden' % n)
            elif abs(Ql[n] - jQ[n]) > 1e-9 * (1 + abs(Ql[n])):
                return ('same-barriers', 'vacancy jump %d: ref Q=%r jit Q=%r' % (n, Ql[n], jQ[n]))
    elif k != len(ijl):
        return ('same-transitions', 'reference lists %d transitions, compiled allows %d' % (len(ijl), k))
    return None


def run_case(arg):
    idx, tier, seed = arg
    from vf.common import repo_on_path
    repo_on_path()
    import warnings; warnings.filterwarnings('ignore')
    from vf.rtc import samplers
    from onsager import cluster
    label, build = samplers.cases(tier)[idx]
    d = build(seed)
    rng = random.Random(seed * 104729 + idx); nprng = np.random.default_rng(seed * 17 + idx)
    mc = samplers.make_sampler(d)
    n = 0; sigs = set(); sample = None; hist = []
    def fail(clause, detail):
        return n, len(sigs), sample, {'case': label, 'clause': clause, 'detail': str(detail)[:400], 'history': hist[-6:]}
    try:
        j = cluster.MonteCarloSampler_jit(**cluster.MonteCarloSampler_param(mc))     # parameters of a not-yet-started sampler
    except Exception as ex:
        return fail('compiled-sampler-constructs', '%s: %s' % (type(ex).__name__, ex))
    L = d['sup'].Nmobile * d['sup'].size
    occs = list(samplers.occupations(d, nprng, limit=24 if tier == 'quick' else 128))
    try:
        for occ in occs:
            mc.start(occ.copy()); j.start(occ.copy()); hist.append('start(%s)' % ''.join(map(str, occ)).replace('-1', 'v')); n += 1
            r = coupled(mc, j, L) or transitions_agree(mc, j)
            if r: return fail(*r)
            sigs.add(tuple(occ))
            # param of a started sampler gives an equal compiled sampler
            j2 = cluster.MonteCarloSampler_jit(**cluster.MonteCarloSampler_param(mc))
            r = coupled(mc, j2, L)
            if r: return fail('param-of-started-sampler:' + r[0], r[1])
            occl, unoccl = sorted(mc.occupied_set), sorted(mc.unoccupied_set)
            pairs = [(o, u) for o in unoccl for u in occl]
            for (o, u) in rng.sample(pairs, min(len(pairs), 6 if tier == 'quick' else 24)):
                dr, dj = mc.deltaE_trial((o,), (u,)), j.deltaE_trial(o, u)
                if abs(dr - dj) > 1e-9 * (1 + abs(dr)): return fail('same-trial-energy-change', 'occupy %d vacate %d: ref %r compiled %r, occ=%s' % (o, u, dr, dj, list(mc.occ)))
                jc = j.copy()
                mc.update((o,), (u,)); jc.update(o, u); hist.append('update(%d,%d)' % (o, u)); n += 1
                r = coupled(mc, jc, L) or transitions_agree(mc, jc)
                if r: return fail(*r)
                if coupled_changed(j, occ): return fail('copy-is-independent', 'updating a copy changed the original')
                mc.update((u,), (o,)); hist.pop()
                sigs.add((tuple(occ), o, u))
            # batched Metropolis moves == move by move, and == the reference driven by the same decisions
            if j.Nocc > 0 and j.Nunocc > 0:
                nb = 6
                oc = nprng.integers(0, j.Nunocc, size=nb); uc = nprng.integers(0, j.Nocc, size=nb)
                kT = nprng.exponential(1.0, size=nb)
                jb, js = j.copy(), j.copy()
                jb.MCmoves(oc, uc, kT)
                mref = samplers.make_sampler(d); mref.start(np.array(occ).copy())
                for k in range(nb):
                    o_t, u_t = int(js.unoccupied_set[oc[k]]), int(js.occupied_set[uc[k]])
                    dE = mref.deltaE_trial((o_t,), (u_t,))
                    js.MCmoves(oc[k:k + 1], uc[k:k + 1], kT[k:k + 1])
                    if dE < kT[k]: mref.update((o_t,), (u_t,))
                hist.append('MCmoves(batch of %d)' % nb); n += 1
                r = coupled(mref, jb, L)
                if r: return fail('batch-equals-metropolis-move-by-move:' + r[0], r[1])
                r = coupled(mref, js, L)
                if r: return fail('single-moves-equal-metropolis:' + r[0], r[1])
                hist.pop()
            if sample is None: sample = {'case': label, 'history': list(hist[-2:]), 'checked': 'coupling relation, transitions, trial dE, update, copy, MCmoves'}
    except Exception as ex:
        return fail('no-unspecified-exception', '%s: %s' % (type(ex).__name__, str(ex)[:300]))
    return n, len(sigs), sample, None


def coupled_changed(j, occ):
    return list(map(int, j.occ)) != list(map(int, occ))
