"""Sidecar contract (E1) for onsager/crystal.py::maptranslation, the search every symmetry operation of a crystal goes through
(Crystal.gengroup: C18; and through the group C19, C20, C21): whatever translation and atom mapping it returns, the mapping has one
entry per atom of every species and each entry names an atom of the old list that matches the new atom under THAT translation.

Positions and spins are arrays of floats; the contract models every atom by an integer identifier and the two floating-point tests
    np.allclose(sp0, sp1, atol=threshold)                       (same spin)
    np.allclose(inhalf(uj - rua - trans), 0, atol=threshold)     (same position modulo lattice vectors after the translation)
by uninterpreted predicates SPIN(old atom, new atom) and MATCH(old atom, new atom, translation): what is proved holds for every
meaning of the two tests (in particular for the floating-point one).  A candidate translation is identified by the old atom `ub` it
is built from.  Under contract is the function from `ru0 = newpos[atomindex][0]` on; the dropped prefix is argument type checking
(raises only), the default spin lists and the choice of the species `atomindex` with the fewest atoms (a ghost parameter here: any
species index in range -- the choice affects speed only)."""
import z3
from vf.spec import *
from vf.pyvc.engine import Contract, zint
import ast as _ast


def _key(text): return _ast.unparse(_ast.parse(text, mode='eval').body)


MATCH = z3.Function('MATCH', z3.IntSort(), z3.IntSort(), z3.IntSort(), z3.BoolSort())
SPIN = z3.Function('SPIN', z3.IntSort(), z3.IntSort(), z3.BoolSort())


class MapTranslation(Contract):
    relpath, qualname = 'onsager/crystal.py', 'maptranslation'
    self_shape = None
    params = {'oldpos': 'seq2_int', 'newpos': 'seq2_int', 'oldspins': 'seq2_int', 'newspins': 'seq2_int', 'threshold': 'real'}
    ghost_params = {'atomindex': 'int'}
    modifies = ()
    body_from = 'ru0 = newpos[atomindex][0]'
    local_shapes = {'indexmap': 'seq2_int'}
    min_obligations = 10
    abstractions = {
        _key('inhalf(ub - ru0)'): ('expr', lambda s: s._ps.env['ub']),                 # the candidate translation is identified by the atom it is built from
        _key('np.allclose(sp0, sp1, atol=threshold)'): ('expr', lambda s: SPIN(zint(s._ps.env['sp0']), zint(s._ps.env['sp1']))),
        _key('np.allclose(inhalf(uj - rua - trans), 0, atol=threshold)'): ('expr', lambda s: MATCH(zint(s._ps.env['uj']), zint(s._ps.env['rua']), zint(s._ps.env['trans']))),
    }
    ABSTRACTED = ['statements before `ru0 = newpos[atomindex][0]` dropped (type checks that only raise, default spin lists, choice of the shortest species -> ghost parameter atomindex)',
                  '`inhalf(ub - ru0)` -> the identifier of the old atom ub (one candidate translation per atom of the chosen species)',
                  '`np.allclose(sp0, sp1, atol=threshold)` -> uninterpreted predicate SPIN(old spin id, new spin id)',
                  '`np.allclose(inhalf(uj - rua - trans), 0, atol=threshold)` -> uninterpreted predicate MATCH(old atom, new atom, translation)']

    def pre(self, s):
        v = s.v
        K = v['oldpos'].len
        return And(K >= 1, v['newpos'].len == K, v['oldspins'].len == K, v['newspins'].len == K, v['atomindex'] >= 0, v['atomindex'] < K,
                   lambda: forall(0, K, lambda c: And(v['oldpos'].lenof(c) >= 1, v['newpos'].lenof(c) == v['oldpos'].lenof(c),
                                                      v['oldspins'].lenof(c) == v['oldpos'].lenof(c), v['newspins'].lenof(c) == v['oldpos'].lenof(c)), 'mt_c'))

    @staticmethod
    def row_ok(v, c, row, n, trans):
        """the first n entries of `row` name matching old atoms of species c for the first n new atoms"""
        return forall(0, n, lambda i: And(row[i] >= 0, row[i] < v['oldpos'].lenof(c),
                                          lambda: MATCH(v['oldpos'].at(c, row[i]), v['newpos'].at(c, i), trans),
                                          lambda: SPIN(v['oldspins'].at(c, row[i]), v['newspins'].at(c, i))), 'mt_row')

    loop_defines = {3: {'foundmap': 'bool', 'trans': 'int', 'indexmap': 'seq2_int'}}

    def inv_candidates(cur, k, old):
        # a candidate that maps everything leaves the loop at once: at the loop head nothing has been found
        if 'foundmap' not in cur.v: return {'nothing-found-so-far': True}
        return {'nothing-found-so-far': Implies(k >= 1, Not(cur.v['foundmap']))}

    def inv_species(cur, k, old):
        v = old.v; im = cur.v['indexmap']; trans = cur.v['trans']
        return {'rows-so-far': Implies(cur.v['foundmap'], And(im.len == k, lambda: forall(0, k, lambda c: And(im.lenof(c) == v['oldpos'].lenof(c),
                                        lambda: MapTranslation.row_ok(v, c, im.row(c), v['oldpos'].lenof(c), trans)), 'mt_rs')))}

    def inv_atoms(cur, k, old):
        ml = cur.v['maplist']
        # maplist grows by at most one per new atom; when it has kept pace, entry i belongs to new atom i
        return {'at-most-one-entry-per-atom': And(ml.len >= 0, ml.len <= k),
                'aligned-while-complete': Implies(ml.len == k, lambda: forall(0, k, lambda i: And(ml[i] >= 0, ml[i] < cur.v['atomlist0'].len,
                                        lambda: MATCH(cur.v['atomlist0'][ml[i]], cur.v['atomlist1'][i], cur.v['trans']),
                                        lambda: SPIN(cur.v['spinlist0'][ml[i]], cur.v['spinlist1'][i])), 'mt_al'))}

    def inv_search(cur, k, old, entry):
        # the search appends only on the iteration it leaves through `break`
        return {'list-unchanged-while-searching': seq_eq(cur.v['maplist'], entry.v['maplist'])}

    loops = {3: inv_candidates, 4: inv_species, 5: inv_atoms, 6: inv_search}

    def post(self, old, new, result):
        trans, im = result
        if trans is None: return {'no-answer-is-a-pair-of-None': im is None}
        v = old.v
        return {'translation-is-a-candidate': exists(0, v['oldpos'].lenof(v['atomindex']), lambda a: trans == v['oldpos'].at(v['atomindex'], a), 'mt_tc'),
                'one-row-per-species': im.len == v['oldpos'].len,
                'every-new-atom-is-mapped-onto-a-matching-old-atom-under-the-returned-translation':
                    forall(0, v['oldpos'].len, lambda c: And(im.lenof(c) == v['oldpos'].lenof(c), lambda: MapTranslation.row_ok(v, c, im.row(c), v['oldpos'].lenof(c), trans)), 'mt_post')}
