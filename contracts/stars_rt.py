"""Run-time contracts (level B) for onsager/crystalStars.py: C24 (star sets), C25 (vector stars), C26 (omega1/omega2
jump networks).  Spec functions: BFS over jumps for reachable pair states, brute-force orbits under the space group,
character formula for the number of vector stars, direct assembly of state-space matrices."""
import itertools
import numpy as np
from vf.rtc.runner import Acc


def bfs_states(crys, chem, jn, N, origin=False):
    from onsager import crystalStars as stars
    PS = stars.PairState
    jl = [PS.fromcrys(crys, chem, ij, dx) for lst in jn for ij, dx in lst]
    cur = set(jl) if N > 0 else set(); allst = set(cur)
    for _ in range(N - 1):
        nxt = set()
        for s in cur:
            for j in jl:
                if s.j == j.i:
                    t = s + j
                    if not t.iszero(): nxt.add(t)
        allst |= nxt; cur = nxt
    if origin:
        for i in range(len(crys.basis[chem])): allst.add(PS.zero(i, crys.dim))
    return allst, jl


def orbit(crys, chem, s): return frozenset(s.g(crys, chem, g) for g in crys.G)


def starset_contract(acc, ss, crys, chem, spec, tag):
    sig = (tag,)
    acc.check(len(ss.states) == ss.Nstates == len(set(ss.states)), 'states-listed-once', tag, sig=sig + ('once',))
    acc.check(set(ss.states) == spec, 'states-are-exactly-the-reachable-nonzero-states',
              '%s: %d states, spec %d, extra %d missing %d' % (tag, len(ss.states), len(spec), len(set(ss.states) - spec), len(spec - set(ss.states))), sig=sig + ('bfs',))
    seen = set(); ok = True
    for st in ss.stars:
        if not st: continue
        members = frozenset(ss.states[i] for i in st)
        if members != orbit(crys, chem, ss.states[st[0]]): ok = False
        if seen & members: ok = False
        seen |= members
    acc.check(ok and seen == set(ss.states) and ss.Nstars == len(ss.stars), 'stars-partition-states-into-complete-orbits', tag, sig=sig + ('orbits',))
    ok = all(ss.stateindex(ss.states[i]) == i and ss.starindex(ss.states[i]) == si and ss.index[i] == si and (ss.states[i] in ss)
             for si, st in enumerate(ss.stars) for i in st)
    acc.check(ok and len(ss.index) == ss.Nstates, 'index-lookups-consistent', tag, sig=sig + ('index',))


def snapshot(ss): return (tuple(ss.states), tuple(tuple(s) for s in ss.stars), ss.Nstates, ss.Nstars, ss.Nshells, tuple(ss.index), frozenset(ss.indexdict.items()), tuple(ss.jumplist))


def w_starset(arg):
    idx, tier, seed = arg
    from vf.common import repo_on_path; repo_on_path()
    import warnings; warnings.filterwarnings('ignore')
    from onsager import crystalStars as stars
    from vf.rtc import catalogue
    cid, f = catalogue.builders(tier, seed)[idx]
    e = f(); c, chem = e['crys'], e['chem']; acc = Acc(cid)
    jn = c.jumpnetwork(chem, e['cutoff'])
    njumps = sum(len(j) for j in jn)
    Nmax = 2 if (tier == 'quick' or njumps > 14) else 3
    sets = {}
    for N in range(1, Nmax + 1):
        for origin in (False, True):
            ss = stars.StarSet(jn, c, chem, N, originstates=origin)
            spec, _ = bfs_states(c, chem, jn, N, origin)
            starset_contract(acc, ss, c, chem, spec, 'N=%d origin=%s' % (N, origin))
            sets[(N, origin)] = ss
    # lattice form of the jump network gives the same star set
    try:
        ssl = stars.StarSet(c.jumpnetwork2lattice(chem, jn), c, chem, 1, lattice=True)
        acc.check(set(ssl.states) == set(sets[(1, False)].states) and all(np.allclose(a.dx, sets[(1, False)].states[sets[(1, False)].stateindex(a)].dx) for a in ssl.states),
                  'lattice-form-gives-same-states-and-displacements', '', sig=('latt',))
    except Exception as ex:
        acc.check(False, 'lattice-form-gives-same-states-and-displacements', '%s: %s' % (type(ex).__name__, ex))
    # addition
    pairs = [(1, 1), (1, 2), (2, 1)] if Nmax >= 3 else [(1, 1)]
    if Nmax == 2: pairs = [(1, 1)]
    for (n1, n2) in pairs + ([(1, 2), (2, 1)] if Nmax == 2 and njumps <= 14 else []):
        a, b = stars.StarSet(jn, c, chem, n1), stars.StarSet(jn, c, chem, n2)
        sa, sb = snapshot(a), snapshot(b)
        s3 = a + b
        spec, _ = bfs_states(c, chem, jn, n1 + n2)
        starset_contract(acc, s3, c, chem, spec, 'sum %d+%d' % (n1, n2))
        acc.check(snapshot(a) == sa and snapshot(b) == sb, 'addition-leaves-operands-unchanged', '%d+%d' % (n1, n2), sig=('opnd', n1, n2))
        s4 = a + b      # operands re-used
        acc.check(set(s4.states) == spec and len(s4.states) == len(spec), 'addition-with-reused-operands', '%d+%d' % (n1, n2), sig=('reuse', n1, n2))
        a += b
        starset_contract(acc, a, c, chem, spec, 'iadd %d+=%d' % (n1, n2))
    # difference set
    S1 = sets[(1, False)]; S2 = sets[(Nmax, False)] if Nmax <= 2 else sets[(2, False)]
    for (A, B, tag) in ((S1, S1, '1,1'), (S1, S2, '1,2'), (S2, S1, '2,1')):
        d = stars.StarSet(jn, c, chem); d.diffgenerate(A, B)
        want = set()
        for s1 in A.states:
            for s2 in B.states:
                if s1.i == s2.i: want.add(s2 ^ s1)
        acc.check(want <= set(d.states), 'difference-set-contains-every-endpoint-difference', '%s: %d missing' % (tag, len(want - set(d.states))), sig=('diff', tag))
        acc.check(set(d.states) == want and len(d.states) == len(set(d.states)), 'difference-set-is-exactly-the-endpoint-differences', tag, sig=('diffx', tag))
        seen = set(); ok = True
        for st in d.stars:
            members = frozenset(d.states[i] for i in st)
            if st and members != orbit(c, chem, d.states[st[0]]): ok = False
            seen |= members
        acc.check(ok and seen == set(d.states), 'difference-stars-are-orbits', tag, sig=('difforb', tag))
    acc.sample = {'crystal': cid, 'jumps': njumps, 'ranges': list(range(1, Nmax + 1)), 'checked': 'BFS states, orbit partition, indices, addition, difference sets'}
    return acc.result()


# ----------------------------------------------------------------------------------------- C25
def w_vstars(arg):
    idx, tier, seed = arg
    from vf.common import repo_on_path; repo_on_path()
    import warnings; warnings.filterwarnings('ignore')
    from onsager import crystalStars as stars
    from vf.rtc import catalogue
    cid, f = catalogue.builders(tier, seed)[idx]
    e = f(); c, chem = e['crys'], e['chem']; acc = Acc(cid)
    jn = c.jumpnetwork(chem, e['cutoff'])
    njumps = sum(len(j) for j in jn)
    rng = np.random.default_rng(seed * 29 + idx)
    for N in ((1, 2) if njumps <= 24 else (1,)):
        ss = stars.StarSet(jn, c, chem, N, originstates=True)
        vs = stars.VectorStarSet(ss)
        tag = 'N=%d' % N
        # fields: vector star a -> dict state index -> vector
        fields = [dict(zip(vs.vecpos[a], vs.vecvec[a])) for a in range(vs.Nvstars)]
        gram = np.array([[sum(fa[k] @ fb[k] for k in fa if k in fb) for fb in fields] for fa in fields]) if fields else np.zeros((0, 0))
        acc.check(np.allclose(gram, np.eye(vs.Nvstars), atol=1e-10), 'vector-stars-orthonormal', tag, sig=(tag, 'gram'))
        # the result is a function of the star set alone: other queries on the same crystal object in between (site vector bases,
        # as an Interstitial calculator built on the same crystal makes them) leave a regenerated set identical
        try:
            fvb = [c.FullVectorBasis(chem) for _ in range(2)]
            vs2 = stars.VectorStarSet(ss)
            acc.check(vs2.Nvstars == vs.Nvstars and all(a == b for a, b in zip(vs2.vecpos, vs.vecpos)) and
                      all(np.array_equal(x, y) for a, b in zip(vs2.vecvec, vs.vecvec) for x, y in zip(a, b)),
                      'vector-stars-independent-of-earlier-queries-on-the-crystal', tag, sig=(tag, 'hist'))
            acc.check(all(np.array_equal(x, y) for x, y in zip(fvb[0][0], fvb[1][0])) and all(np.array_equal(x, y) for x, y in zip(fvb[0][1], fvb[1][1])),
                      'site-vector-basis-repeatable', tag, sig=(tag, 'fvbrep'))
        except Exception as ex:
            acc.check(False, 'vector-stars-independent-of-earlier-queries-on-the-crystal', '%s: %s' % (type(ex).__name__, str(ex)[:200]), sig=(tag, 'hist'))
        expect = 0
        for st in ss.stars:
            s0 = ss.states[st[0]]
            stab = [g for g in c.G if s0.g(c, chem, g) == s0]
            expect += int(round(sum(np.trace(g.cartrot) for g in stab) / len(stab)))
        acc.check(vs.Nvstars == expect, 'number-of-vector-stars-is-the-total-invariant-dimension', '%s: %d vector stars, character formula %d' % (tag, vs.Nvstars, expect), sig=(tag, 'count'))
        ok = True
        for fa in fields:
            for g in c.G:
                for k, v in fa.items():
                    kk = ss.stateindex(ss.states[k].g(c, chem, g))
                    if kk not in fa or not np.allclose(fa[kk], g.cartrot @ v, atol=1e-8): ok = False
        acc.check(ok, 'vector-stars-are-equivariant-fields', tag, sig=(tag, 'equiv'))
        ok = all(len(set(ss.index[k] for k in pos)) == 1 and sorted(pos) == sorted(ss.stars[ss.index[pos[0]]]) for pos in vs.vecpos)
        acc.check(ok, 'each-vector-star-lives-on-one-complete-star', tag, sig=(tag, 'support'))
        outer = vs.generateouter() if hasattr(vs, 'generateouter') else vs.outer
        want = np.zeros_like(outer)
        for a, fa in enumerate(fields):
            for b, fb in enumerate(fields):
                if vs.vecpos[a][0] == vs.vecpos[b][0]:
                    want[:, :, a, b] = sum(np.outer(fa[k], fb[k]) for k in fa)
        acc.check(np.allclose(outer, want, atol=1e-10), 'outer-products-are-direct-sums', tag, sig=(tag, 'outer'))
        # Green-function expansion == projection of the directly assembled state-space matrix
        GFexp, GFss = vs.GFexpansion()
        gam = rng.normal(size=GFss.Nstars)
        # the Green function is symmetric under swapping its endpoints: G(ds) = G(-ds); the expansion relies on it
        for k, st in enumerate(GFss.stars):
            kk = GFss.starindex(-GFss.states[st[0]])
            if kk is not None and kk != k: gam[max(k, kk)] = gam[min(k, kk)]
        M = np.zeros((ss.Nstates, ss.Nstates)); okidx = True
        for i, si in enumerate(ss.states):
            for j, sj in enumerate(ss.states):
                if si.i != sj.i: continue
                try: ds = sj ^ si
                except ArithmeticError: continue
                k = GFss.starindex(ds)
                if k is None: okidx = False; continue
                M[i, j] = gam[k]
        acc.check(okidx, 'GF-star-set-contains-every-endpoint-difference', tag, sig=(tag, 'gfss'))
        direct = np.array([[sum(fa[i] @ fb[j] * M[i, j] for i in fa for j in fb) for fb in fields] for fa in fields]) if fields else np.zeros((0, 0))
        acc.check(np.allclose(np.dot(GFexp, gam), direct, atol=1e-9), 'GF-expansion-equals-projected-direct-assembly',
                  '%s: max deviation %.2e' % (tag, np.abs(np.dot(GFexp, gam) - direct).max() if fields else 0), sig=(tag, 'gfexp'))
        # bias and bare-diffusivity expansions == projection of the directly assembled fields (full sums over every jump)
        PSz = stars.PairState.zero
        for which, om2 in (('omega1', False), ('omega2', True)):
            jnw, jt, sp = getattr(ss, 'jumpnetwork_' + which)()
            if not jnw: continue
            b0, b1 = vs.biasexpansions(jnw, jt, omega2=om2)
            D0e, D1e = vs.bareexpansions(jnw, jt)
            nj0 = len(ss.jumpnetwork_index)
            B1 = np.zeros((vs.Nvstars, len(jnw))); B0 = np.zeros((vs.Nvstars, nj0)); D1 = np.zeros((c.dim, c.dim, len(jnw))); D0 = np.zeros((c.dim, c.dim, nj0))
            for k_, (jl, jt_) in enumerate(zip(jnw, jt)):
                for (IS, FS), dx in jl:
                    D1[:, :, k_] += 0.5 * np.outer(dx, dx); D0[:, :, jt_] += 0.5 * np.outer(dx, dx)
                    osi = ss.stateindex(PSz(ss.states[IS].i, c.dim)) if om2 else None
                    for a, fa in enumerate(fields):
                        if IS in fa:
                            B1[a, k_] += fa[IS] @ dx; B0[a, jt_] += fa[IS] @ dx
                        if osi is not None and osi in fa:      # origin states carry minus the summed bias of the exchange jumps
                            B1[a, k_] -= fa[osi] @ dx; B0[a, jt_] -= fa[osi] @ dx
            acc.check(np.allclose(b1, B1, atol=1e-9) and np.allclose(b0, B0, atol=1e-9), 'bias-expansion-equals-projected-direct-assembly(%s)' % which,
                      '%s: max deviation %.2e / %.2e' % (tag, np.abs(b1 - B1).max(), np.abs(b0 - B0).max()), sig=(tag, which, 'bias'))
            acc.check(np.allclose(D1e, D1, atol=1e-9) and np.allclose(D0e, D0, atol=1e-9), 'bare-diffusivity-expansion-equals-direct-sum(%s)' % which, tag, sig=(tag, which, 'bare'))
    acc.sample = {'crystal': cid, 'checked': 'Gram matrix, character-formula count, equivariance, outer, GF / bias / bare expansions vs direct assembly'}
    return acc.result()


# ----------------------------------------------------------------------------------------- C26
def omega_contract(acc, ss, c, chem, tag):
    key = lambda dx: tuple(np.round(dx, 6) + 0.)
    # vacancy position of a pair state from the crystal geometry (independent of the stored dx)
    vpos = lambda ps: c.lattice @ (np.array(ps.R) + c.basis[chem][ps.j])
    spos = lambda ps: c.lattice @ (c.basis[chem][ps.i])
    for which in ('omega1', 'omega2'):
        jnw, jt, sp = getattr(ss, 'jumpnetwork_' + which)()
        spec = {}
        for jtype, idxs in enumerate(ss.jumpnetwork_index):
            for jump in (ss.jumplist[k] for k in idxs):
                for i, PSi in enumerate(ss.states):
                    if PSi.iszero() or PSi.j != jump.i: continue
                    PSf = PSi + jump
                    if which == 'omega1':
                        if PSf.iszero(): continue
                        fidx = ss.stateindex(PSf)
                        if fidx is None: continue
                        spec[(i, fidx)] = (vpos(PSf) - vpos(PSi), jtype)
                    else:
                        if not PSf.iszero(): continue
                        fidx = ss.stateindex(-PSi)
                        spec[(i, fidx)] = (spos(PSi) - vpos(PSi), jtype)      # the vacancy jumps onto the solute site
        flat = [((i, f_), dx, n) for n, jl in enumerate(jnw) for (i, f_), dx in jl]
        pairs = [p for p, dx, n in flat]
        acc.check(len(pairs) == len(set(pairs)), which + ':each-transition-in-exactly-one-class', '%s: %d listed, %d distinct' % (tag, len(pairs), len(set(pairs))), sig=(tag, which, 'once'))
        acc.check(set(pairs) == set(spec), which + ':classes-cover-exactly-the-allowed-transitions',
                  '%s: extra %d missing %d' % (tag, len(set(pairs) - set(spec)), len(set(spec) - set(pairs))), sig=(tag, which, 'cover'))
        acc.check(all(p in spec and np.allclose(dx, spec[p][0], atol=1e-8) for p, dx, n in flat), which + ':displacement-is-the-vacancy-displacement', tag, sig=(tag, which, 'dx'))
        cls = {p: n for p, dx, n in flat}
        closed = rev = True
        for (i, f_), dx, n in flat:
            if cls.get((f_, i)) != n: rev = False
            for g in c.G:
                gi, gf = ss.stateindex(ss.states[i].g(c, chem, g)), ss.stateindex(ss.states[f_].g(c, chem, g))
                if cls.get((gi, gf)) != n: closed = False
        acc.check(rev, which + ':classes-closed-under-reversal', tag, sig=(tag, which, 'rev'))
        acc.check(closed, which + ':classes-closed-under-space-group', tag, sig=(tag, which, 'g'))
        acc.check(all(spec[jl[0][0]][1] == t for jl, t in zip(jnw, jt)) and all((ss.index[jl[0][0][0]], ss.index[jl[0][0][1]]) == s_ for jl, s_ in zip(jnw, sp)),
                  which + ':jump-type-and-star-pair-recorded-for-the-representative', tag, sig=(tag, which, 'meta'))


def w_omega(arg):
    idx, tier, seed = arg
    from vf.common import repo_on_path; repo_on_path()
    import warnings; warnings.filterwarnings('ignore')
    from onsager import crystalStars as stars, OnsagerCalc
    from vf.rtc import catalogue
    cid, f = catalogue.builders(tier, seed)[idx]
    e = f(); c, chem = e['crys'], e['chem']; acc = Acc(cid)
    jn = c.jumpnetwork(chem, e['cutoff'])
    njumps = sum(len(j) for j in jn)
    for N in ((1, 2) if (njumps <= 14 or tier == 'thorough') and njumps <= 24 else (1,)):
        for origin in (False, True):
            ss = stars.StarSet(jn, c, chem, N, originstates=origin)
            omega_contract(acc, ss, c, chem, 'N=%d origin=%s' % (N, origin))
    # the same networks from the lattice form of the jump network
    ssl = stars.StarSet(c.jumpnetwork2lattice(chem, jn), c, chem, 1, lattice=True)
    omega_contract(acc, ssl, c, chem, 'N=1 lattice-form')
    # pruning in VacancyMediated.generate: omega1 classes with both ends outside the thermodynamic range are removed, nothing else
    if njumps <= 14:
        try:
            for Nth in ((1, 2) if (tier == 'thorough' or njumps <= 8) else (1,)):
                d = OnsagerCalc.VacancyMediated(c, chem, c.sitelist(chem), jn, Nth)
                full, jt, sp = d.kinetic.jumpnetwork_omega1()
                therm = set(d.thermo.states)
                keep = [n for n, jl in enumerate(full)
                        if d.kinetic.states[jl[0][0][0]] in therm or d.kinetic.states[jl[0][0][1]] in therm]
                got = {frozenset(p for p, dx in jl) for jl in d.om1_jn}
                want = {frozenset(p for p, dx in full[n]) for n in keep}
                acc.check(got == want, 'pruned-omega1-network-is-exactly-the-classes-touching-the-thermodynamic-range',
                          'Nthermo=%d: kept %d, expected %d' % (Nth, len(got), len(want)), sig=('prune', Nth))
                acc.check(len(d.om1_jt) == len(d.om1_jn) == len(d.om1_SP), 'pruned-lists-stay-aligned', '', sig=('align', Nth))
                # every vacancy jump that starts or ends in the thermodynamic range is classified (brute force over states)
                listed = {p for jl in d.om1_jn for p, dx in jl}
                want_pairs = set()
                for i, PSi in enumerate(d.kinetic.states):
                    if PSi.iszero(): continue
                    for jump in d.kinetic.jumplist:
                        if PSi.j != jump.i: continue
                        PSf = PSi + jump
                        if PSf.iszero(): continue
                        fi = d.kinetic.stateindex(PSf)
                        if fi is None: continue
                        if PSi in therm or PSf in therm: want_pairs.add((i, fi))
                acc.check(want_pairs <= listed, 'every-swing-jump-touching-the-thermodynamic-range-is-classified',
                          'Nthermo=%d: %d of %d missing' % (Nth, len(want_pairs - listed), len(want_pairs)), sig=('touch', Nth))
        except Exception as ex:
            acc.check(False, 'no-unspecified-exception', 'VacancyMediated: %s: %s' % (type(ex).__name__, str(ex)[:200]))
    acc.sample = {'crystal': cid, 'checked': 'omega1/omega2 classes vs brute force, closure, displacement, pruning'}
    return acc.result()


def annotate_C24(rep):
    rep.trust('BFS spec over the jump list and orbit enumeration through PairState.g (PairState arithmetic and .g are proved in C23/C36)')
    rep.gaps.append('catalogue crystals, ranges N <= 2 (3 for networks with <= 14 jumps in the thorough tier)')


def annotate_C25(rep):
    rep.trust('character formula for invariant-subspace dimensions (theory taken as definition)')
    rep.gaps.append('rateexpansions is not compared with a direct assembly (exercised end-to-end by the tracer identities of C06); catalogue crystals, N <= 2')


def annotate_C26(rep):
    rep.gaps.append('catalogue crystals, Nthermo 1 (quick) / 1..2 (thorough); pruning checked only for networks with <= 14 jumps')
