"""Sidecar contracts (E1, level P) for the list-of-lists <-> (flat list, index array) converters that every HDF5 writer /
reader of onsager/crystalStars.py and onsager/OnsagerCalc.py goes through (C13):

    doublelist2flatlistindex(L)        -> (flat, index)
    flatlistindex2doublelist(flat, ix) -> L'

Specification, over one relation  REL(L, flat, index)  ("flat is the concatenation of the rows of L and index names the row
each element came from"), with  off(i) = len(L[0]) + ... + len(L[i-1])  a ghost recursive function:

    len(flat) = len(index) = off(len(L))
    for all p < len(flat):  0 <= index[p] < len(L),  off(index[p]) <= p < off(index[p] + 1),
                            flat[p] = L[index[p]][p - off(index[p])]

  D2F  post:  REL(L, result)                      and L itself is not modified
  F2D  pre :  REL(g_L, flat, index) for a ghost L with at least one row and a non-empty LAST row
              (the decoder recovers the number of rows from max(index) + 1: trailing empty rows cannot be recovered --
               that is a derived precondition of the round trip, stated here and checked at the call sites at run time)
       post:  result = g_L  (same number of rows, same row lengths, same elements)
  round trip: D2F.post  /\  last row non-empty  =>  F2D.pre      (an obligation of its own; with the two contracts it gives
              flatlistindex2doublelist(*doublelist2flatlistindex(L)) == L for every such L, of any size)

List elements are arbitrary Python objects; they are modelled as integers standing for object identities (the two
functions only move references, they never look inside an element)."""
import z3
from vf.spec import *
from vf.pyvc.engine import Contract, SSeq, SSeq2, INT

A = z3.ArraySort(INT, INT)
_lens = z3.Const('lens', A); _i = z3.Int('i')
# off(lens, i) = lens[0] + ... + lens[i-1]: an uninterpreted function constrained by its two defining equations on the naturals
#   off(lens, 0) = 0,   off(lens, i + 1) = off(lens, i) + lens[i]   (i >= 0)
# (a definition by primitive recursion: the equations have exactly one solution on the naturals, so assuming them is conservative;
#  z3's recursive-function unfolding proved unstable together with the quantified invariants, triggers on a plain function are not)
OFF = z3.Function('off', A, INT, INT)


def off_definition(lens):
    if BOUND[0] is not None:     # finite instance (counterexample search): the ground instances of the definition
        return [OFF(lens, z3.IntVal(0)) == 0] + [OFF(lens, z3.IntVal(i + 1)) == OFF(lens, z3.IntVal(i)) + z3.Select(lens, i) for i in range(0, 4 * BOUND[0] + 4)]
    i = z3.Int('di')
    return [OFF(lens, z3.IntVal(0)) == 0,
            z3.ForAll([i], z3.Implies(i >= 0, OFF(lens, i + 1) == OFF(lens, i) + z3.Select(lens, i)), patterns=[OFF(lens, i + 1)])]


def off(L, i):
    if isinstance(L, SSeq2): return OFF(L.lens, i)
    return sum(len(r) for r in L.xss[:i])


def rows_ok(L):
    """type invariant of a list of lists: row lengths are non-negative"""
    return And(L.len >= 0, lambda: forall(0, L.len, lambda i: L.lenof(i) >= 0))


def REL(L, flat, index):
    n = L.len
    return {
        'lengths': And(flat.len == off(L, n), index.len == off(L, n)),
        'blocks': forall(0, flat.len, lambda p: And(index[p] >= 0, index[p] < n, lambda: And(
            off(L, index[p]) <= p, p < off(L, index[p] + 1), lambda: flat[p] == L.at(index[p], p - off(L, index[p]))))),
    }


def same_rows(R, L):
    return And(R.len == L.len, lambda: forall(0, L.len, lambda i: R.lenof(i) == L.lenof(i)),
               lambda: forall2(0, L.len, lambda i: 0, lambda i: L.lenof(i), lambda i, j: R.at(i, j) == L.at(i, j)))


class _Mono:
    """off is monotone for non-negative row lengths: proved by induction (base + step obligations), then available as a fact"""
    def _mono(self, L):
        lens = L.lens
        j = z3.Int('mj'); i = z3.Int('mi')
        def stmt(jj): return z3.ForAll([i], z3.Implies(z3.And(i >= 0, i <= jj), OFF(lens, i) <= OFF(lens, jj)))
        nonneg = z3.ForAll([i], z3.Implies(z3.And(i >= 0, i < L.len), z3.Select(lens, i) >= 0))
        return j, stmt, nonneg

    def mono_obligations(self, L):
        j, stmt, nonneg = self._mono(L)
        D = off_definition(L.lens)
        return [('off-monotone:base', D + [nonneg], stmt(z3.IntVal(0))),
                ('off-monotone:step', D + [nonneg, j >= 0, j < L.len, stmt(j)], stmt(j + 1))]

    def mono_fact(self, L):
        if BOUND[0] is not None: return off_definition(L.lens)
        j, stmt, nonneg = self._mono(L)
        i = z3.Int('mi2')
        return off_definition(L.lens) + [
                z3.ForAll([i, j], z3.Implies(z3.And(i >= 0, i <= j, j <= L.len), OFF(L.lens, i) <= OFF(L.lens, j)),
                          patterns=[z3.MultiPattern(OFF(L.lens, i), OFF(L.lens, j))]),
                z3.ForAll([i], z3.Implies(z3.And(i >= 0, i <= L.len), OFF(L.lens, i) >= 0), patterns=[OFF(L.lens, i)])]

    def aux_obligations(self, L):
        i = z3.Int('ui')
        j, stmt, nonneg = self._mono(L)
        D = off_definition(L.lens)
        return [('off-non-negative:base', D, OFF(L.lens, z3.IntVal(0)) >= 0),
                ('off-non-negative:step', D + [nonneg, i >= 0, i < L.len, OFF(L.lens, i) >= 0], OFF(L.lens, i + 1) >= 0)]


class D2F(_Mono, Contract):
    relpath, qualname = 'onsager/crystalStars.py', 'doublelist2flatlistindex'
    self_shape = None
    params = {'listlist': 'seq2_int'}
    min_obligations = 8

    def pre(self, s): return rows_ok(s.v['listlist'])

    def post(self, old, new, result):
        flat, index = result
        d = dict(REL(old.v['listlist'], flat, index))
        d['argument-unchanged'] = same_rows(new.v['listlist'], old.v['listlist'])
        return d

    def _inv(self, cur, k, old):
        L = old.v['listlist']; flat, idx = cur.v['flatlist'], cur.v['indexlist']
        return {
            'lengths': And(flat.len == off(L, k), idx.len == off(L, k)),
            'blocks': forall(0, flat.len, lambda p: And(idx[p] >= 0, idx[p] < k, lambda: And(
                off(L, idx[p]) <= p, p < off(L, idx[p] + 1), lambda: flat[p] == L.at(idx[p], p - off(L, idx[p]))))),
            'argument-unchanged': same_rows(cur.v['listlist'], L),
        }

    @property
    def loops(self): return {0: self._inv}

    # concrete side
    def call(self, obj, args):
        from onsager import crystalStars
        return crystalStars.doublelist2flatlistindex(*args)

    def abstract(self, obj, args, result=None):
        ns = NS(self=None, v={'listlist': CSeq2(args[0])})
        return ns

    def abstract_result(self, result):
        if result is None: return None
        return (CSeq(list(result[0])), CSeq([int(x) for x in result[1]]))

    def build(self, conc):
        return None, ([list(r) for r in conc.v['listlist'].xss],)

    def concrete_states(self, rng, tier):
        for t in range(60 if tier == 'quick' else 600):
            n = rng.randint(0, 5)
            yield None, ([[rng.randint(0, 9) for _ in range(rng.randint(0, 4))] for _ in range(n)],)


class F2D(_Mono, Contract):
    relpath, qualname = 'onsager/crystalStars.py', 'flatlistindex2doublelist'
    self_shape = None
    params = {'flatlist': 'seq_int', 'indexarray': 'seq_int'}
    ghost_params = {'g_L': 'seq2_int'}
    min_obligations = 8

    def pre(self, s):
        L = s.v['g_L']
        return And(rows_ok(L), L.len >= 1, lambda: L.lenof(L.len - 1) >= 1, *REL(L, s.v['flatlist'], s.v['indexarray']).values())

    def post(self, old, new, result):
        L = old.v['g_L']
        return {'result-is-the-original-list-of-lists': same_rows(result, L),
                'arguments-unchanged': And(new.v['flatlist'].len == old.v['flatlist'].len, new.v['indexarray'].len == old.v['indexarray'].len,
                                           lambda: forall(0, old.v['flatlist'].len, lambda p: And(new.v['flatlist'][p] == old.v['flatlist'][p], new.v['indexarray'][p] == old.v['indexarray'][p])))}

    def _inv(self, cur, k, old):
        L = old.v['g_L']; R = cur.v['listlist']; n = L.len
        def filled(i):      # how many elements of row i have been delivered after k steps: rows fill one after the other
            return ite(k <= off(L, i), 0, ite(k >= off(L, i + 1), L.lenof(i), k - off(L, i)))
        return {
            'rows': R.len == n,
            # (three clauses of one statement: rows before the current block are complete, rows after it are empty, the current row is partly filled)
            'row-lengths-complete': forall(0, n, lambda i: Implies(off(L, i + 1) <= k, R.lenof(i) == L.lenof(i))),
            'row-lengths-empty': forall(0, n, lambda i: Implies(k <= off(L, i), R.lenof(i) == 0)),
            'row-lengths-current': forall(0, n, lambda i: Implies(And(off(L, i) < k, k < off(L, i + 1)), R.lenof(i) == k - off(L, i))),
            'row-contents': forall2(0, n, lambda i: 0, lambda i: R.lenof(i), lambda i, j: R.at(i, j) == L.at(i, j)),
        }

    @property
    def loops(self): return {0: self._inv}

    def lemma_obligations(self, s):
        L = s.v['g_L']
        out = self.mono_obligations(L) + self.aux_obligations(L)
        # the round trip: what D2F guarantees (plus a non-empty last row) is what F2D requires
        with_rel = [zb for zb in REL(L, s.v['flatlist'], s.v['indexarray']).values()]
        hyp = [rows_ok(L), L.len >= 1, L.lenof(L.len - 1) >= 1] + with_rel
        out.append(('round-trip:D2F-postcondition-and-non-empty-last-row-imply-F2D-precondition', hyp, self.pre(s)))
        return out

    def facts(self, s): return self.mono_fact(s.v['g_L'])

    def call(self, obj, args):
        from onsager import crystalStars
        return crystalStars.flatlistindex2doublelist(args[0], args[1])

    def abstract(self, obj, args, result=None):
        flat, index, L = args
        return NS(self=None, v={'flatlist': CSeq(list(flat)), 'indexarray': CSeq([int(x) for x in index]), 'g_L': CSeq2(L)})

    def abstract_result(self, result):
        return None if result is None else CSeq2([list(r) for r in result])

    def build(self, conc):
        import numpy as np
        return None, (list(conc.v['flatlist'].xs), np.array(conc.v['indexarray'].xs, dtype=int), [list(r) for r in conc.v['g_L'].xss])

    def concrete_states(self, rng, tier):
        import numpy as np
        from onsager import crystalStars
        for t in range(60 if tier == 'quick' else 600):
            n = rng.randint(1, 5)
            L = [[rng.randint(0, 9) for _ in range(rng.randint(0, 4))] for _ in range(n)]
            if not L[-1]: L[-1] = [rng.randint(0, 9)]
            flat, index = crystalStars.doublelist2flatlistindex(L)      # the real encoder feeds the real decoder: the round trip itself, at run time
            yield None, (flat, index, L)


class D2F_facts(D2F):
    def facts(self, s): return self.mono_fact(s.v['listlist'])
    def lemma_obligations(self, s): return self.mono_obligations(s.v['listlist']) + self.aux_obligations(s.v['listlist'])


C13_CONTRACTS = [D2F_facts(), F2D()]
