"""C23 (and the algebraic half of C36): obligations discharged by E4 -- the real source of onsager/crystal.py,
crystalStars.py and cluster.py executed on symbolic lattices, positions and operations (sympy), for spatial
dimension 2 and 3 (the whole domain of these identities).

Ghost predicates (derived from the code; established by Crystal.__init__/gengroup and checked at run time in C18):
  crystal_ok : invlatt = lattice^-1 (det != 0); basis coordinates lie in the range of incell
  op_ok(g)   : rot is an integer matrix, cartrot = lattice.rot.lattice^-1, and the image of atom a is atom
               indexmap[a] up to an integer lattice vector:  u_map(a) = rot.u_a + trans - n_a  (n_a integer)
Every obligation is: run the real functions, subtract the two routes, normal form of the difference is 0."""
import itertools, time
import numpy as np
import sympy as sp
from vf.symx import sx


class Env:
    """symbolic crystal + operations of dimension d"""
    def __init__(self, ctx, d, cr):
        self.d, self.ctx, self.cr = d, ctx, cr
        self.L = sx.obj([[ctx.real('L%d%d' % (i, j)) for j in range(d)] for i in range(d)])
        self.Linv = sx.SHIM.linalg.inv(self.L)
        self.R0 = sx.obj([ctx.integer('R%d' % i) for i in range(d)])
        self.R1 = sx.obj([ctx.integer('S%d' % i) for i in range(d)])
        self.u = sx.obj([ctx.incell('u%d' % i) for i in range(d)])
        self.x = sx.obj([ctx.real('x%d' % i) for i in range(d)])
        self.y = sx.obj([ctx.real('y%d' % i) for i in range(d)])
        self.ops = [self.make_op('g'), self.make_op('h')]
        # three atoms a0,a1,a2 of one species; g maps a_k -> a_{perm[k]} up to integer vectors
        self.ua = [sx.obj([ctx.incell('a%d_%d' % (k, i)) for i in range(d)]) for k in range(3)]

    def make_op(self, nm):
        d, ctx = self.d, self.ctx
        rot = sx.obj([[ctx.integer('%s_r%d%d' % (nm, i, j)) for j in range(d)] for i in range(d)])
        trans = sx.obj([ctx.real('%s_t%d' % (nm, i)) for i in range(d)])
        cartrot = np.dot(self.L, np.dot(rot, self.Linv))
        return rot, trans, cartrot

    def groupop(self, k, indexmap=((0,),)):
        rot, trans, cartrot = self.ops[k]
        return self.cr.GroupOp(rot=rot, trans=trans, cartrot=cartrot, indexmap=indexmap)

    def crystal(self, basis=None):
        m = type('SymbolicCrystal', (), {})()
        m.lattice, m.invlatt, m.dim = self.L, self.Linv, self.d
        m.basis = basis if basis is not None else [self.ua]
        for nm in ('pos2cart', 'unit2cart', 'cart2unit', 'g_pos', 'g_cart'):
            setattr(m, nm, getattr(self.cr.Crystal, nm).__get__(m))
        for nm in ('g_direc', 'g_tensor', 'g_vect'):
            setattr(m, nm, getattr(self.cr.Crystal, nm))
        return m

    def mapped_basis(self, g_index, perm):
        """basis in which atom k is carried by op g onto atom perm[k] up to the integer vector n_k:
        atom 0 is free; the images are defined from it (chain 0 -> perm[0] -> ...)"""
        rot, trans, _ = self.ops[g_index]
        n = [sx.obj([self.ctx.integer('n%d_%d' % (k, i)) for i in range(self.d)]) for k in range(3)]
        basis = [None] * 3
        basis[0] = self.ua[0]
        k = 0
        for _ in range(2):
            nxt = perm[k]
            if basis[nxt] is None: basis[nxt] = np.dot(rot, basis[k]) + trans - n[k]
            k = nxt
        return [basis], n


def obligations(d):
    """-> list of (name, thunk) ; thunk(env) -> (ok, detail)"""
    Z = sx.all_zero
    obs = []
    def ob(name):
        def deco(f): obs.append((name, f)); return f
        return deco

    @ob('O1:cart2unit-after-unit2cart-is-identity-on-Z^d-x-cell')
    def _(e):
        c = e.crystal(); R, u = c.cart2unit(c.unit2cart(e.R0, e.u))
        return Z(R - e.R0) and Z(u - e.u), ''

    @ob('O2:unit2cart-after-cart2unit-is-identity')
    def _(e):
        c = e.crystal(); return Z(c.unit2cart(*c.cart2unit(e.x)) - e.x), ''

    @ob('O3:pos2cart-is-unit2cart-of-the-basis-position')
    def _(e):
        c = e.crystal(); return Z(c.pos2cart(e.R0, (0, 1)) - c.unit2cart(e.R0, c.basis[0][1])), ''

    @ob('O5:g_pos-agrees-with-g_cart-on-atom-positions')
    def _(e):
        basis, n = e.mapped_basis(0, (1, 2, 0)); c = e.crystal(basis)
        g = e.groupop(0, ((1, 2, 0),))
        ok = True
        for a in (0, 1):
            Rn, ind = c.g_pos(g, e.R0, (0, a))
            ok = ok and ind == (0, (1, 2, 0)[a]) and Z(c.pos2cart(Rn, ind) - c.g_cart(g, c.pos2cart(e.R0, (0, a))))
            ok = ok and all(sx.int_valued(v) for v in Rn)
        return ok, ''

    @ob('O6:g_vect-on-a-basis-position-agrees-with-g_pos')
    def _(e):
        basis, n = e.mapped_basis(0, (1, 2, 0)); c = e.crystal(basis)
        g = e.groupop(0, ((1, 2, 0),))
        Rv, uv = c.g_vect(g, e.R0, c.basis[0][0]); Rp, ind = c.g_pos(g, e.R0, (0, 0))
        return Z(c.unit2cart(Rv, uv) - c.pos2cart(Rp, ind)), ''

    @ob('O7:g_vect-agrees-with-g_cart')
    def _(e):
        c = e.crystal(); g = e.groupop(0)
        Rv, uv = c.g_vect(g, e.R0, e.u)
        return Z(c.unit2cart(Rv, uv) - c.g_cart(g, c.unit2cart(e.R0, e.u))) and all(sx.int_valued(v) for v in Rv), ''

    @ob('O8:g_direc-of-a-difference-is-the-difference-of-images')
    def _(e):
        c = e.crystal(); g = e.groupop(0)
        return Z(c.g_direc(g, e.x - e.y) - (c.g_cart(g, e.x) - c.g_cart(g, e.y))), ''

    @ob('O9:g_tensor-of-an-outer-product')
    def _(e):
        c = e.crystal(); g = e.groupop(0)
        return Z(c.g_tensor(g, np.outer(e.x, e.y)) - np.outer(c.g_direc(g, e.x), c.g_direc(g, e.y))), ''

    @ob('O10:product-acts-as-composition-and-stays-op_ok')
    def _(e):
        c = e.crystal()
        ok = True
        for pg, ph in (((1, 2, 0), (1, 0, 2)), ((0, 2, 1), (2, 0, 1)), ((1, 0, 2), (0, 2, 1))):      # non-commuting permutations
            gh = e.groupop(0, (pg,)) * e.groupop(1, (ph,))
            ok = ok and gh.indexmap == (tuple(pg[ph[i]] for i in range(3)),)
        g, h = e.groupop(0), e.groupop(1)
        gh = g * h
        ok = ok and Z(c.g_cart(gh, e.x) - c.g_cart(g, c.g_cart(h, e.x)))
        ok = ok and Z(c.g_direc(gh, e.x) - c.g_direc(g, c.g_direc(h, e.x)))
        ok = ok and Z(np.dot(gh.cartrot, e.L) - np.dot(e.L, gh.rot))
        ok = ok and all(sx.int_valued(v) for v in gh.rot.ravel())
        # positions through g_vect: same Cartesian point
        Rv, uv = c.g_vect(gh, e.R0, e.u); R1, u1 = c.g_vect(h, e.R0, e.u); R2, u2 = c.g_vect(g, R1, u1)
        ok = ok and Z(c.unit2cart(Rv, uv) - c.unit2cart(R2, u2))
        return ok, ''

    @ob('O11:inverse-operation-is-the-inverse-map')
    def _(e):
        c = e.crystal()
        rot, trans, cartrot = e.ops[0]
        s = e.ctx.integer('detsign')
        rel = [sp.expand(sp.Matrix(rot.tolist()).det() - s), s ** 2 - 1]        # det(rot) = +-1 (op_ok)
        e.ctx.declare_unimodular(rot, s)
        g = e.groupop(0, ((1, 2, 0),))
        gi = g.inv()
        ok = all(sx.zero(v, rel) for v in (np.dot(gi.rot, g.rot) - np.eye(e.d, dtype=int)).ravel())
        ok = ok and all(sx.zero(v, rel) for v in (np.dot(gi.rot, g.trans) + gi.trans).ravel())
        ok = ok and gi.indexmap == ((2, 0, 1),)
        ok = ok and Z(gi.cartrot - g.cartrot.T)      # orthogonality of cartrot (op_ok) makes this the inverse rotation
        return ok, ''

    @ob('O12:adding-a-lattice-vector-shifts-the-image')
    def _(e):
        c = e.crystal(); g = e.groupop(0)
        n = np.array([1, -2, 3][:e.d])
        gp, gm = g + n, g - n
        return Z(c.g_cart(gp, e.x) - c.g_cart(g, e.x) - np.dot(e.L, n)) and Z(c.g_cart(gm, e.x) - c.g_cart(g, e.x) + np.dot(e.L, n)), ''
    return obs


def pair_obligations(d):
    """PairState / ClusterSite routes (need crystalStars / cluster loaded against the symbolic crystal module)"""
    Z = sx.all_zero
    obs = []
    def ob(name):
        def deco(f): obs.append((name, f)); return f
        return deco

    @ob('O13:PairState.g-and-ClusterSite.g-agree-with-g_pos-and-g_cart')
    def _(e):
        basis, n = e.mapped_basis(0, (1, 2, 0)); c = e.crystal(basis)
        g = e.groupop(0, ((1, 2, 0),))
        PS = e.stars.PairState
        ok = True
        for (i, j) in ((0, 1), (1, 0), (0, 0)):
            ps = PS.fromcrys_latt(c, 0, (i, j), e.R0)
            gps = ps.g(c, 0, g)
            Ri, ii = c.g_pos(g, np.zeros(e.d, dtype=int), (0, i)); Rj, jj = c.g_pos(g, e.R0, (0, j))
            ok = ok and (gps.i, gps.j) == (ii[1], jj[1]) and Z(gps.R - (Rj - Ri)) and Z(gps.dx - c.g_direc(g, ps.dx))
            # stays sane: dx is the separation of the image sites
            ok = ok and Z(gps.dx - np.dot(e.L, gps.R + c.basis[0][gps.j] - c.basis[0][gps.i]))
            cs = e.cluster.ClusterSite((0, j), e.R0)
            gcs = cs.g(c, g)
            ok = ok and gcs.ci == jj and Z(gcs.R - Rj)
        return ok, ''

    @ob('O14:fromcrys-and-fromcrys_latt-are-mutually-inverse')
    def _(e):
        c = e.crystal()
        PS = e.stars.PairState
        ok = True
        for (i, j) in ((0, 1), (2, 0), (1, 1)):
            a = PS.fromcrys_latt(c, 0, (i, j), e.R0)
            ok = ok and Z(a.dx - np.dot(e.L, e.R0 + c.basis[0][j] - c.basis[0][i]))
            b = PS.fromcrys(c, 0, (i, j), a.dx)
            ok = ok and Z(b.R - e.R0) and (b.i, b.j) == (i, j)
        return ok, ''

    @ob('C36:pair-state-arithmetic-identities-and-commutation-with-symmetry')
    def _(e):
        basis, n = e.mapped_basis(0, (1, 2, 0)); c = e.crystal(basis)
        g = e.groupop(0, ((1, 2, 0),))
        PS = e.stars.PairState
        same = lambda p, q: (p.i, p.j) == (q.i, q.j) and Z(p.R - q.R) and Z(p.dx - q.dx)
        ok = True
        for (i, j, k) in ((0, 1, 0), (1, 1, 0), (1, 0, 1)):      # only sites whose image under g is defined (0 -> 1 -> 2)
            a = PS.fromcrys_latt(c, 0, (i, j), e.R0); b = PS.fromcrys_latt(c, 0, (j, k), e.R1); b2 = PS.fromcrys_latt(c, 0, (k, j), e.R1)
            a2 = PS.fromcrys_latt(c, 0, (i, k), e.R1)
            ok = ok and same(-(-a), a)
            z = a + (-a); ok = ok and z.i == z.j and Z(z.R) and Z(z.dx)
            ok = ok and same((a - b2) + b2, a)                       # (a-b)+b = a   (same final state)
            ok = ok and same(a2 + (a ^ a2), a) and same(a + (a2 ^ a), a2)   # b+(a^b) = a ; a+(b^a) = b (same initial state)
            ok = ok and same((a + b).g(c, 0, g), a.g(c, 0, g) + b.g(c, 0, g))
            ok = ok and same((-a).g(c, 0, g), -(a.g(c, 0, g)))
            ok = ok and same((a ^ a2).g(c, 0, g), a.g(c, 0, g) ^ a2.g(c, 0, g))
            ok = ok and same((a - b2).g(c, 0, g), a.g(c, 0, g) - b2.g(c, 0, g))
        return ok, ''
    return obs


def run_all(rep, level_tag='P', only=None):
    """discharge every obligation for d = 2, 3 on the current tree; add Ob entries to rep"""
    from vf.common import Ob, Undecided
    import traceback
    out = []
    t0 = time.time()
    try:
        cr = sx.load_module('onsager/crystal.py')
        st = sx.load_module('onsager/crystalStars.py', deps=(cr,))
        cl = sx.load_module('onsager/cluster.py', deps=(cr,))
    except Exception as ex:
        rep.add(Ob('symx:load-modules', 'P', 'undecided', 'symx', time.time() - t0, 'cannot execute the module source: %s: %s' % (type(ex).__name__, ex)))
        return
    rep.extra['symx_rewrites_astype_int'] = {'crystal.py': cr.__sx_rewrites__, 'crystalStars.py': st.__sx_rewrites__, 'cluster.py': cl.__sx_rewrites__}
    import multiprocessing as mp
    # (modules are loaded once here; the forked workers inherit them)
    tasks = [(d, gi, k) for d in (2, 3) for gi, grp in enumerate((obligations(d), pair_obligations(d))) for k in range(len(grp))
             if only is None or any(grp[k][0].startswith(o) for o in only)]
    with mp.get_context('fork').Pool(min(16, len(tasks))) as pool:
        res = pool.map(_one, tasks, chunksize=1)
    for (nm, status, secs, detail, wit, fq) in res:
        rep.add(Ob(nm, level_tag, status, 'sympy-normal-form' if status != 'undecided' else 'symx', secs, detail, witness=wit, function=fq))


def _one(task):
    from vf.common import Undecided
    d, gi, k = task
    cr = sx.load_module('onsager/crystal.py')
    st = sx.load_module('onsager/crystalStars.py', deps=(cr,))
    cl = sx.load_module('onsager/cluster.py', deps=(cr,))
    grp = (obligations(d), pair_obligations(d))[gi]
    fq = ('onsager/crystal.py::Crystal', 'onsager/crystalStars.py::PairState')[gi]
    name, f = grp[k]
    t = time.time()
    nm = 'dim%d:%s' % (d, name)
    try:
        with sx.Run() as ctx:
            e = Env(ctx, d, cr); e.stars, e.cluster = st, cl
            ok, detail = f(e)
            side = [o for o in ctx.obligations if not o[1]]
        if side:
            return (nm, 'fail', time.time() - t, 'side obligation failed: %s' % (side[0],), {'replayed': False, 'signature': name}, fq)
        if ok: return (nm, 'ok', time.time() - t, '', None, fq)
        w = numeric_witness(name, d)
        return (nm, 'fail', time.time() - t, 'the difference of the two routes is a non-zero expression' + (' | replay: ' + w['observed'] if w else ''),
                w or {'replayed': False, 'signature': name}, fq)
    except (TypeError, Undecided, NotImplementedError, AttributeError, ValueError, IndexError, KeyError, ArithmeticError, AssertionError) as ex:
        return (nm, 'undecided', time.time() - t, 'symbolic execution left the supported path: %s: %s' % (type(ex).__name__, str(ex)[:200]), None, fq)


def numeric_witness(name, d):
    """replay of a refuted identity on the REAL (unmodified-numpy) module with random concrete values"""
    try:
        from contracts import coords_rt
        return coords_rt.replay(name, d)
    except Exception:
        return None
