"""Sidecar contract (E1, level P) for VacancyMediated.maketracerpreene (C06): the tracer data generator gives the solute the host's
energies and rates -- unit prefactors / zero energies for the solute and for every solute-vacancy complex, and for every omega1 /
omega2 jump class j the transition-state data of the vacancy jump type it derives from (om1_jt[j] / om2_jt[j]), for any number
of classes.  What Lij does with such data (the tracer identities) is the run-time contract of C06."""
import z3
import numpy as np
from vf.spec import *
from vf.pyvc.engine import Contract


class MakeTracer(Contract):
    relpath, qualname = 'onsager/OnsagerCalc.py', 'VacancyMediated.maketracerpreene'
    # om1_jn / om2_jn / sitelist: only their lengths are used
    self_shape = {'sitelist': 'seq_int', 'thermo': {'Nstars': 'int'}, 'om1_jn': 'seq_int', 'om1_jt': 'seq_int', 'om2_jn': 'seq_int', 'om2_jt': 'seq_int'}
    params = {'preT0': 'seq_real', 'eneT0': 'seq_real', 'ignoredextraarguments': 'opaque'}
    modifies = ()
    float_arrays = True
    min_obligations = 12

    def pre(self, s):
        z = s.self; p, e = s.v['preT0'], s.v['eneT0']
        return And(p.len >= 0, e.len == p.len, z.thermo.Nstars >= 0, z.sitelist.len >= 0,
                   z.om1_jt.len == z.om1_jn.len, z.om2_jt.len == z.om2_jn.len, z.om1_jn.len >= 0, z.om2_jn.len >= 0,
                   # generate(): the jump-type of every omega1 / omega2 class is an index into the vacancy jump network
                   lambda: forall(0, z.om1_jt.len, lambda j: And(z.om1_jt[j] >= 0, z.om1_jt[j] < p.len)),
                   lambda: forall(0, z.om2_jt.len, lambda j: And(z.om2_jt[j] >= 0, z.om2_jt[j] < p.len)))

    @staticmethod
    def copied(pre_, ene_, jt, k, old):
        p, e = old.v['preT0'], old.v['eneT0']
        return And(pre_.len == jt.len, ene_.len == jt.len, lambda: forall(0, k, lambda j: And(pre_[j] == p[jt[j]], ene_[j] == e[jt[j]])))

    loops = {0: lambda cur, k, old: MakeTracer.copied(cur.v['preT1'], cur.v['eneT1'], old.self.om1_jt, k, old),
             1: lambda cur, k, old: And(MakeTracer.copied(cur.v['preT1'], cur.v['eneT1'], old.self.om1_jt, old.self.om1_jt.len, old),
                                        MakeTracer.copied(cur.v['preT2'], cur.v['eneT2'], old.self.om2_jt, k, old))}

    def post(self, old, new, result):
        z = old.self
        r = result
        def const(a, n, v): return And(a.len == n, lambda: forall(0, n, lambda i: a[i] == v))
        return {
            'solute-sites-like-the-host': And(const(r['preS'], z.sitelist.len, 1), const(r['eneS'], z.sitelist.len, 0)),
            'no-solute-vacancy-binding': And(const(r['preSV'], z.thermo.Nstars, 1), const(r['eneSV'], z.thermo.Nstars, 0)),
            'omega1-classes-take-the-data-of-their-vacancy-jump-type': MakeTracer.copied(r['preT1'], r['eneT1'], z.om1_jt, z.om1_jt.len, old),
            'omega2-classes-take-the-data-of-their-vacancy-jump-type': MakeTracer.copied(r['preT2'], r['eneT2'], z.om2_jt, z.om2_jt.len, old),
        }

    # ---- concrete side: real calculators
    def abstract(self, obj, args, result=None):
        sv = NS(sitelist=CSeq([0] * len(obj.sitelist)), thermo=NS(Nstars=int(obj.thermo.Nstars)),
                om1_jn=CSeq([0] * len(obj.om1_jn)), om1_jt=CSeq([int(x) for x in obj.om1_jt]),
                om2_jn=CSeq([0] * len(obj.om2_jn)), om2_jt=CSeq([int(x) for x in obj.om2_jt]))
        return NS(self=sv, v={'preT0': CSeq([float(x) for x in args[0]]), 'eneT0': CSeq([float(x) for x in args[1]]), 'ignoredextraarguments': None})

    def abstract_result(self, result):
        return {k: CSeq([float(x) for x in v]) for k, v in result.items()}

    def call(self, obj, args): return obj.maketracerpreene(args[0], args[1], extra='ignored')

    def frame_fields(self): return []

    def concrete_states(self, rng, tier):
        from contracts import vacancy_rt as V
        for cid in ('FCC', 'HCP', 'HCP+OT', 'honeycomb2D') if tier == 'quick' else V.vac_ids('quick'):
            d, e = V.build(cid, tier, 0)
            for _ in range(3):
                n = len(d.om0_jn)
                yield d, ([rng.uniform(.5, 2) for _ in range(n)], [rng.uniform(0, 2) for _ in range(n)])


C06_CONTRACTS = [MakeTracer]
