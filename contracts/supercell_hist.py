"""C28, bounded stand-in (level B): run-time contracts on REAL Supercell objects over bounded-exhaustive and
seeded operation histories.  The class invariant WF is re-implemented here independently of __sane__ and of
the symbolic contract text (plain Python over the real arrays)."""
import itertools, random, copy
import numpy as np


def wf_violations(sup):
    """independent statement of the representation invariant on a real object -> list of violated clauses"""
    bad = []
    L = len(sup.occ)
    if len(sup.chemorder) != sup.Nchem: bad.append('len(chemorder) != Nchem')
    if L != sup.N * sup.size: bad.append('len(occ) != N*size')
    occ = [int(x) for x in sup.occ]
    if any(c < -1 or c >= sup.Nchem for c in occ): bad.append('occupation outside [-1, Nchem)')
    seen = {}
    for c, lst in enumerate(sup.chemorder):
        for k, i in enumerate(lst):
            if not (0 <= i < L): bad.append('chemorder[%d][%d]=%r not a site' % (c, k, i)); continue
            if occ[i] != c: bad.append('site %d listed under %d but occ=%d' % (i, c, occ[i]))
            if i in seen: bad.append('site %d listed twice' % i)
            seen[i] = c
    for i, c in enumerate(occ):
        if c >= 0 and i not in seen: bad.append('occupied site %d (species %d) not listed' % (i, c))
    return bad


def configs(tier):
    """small real supercells: (label, builder)"""
    from onsager import crystal, supercell
    out = []
    sc = crystal.Crystal(np.eye(3), [[np.zeros(3)]], chemistry=['A'])
    hcp = crystal.Crystal.HCP(1., chemistry='Mg')
    hcpO = hcp.addbasis(hcp.Wyckoffpos(np.array([0., 0., 0.5])), chemistry=['O'])
    b2 = crystal.Crystal(np.eye(3), [[np.zeros(3)], [0.5 * np.ones(3)]], chemistry=['A', 'B'])
    sq = None
    out.append(('SC 2x1x1, 0 solutes', lambda: supercell.Supercell(sc, np.diag([2, 1, 1]))))
    out.append(('SC 2x1x1, 2 solutes', lambda: supercell.Supercell(sc, np.diag([2, 1, 1]), Nsolute=2)))
    out.append(('B2 1x1x1, 1 solute', lambda: supercell.Supercell(b2, np.eye(3, dtype=int), Nsolute=1)))
    out.append(('HCP+O_i 1x1x1, 2 solutes', lambda: supercell.Supercell(hcpO, np.eye(3, dtype=int), interstitial=[1], Nsolute=2)))
    if tier == 'thorough':
        out.append(('SC 2x2x1, 1 solute', lambda: supercell.Supercell(sc, np.diag([2, 2, 1]), Nsolute=1)))
        out.append(('HCP+O_i 2x1x1, 1 solute', lambda: supercell.Supercell(hcpO, np.diag([2, 1, 1]), interstitial=[1], Nsolute=1)))
        out.append(('B2 2x1x1 nondiag, 2 solutes', lambda: supercell.Supercell(b2, np.array([[1, 1, 0], [0, 2, 0], [0, 0, 1]]), Nsolute=2)))
    return out


class Violation(Exception):
    def __init__(self, clause, detail): self.clause, self.detail = clause, detail


def snapshot(sup): return ([int(x) for x in sup.occ], [list(l) for l in sup.chemorder])


def apply_and_check(sup, op, rng):
    """apply one operation to the real object and check its run-time contract; returns the (possibly new) object"""
    kind = op[0]
    before = snapshot(sup)
    L = len(sup.occ)
    if kind in ('setocc', 'setitem'):
        _, i, c = op
        declared = -1 <= c < sup.Nchem
        try:
            if kind == 'setocc': sup.setocc(i, c)
            else: sup[i] = c
            raised = None
        except IndexError as ex:
            raised = ex
        if declared and raised is not None: raise Violation('declared-species-accepted', 'setocc(%d,%d) raised %r' % (i, c, raised))
        if not declared:
            if raised is None: raise Violation('undeclared-species-rejected', 'setocc(%d,%d) accepted' % (i, c))
            if snapshot(sup) != before: raise Violation('rejected-edit-leaves-state-unchanged', 'after setocc(%d,%d): %r -> %r' % (i, c, before, snapshot(sup)))
        else:
            occ, co = snapshot(sup)
            exp = list(before[0]); exp[i] = c
            if occ != exp: raise Violation('occ-updated', 'setocc(%d,%d): occ %r expected %r' % (i, c, occ, exp))
            for cc in range(sup.Nchem):
                old = before[1][cc]
                want = [x for x in old if x != i] if before[0][i] != c else list(old)
                if cc == c and before[0][i] != c: want = want + [i]
                if co[cc] != want: raise Violation('list-order-kept', 'setocc(%d,%d): chemorder[%d]=%r expected %r' % (i, c, cc, co[cc], want))
    elif kind == 'fill':
        _, ci, wy = op
        sup.fillperiodic(ci, Wyckoff=wy)
        ind = sup.indexatom[ci]
        wset = next(w for w in sup.Wyckofflist if ind in w) if wy else (ind,)
        occ = snapshot(sup)[0]
        for n in range(sup.size):
            for i in range(sup.N):
                j = n * sup.N + i
                if i in wset:
                    if occ[j] != ci[0]: raise Violation('fillperiodic-fills', 'site %d not filled with %d' % (j, ci[0]))
                elif occ[j] != before[0][j]: raise Violation('fillperiodic-frame', 'site %d changed' % j)
    elif kind == 'reorder':
        _, proper = op
        lens = [len(l) for l in sup.chemorder]
        if proper: mp = [rng.sample(range(n), n) for n in lens]
        else:
            mp = [[rng.randrange(n) for _ in range(n)] for n in lens]
        isperm = all(sorted(m) == list(range(n)) for m, n in zip(mp, lens))
        try:
            sup.reorder(mp); raised = False
        except ValueError:
            raised = True
        if raised == isperm: raise Violation('reorder-raises-iff-not-permutation', 'mapping %r raised=%s' % (mp, raised))
        occ, co = snapshot(sup)
        if occ != before[0]: raise Violation('reorder-keeps-occ', '')
        if raised and co != before[1]: raise Violation('reorder-failure-leaves-state', '%r -> %r' % (before[1], co))
        if not raised and co != [[before[1][c][m[i]] for i in range(len(m))] for c, m in enumerate(mp)]:
            raise Violation('reorder-result', '')
    elif kind == 'mul':
        _, gi, inplace = op
        g = sorted(sup.G, key=lambda g: (g.indexmap[0]))[gi % len(sup.G)]
        if inplace: sup *= g; new = sup
        else:
            new = g * sup if rng.random() < 0.5 else sup * g
            if snapshot(sup) != before: raise Violation('mul-leaves-original', '')
        m = g.indexmap[0]
        occ, co = snapshot(new)
        if any(occ[m[i]] != before[0][i] for i in range(L)): raise Violation('mul-occ-permuted', 'g.indexmap=%r %r -> %r' % (m, before[0], occ))
        if co != [[m[i] for i in l] for l in before[1]]: raise Violation('mul-chemorder-permuted', '')
        sup = new
    elif kind == 'copy':
        new = sup.copy()
        if snapshot(new) != before or not (new == sup): raise Violation('copy-equal', '')
        # no shared mutable state: edit the copy, original must not move
        for i in range(L): new.setocc(i, -1)
        if snapshot(sup) != before: raise Violation('copy-shares-state', 'editing the copy changed the original')
        new = sup.copy()
        sup, new = new, sup      # continue on the copy; the original is dropped
    elif kind == 'poscar':
        txt = sup.POSCAR('hist')
        fresh = sup.copy()
        for i in range(L): fresh.setocc(i, rng.randrange(-1, sup.Nchem))   # arbitrary previous content
        fresh.POSCAR_occ(txt)
        if snapshot(fresh) != before: raise Violation('poscar-roundtrip', 'wrote %r read back %r' % (before, snapshot(fresh)))
        if snapshot(sup) != before: raise Violation('poscar-write-is-pure', '')
    bad = wf_violations(sup)
    if bad: raise Violation('WF-after-' + kind, '; '.join(bad[:3]))
    return sup


def alphabet(sup, rng, tier):
    L = len(sup.occ)
    ops = [('setocc', i, c) for i in range(L) for c in range(-2, sup.Nchem + 1)]
    ops += [('setitem', i, c) for i in range(L) for c in (-1, sup.Nchem - 1)]
    ops += [('fill', ci, wy) for ci in sup.atomindices for wy in (True, False)]
    ops += [('reorder', True), ('reorder', False), ('copy',), ('poscar',)]
    ops += [('mul', gi, ip) for gi in range(min(len(sup.G), 4 if tier == 'quick' else 12)) for ip in (True, False)]
    return ops


def run_config(arg):
    """worker: one configuration; exhaustive depth-2 histories over the alphabet + seeded long histories"""
    label, idx, tier, seed = arg
    from vf.common import repo_on_path
    repo_on_path()
    import warnings; warnings.filterwarnings('ignore')
    rng = random.Random(seed * 1000003 + idx)
    build = configs(tier)[idx][1]
    base = build()
    ops = alphabet(base, rng, tier)
    n = 0; sigs = set(); sample = None
    def history(seq):
        nonlocal n, sample
        sup = base.copy()
        done = []
        for op in seq:
            done.append(op)
            try:
                sup = apply_and_check(sup, op, rng)
            except Violation as v:
                return {'config': label, 'history': [list(map(str, o)) for o in done], 'clause': v.clause, 'detail': v.detail[:500]}
            except Exception as ex:
                return {'config': label, 'history': [list(map(str, o)) for o in done], 'clause': 'no-unspecified-exception',
                        'detail': '%s: %s' % (type(ex).__name__, str(ex)[:300])}
            n += 1
            sigs.add((op[0], tuple(snapshot(sup)[0])))
        if sample is None: sample = {'config': label, 'history': [list(map(str, o)) for o in seq], 'final_occ': snapshot(sup)[0]}
        return None
    # exhaustive: every pair of operations (depth 2), preceded by a seeded prefix that populates the cell
    prefix = [('fill', base.atomindices[0], True)]
    for a in ops:
        v = history(prefix + [a])
        if v: return n, len(sigs), sample, v
    pairs = list(itertools.product(ops, ops))
    if tier == 'quick': pairs = rng.sample(pairs, min(len(pairs), 600))
    for a, b in pairs:
        v = history([a, b])
        if v: return n, len(sigs), sample, v
    for _ in range(40 if tier == 'quick' else 400):
        v = history([rng.choice(ops) for _ in range(rng.randrange(3, 12))])
        if v: return n, len(sigs), sample, v
    return n, len(sigs), sample, None
