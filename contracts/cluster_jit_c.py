"""Sidecar contracts for the compiled sampler (onsager/cluster.py, class MonteCarloSampler_jit): C35.

The relational property "the compiled sampler behaves like the reference" is decided functionally: the jit
methods are proved against the SAME ghost specification functions (count, esum, rsum) as the reference sampler
(contracts/cluster_c.py), so equal occupations give equal counts, energies and barriers.  The class body is plain
Python; the @jitclass decorator is dropped by extraction (numba assumed to execute the body with Python semantics
on int64/float64 without overflow)."""
import z3
from vf.spec import *
from vf.pyvc.engine import Contract, SMat, SSeq, INT, REAL
from contracts.cluster_c import count, mult, esum, M_rec, S_rec, E_rec, _Lemmas, A, AR

INF = z3.Real('np.inf')     # the float infinity, an uninterpreted real constant (only compared for equality)

_cc, _vals = z3.Const('cc', A), z3.Const('vals', AR)
_lo, _hi = z3.Ints('lo hi')
R_rec = z3.RecFunction('rsum', A, AR, INT, INT, REAL)             # sum_{lo<=m<hi, cc[m]==0} vals[m]
z3.RecAddDefinition(R_rec, [_cc, _vals, _lo, _hi],
                    z3.If(_hi <= _lo, z3.RealVal(0), R_rec(_cc, _vals, _lo, _hi - 1) +
                          z3.If(z3.Select(_cc, _hi - 1) == 0, z3.Select(_vals, _hi - 1), z3.RealVal(0))))


def rsum(cc, vals, lo, hi):
    if isinstance(cc, SSeq): return R_rec(cc.arr, vals.arr, lo, hi)
    return sum(vals[m] for m in range(lo, hi) if cc[m] == 0)


SELF = {'Nenergy': 'int', 'Njumps': 'int', 'jump_ij': 'mat_int', 'jump_Q': 'seq_real', 'jump_dx': 'opaque', 'interactrange': 'seq_int',
        'Ninteract': 'seq_int', 'siteinteract': 'mat_int', 'interactvalue': 'seq_real', 'Nsites': 'int',
        'occ': 'seq_int', 'clustercount': 'seq_int', 'Nocc': 'int', 'Nunocc': 'int',
        'occupied_set': 'seq_int', 'unoccupied_set': 'seq_int', 'index': 'seq_int'}


def static_ok(s):
    si, NI, vals = s.siteinteract, s.Ninteract, s.interactvalue
    L = s.Nsites
    return And(L >= 0, si.len == L, NI.len == L, s.occ.len == L, s.index.len == L,
               s.occupied_set.len == L, s.unoccupied_set.len == L,
               s.clustercount.len == vals.len, s.Nenergy >= 0, s.Nenergy <= vals.len,
               lambda: forall(0, L, lambda i: And(NI[i] >= 0, NI[i] <= si.lenof(i))),
               lambda: forall2(0, L, lambda i: 0, lambda i: NI[i], lambda i, n: And(si.at(i, n) >= 0, si.at(i, n) < vals.len)))


def sets_ok(s, k=None):
    """occupied_set[:Nocc] / unoccupied_set[:Nunocc] enumerate the sites i < k with occ 1 / 0, and index[] inverts them"""
    occ, os_, us, ix = s.occ, s.occupied_set, s.unoccupied_set, s.index
    k = s.Nsites if k is None else k
    return {
        'counts': And(s.Nocc >= 0, s.Nunocc >= 0, s.Nocc + s.Nunocc <= k),
        'occupied-list-sound': forall(0, s.Nocc, lambda j: And(os_[j] >= 0, os_[j] < k, lambda: And(occ[os_[j]] == 1, ix[os_[j]] == j))),
        'unoccupied-list-sound': forall(0, s.Nunocc, lambda j: And(us[j] >= 0, us[j] < k, lambda: And(occ[us[j]] == 0, ix[us[j]] == j))),
        'index-inverts': forall(0, k, lambda i: And(
            Implies(occ[i] == 1, lambda: And(ix[i] >= 0, ix[i] < s.Nocc, lambda: os_[ix[i]] == i)),
            Implies(occ[i] == 0, lambda: And(ix[i] >= 0, ix[i] < s.Nunocc, lambda: us[ix[i]] == i)))),
    }


def J(s):
    L = s.Nsites
    return {
        'tables': static_ok(s),
        'clustercount-is-the-sum-over-unoccupied-sites': forall(0, s.clustercount.len, lambda m: s.clustercount[m] ==
                                                                count(s.occ, s.siteinteract, s.Ninteract, m, L)),
        **{'sets-' + k: v for k, v in sets_ok(s).items()},
    }


def Jall(s): return And(*J(s).values())


class StartJ(_Lemmas, Contract):
    relpath, qualname = 'onsager/cluster.py', 'MonteCarloSampler_jit.start'
    self_shape = SELF
    params = {'occ': 'seq_int'}
    modifies = ('occ', 'clustercount', 'Nocc', 'Nunocc', 'occupied_set', 'unoccupied_set', 'index')

    def pre(self, s):
        return And(static_ok(s.self), s.v['occ'].len == s.self.Nsites)

    def post(self, old, new, result):
        return {**{'J-' + k: v for k, v in J(new.self).items()},
                'keeps-its-own-copy-of-the-occupation': seq_eq(new.self.occ, old.v['occ'])}

    def inv_sites(cur, k, old):
        s = cur.self; occ = old.v['occ']
        return {'tables': static_ok(s),
                'occ-copied': forall(0, k, lambda i: s.occ[i] == occ[i]),
                'count': forall(0, s.clustercount.len, lambda m: s.clustercount[m] == count(s.occ, s.siteinteract, s.Ninteract, m, k)),
                **sets_ok(s, k)}

    def inv_row(cur, n, old):
        s = cur.self; i = cur.v['i']
        return And(s.clustercount.len == s.interactvalue.len,
                   lambda: forall(0, s.clustercount.len, lambda m: s.clustercount[m] ==
                                  count(s.occ, s.siteinteract, s.Ninteract, m, i) + mult(s.siteinteract, i, m, n)))

    loops = {0: inv_sites, 1: inv_row}


class EnergyJ(Contract):
    relpath, qualname = 'onsager/cluster.py', 'MonteCarloSampler_jit.E'
    self_shape = SELF
    params = {}
    modifies = ()
    local_sorts = {'E': 'real'}

    def pre(self, s): return static_ok(s.self)

    def post(self, old, new, result):
        o = old.self
        want = esum(o.clustercount, o.interactvalue, o.Nenergy)
        if not is_sym(result, want): return {'energy-is-sum-of-switched-on-interactions': abs(result - want) <= 1e-12 * (1 + abs(want))}
        return {'energy-is-sum-of-switched-on-interactions': result == want}

    loops = {0: lambda cur, k, old: cur.v['E'] == esum(old.self.clustercount, old.self.interactvalue, k)}


class UpdateJ(_Lemmas, Contract):
    """update(occsite, unoccsite) under the compiled sampler's unchecked preconditions occ[occsite]==0, occ[unoccsite]==1"""
    relpath, qualname = 'onsager/cluster.py', 'MonteCarloSampler_jit.update'
    self_shape = SELF
    params = {'occsite': 'int', 'unoccsite': 'int'}
    modifies = ('occ', 'clustercount', 'occupied_set', 'unoccupied_set', 'index')

    def pre(self, s):
        o, u = s.v['occsite'], s.v['unoccsite']
        L = s.self.Nsites
        return And(Jall(s.self), o >= 0, o < L, u >= 0, u < L, lambda: And(s.self.occ[o] == 0, s.self.occ[u] == 1))

    def post(self, old, new, result):
        o, u = old.v['occsite'], old.v['unoccsite']
        return {**{'J-' + k: v for k, v in J(new.self).items()},
                'new-occupation': forall(0, old.self.Nsites, lambda i: new.self.occ[i] == ite(i == o, 1, ite(i == u, 0, old.self.occ[i])))}

    def inv_o(cur, n, old):
        s = cur.self; o, u = old.v['occsite'], old.v['unoccsite']
        si, NI = s.siteinteract, s.Ninteract
        return And(s.clustercount.len == s.interactvalue.len,
                   lambda: forall(0, s.clustercount.len, lambda m: s.clustercount[m] == count(s.occ, si, NI, m, s.Nsites)
                                  + mult(si, o, m, NI[o]) - mult(si, o, m, n) - mult(si, u, m, NI[u])))

    def inv_u(cur, n, old):
        s = cur.self; o, u = old.v['occsite'], old.v['unoccsite']
        si, NI = s.siteinteract, s.Ninteract
        return And(s.clustercount.len == s.interactvalue.len,
                   lambda: forall(0, s.clustercount.len, lambda m: s.clustercount[m] == count(s.occ, si, NI, m, s.Nsites)
                                  - mult(si, u, m, NI[u]) + mult(si, u, m, n)))

    loops = {0: inv_o, 1: inv_u}


class TransitionsJ(Contract):
    """jump_Q[n] = sum of switched-on interactions in the jump's range when the jump is allowed (vacancy at the
    initial site, or initial occupied and final empty), +inf when forbidden."""
    relpath, qualname = 'onsager/cluster.py', 'MonteCarloSampler_jit.transitions'
    self_shape = SELF
    params = {}
    modifies = ('jump_Q',)
    consts = {}
    local_sorts = {}

    def pre(self, s):
        z = s.self; ir, ij = z.interactrange, z.jump_ij
        return And(static_ok(z), z.Njumps >= 0, ij.len == z.Njumps, z.jump_Q.len == z.Njumps, Or(z.Njumps == 0, ij.ncols == 2) if hasattr(ij, 'ncols') else True,
                   ir.len == ite(z.Njumps > 0, z.Njumps + 1, ir.len), lambda: Implies(z.Njumps > 0, lambda: And(
                       forall(0, ir.len, lambda n: And(ir[n] >= 0, ir[n] <= z.interactvalue.len)),
                       forall(0, z.Njumps, lambda n: ir[ite(n == 0, z.Njumps, n - 1)] <= ir[n]),
                       forall2(0, z.Njumps, lambda n: 0, lambda n: 2, lambda n, e: And(ij.at(n, e) >= 0, ij.at(n, e) < z.Nsites)))))

    @staticmethod
    def allowed(z, n):
        i, j = z.jump_ij.at(n, 0), z.jump_ij.at(n, 1)
        return Or(z.occ[i] == -1, And(z.occ[i] == 1, z.occ[j] == 0))

    def post(self, old, new, result):
        z = old.self
        ir = z.interactrange
        inf = INF if SYMBOLIC[0] else float('inf')
        def want(n):
            return ite(TransitionsJ.allowed(z, n), lambda: rsum(z.clustercount, z.interactvalue, ir[ite(n == 0, z.Njumps, n - 1)], ir[n]), inf)
        if SYMBOLIC[0]:
            return {'barriers': And(new.self.jump_Q.len == z.Njumps, lambda: forall(0, z.Njumps, lambda n: new.self.jump_Q[n] == want(n)))}
        return {'barriers': all((new.self.jump_Q[n] == want(n)) or abs(new.self.jump_Q[n] - want(n)) <= 1e-12 * (1 + abs(want(n))) for n in range(z.Njumps))}

    def inv_jumps(cur, k, old):
        z = old.self; ir = z.interactrange
        def want(n):
            return ite(TransitionsJ.allowed(z, n), lambda: rsum(z.clustercount, z.interactvalue, ir[ite(n == 0, z.Njumps, n - 1)], ir[n]), INF)
        return And(cur.self.jump_Q.len == z.Njumps, lambda: forall(0, k, lambda n: cur.self.jump_Q[n] == want(n)))

    def inv_range(cur, k, old):
        z = old.self; ir = z.interactrange; n = cur.v['n']
        lo = ir[ite(n == 0, z.Njumps, n - 1)]
        def want(nn):
            return ite(TransitionsJ.allowed(z, nn), lambda: rsum(z.clustercount, z.interactvalue, ir[ite(nn == 0, z.Njumps, nn - 1)], ir[nn]), INF)
        return {'len': cur.self.jump_Q.len == z.Njumps,
                'earlier-jumps-done': forall(0, n, lambda nn: cur.self.jump_Q[nn] == want(nn)),
                'partial-sum': cur.self.jump_Q[n] == rsum(z.clustercount, z.interactvalue, lo, lo + k)}

    loops = {0: inv_jumps, 1: inv_range}


class DeltaEJ(Contract):
    """deltaE_trial(occsite, unoccsite) of the compiled sampler: the returned trial energy equals
         esum(G, Nenergy) - esum(clustercount, Nenergy),   G[n] = clustercount[n] - mult(occsite, n) + mult(unoccsite, n)   (n < Nenergy)
    i.e. the energy of the counts the move would produce minus the present energy (the same ghost functions as E() and update()).
    The early `break` at the first interaction index >= Nenergy is justified by the table invariant "rows of siteinteract are
    non-decreasing" (established by the constructor: run-time checked) and a lemma proved by induction: multiplicities do not
    change over a stretch of a row that does not contain the index."""
    relpath, qualname = 'onsager/cluster.py', 'MonteCarloSampler_jit.deltaE_trial'
    self_shape = dict(SELF, dcluster='seq_int')
    params = {'occsite': 'int', 'unoccsite': 'int'}
    modifies = ('dcluster',)
    local_sorts = {'dE': 'real'}
    min_obligations = 12

    @staticmethod
    def rows_sorted(s):
        si, NI = s.siteinteract, s.Ninteract
        return forall(0, s.Nsites, lambda i: forall2(0, NI[i], lambda a: a, lambda a: NI[i], lambda a, b: si.at(i, a) <= si.at(i, b), 'srt'), 'srt_i')

    def pre(self, s):
        z = s.self; o, u = s.v['occsite'], s.v['unoccsite']
        return And(static_ok(z), z.dcluster.len == z.Nenergy, o >= 0, o < z.Nsites, u >= 0, u < z.Nsites, lambda: DeltaEJ.rows_sorted(z))

    # lemma: forall i, n, a, b: a <= b and no entry of row i in [a, b) equals n  ==>  mult(i, n, b) == mult(i, n, a)
    @staticmethod
    def _lemma(s):
        si = s.self.siteinteract.data
        i, n, a, b, j = z3.Ints('dl_i dl_n dl_a dl_b dl_j')
        def stmt(bb):
            return z3.Implies(z3.And(a <= bb, z3.ForAll([j], z3.Implies(z3.And(j >= a, j < bb), z3.Select(z3.Select(si, i), j) != n))),
                              M_rec(si, i, n, bb) == M_rec(si, i, n, a))
        return si, i, n, a, b, stmt

    def lemma_obligations(self, s):
        si, i, n, a, b, stmt = self._lemma(s)
        return [('multiplicity-constant-over-a-stretch-without-the-index:base', [b == a], stmt(b)),
                ('multiplicity-constant-over-a-stretch-without-the-index:step', [b >= a, stmt(b)], stmt(b + 1))]

    def facts(self, s):
        if BOUND[0] is not None: return []
        si, i, n, a, b, stmt = self._lemma(s)
        return [z3.ForAll([i, n, a, b], stmt(b), patterns=[z3.MultiPattern(M_rec(si, i, n, b), M_rec(si, i, n, a))])]

    def inv_o(cur, k, old):
        z = cur.self; o = old.v['occsite']; si = z.siteinteract
        return {'len': z.dcluster.len == z.Nenergy,
                'counts-of-the-site-to-occupy': forall(0, z.Nenergy, lambda n: z.dcluster[n] == mult(si, o, n, k)),
                'no-index-beyond-the-energy-block-so-far': forall(0, k, lambda j: si.at(o, j) < z.Nenergy)}

    def inv_u(cur, k, old):
        z = cur.self; o, u = old.v['occsite'], old.v['unoccsite']; si, NI = z.siteinteract, z.Ninteract
        return {'len': z.dcluster.len == z.Nenergy,
                'counts-difference': forall(0, z.Nenergy, lambda n: z.dcluster[n] == mult(si, o, n, NI[o]) - mult(si, u, n, k)),
                'no-index-beyond-the-energy-block-so-far': forall(0, k, lambda j: si.at(u, j) < z.Nenergy)}

    @staticmethod
    def G_def(z, o, u):
        si, NI = z.siteinteract, z.Ninteract
        return lambda n: z.clustercount[n] - (mult(si, o, n, NI[o]) - mult(si, u, n, NI[u]))

    loop_ghost_init = {2: lambda cur, old: {'g_cc2': (cur.self.clustercount.len, DeltaEJ.G_def(old.self, old.v['occsite'], old.v['unoccsite']))}}

    def inv_e(cur, k, old):
        z = old.self; G = cur.v['g_cc2']
        return {'dcluster-is-the-count-change': forall(0, z.Nenergy, lambda n: cur.self.dcluster[n] == z.clustercount[n] - G[n]),
                'partial-energy-difference': cur.v['dE'] == esum(G, z.interactvalue, k) - esum(z.clustercount, z.interactvalue, k)}

    loops = {0: inv_o, 1: inv_u, 2: inv_e}

    def post(self, old, new, result):
        z = old.self; o, u = old.v['occsite'], old.v['unoccsite']
        if SYMBOLIC[0]:
            G = new.v['g_cc2']
            return {'trial-energy-is-energy-after-minus-energy-before': result == esum(G, z.interactvalue, z.Nenergy) - esum(z.clustercount, z.interactvalue, z.Nenergy),
                    'where-G-is-the-count-the-move-produces': forall(0, z.Nenergy, lambda n: G[n] == DeltaEJ.G_def(z, o, u)(n))}
        G = CSeq([DeltaEJ.G_def(z, o, u)(n) for n in range(z.clustercount.len)])
        want = esum(G, z.interactvalue, z.Nenergy) - esum(z.clustercount, z.interactvalue, z.Nenergy)
        return {'trial-energy-is-energy-after-minus-energy-before': abs(result - want) <= 1e-12 * (1 + abs(want))}


# ---------------------------------------------------------------------------------------------
# concrete side: real numba objects
import itertools
import numpy as np


def make_jit(rows, NI, vals, Nenergy, occ=None, jump_ij=(), irange=(), raw=None):
    from onsager import cluster
    L = len(rows); ncols = max([len(r) for r in rows] + [1])
    si = np.array([list(r) + [-1] * (ncols - len(r)) for r in rows], dtype=np.int64).reshape(L, ncols)
    nj = len(jump_ij)
    a = lambda x: np.array(x, dtype=np.int64)
    j = cluster.MonteCarloSampler_jit(int(Nenergy), nj, a(jump_ij).reshape(nj, 2), np.zeros((nj, 3)), np.zeros(nj), a(irange),
                                      a(NI), si, np.array(vals, dtype=float), L, np.ones(L, dtype=np.int64), np.zeros(len(vals), dtype=np.int64),
                                      np.zeros(max(int(Nenergy), 0), dtype=np.int64), L, 0, np.arange(L, dtype=np.int64), np.zeros(L, dtype=np.int64),
                                      np.arange(L, dtype=np.int64))
    if occ is not None: j.start(a(occ))
    return j


class _JitConcrete:
    def tables(self, rng, tier):
        from contracts.cluster_c import _SamplerConcrete
        for rows, NI, vals, Ne, vac in _SamplerConcrete.tables(self, rng, tier):
            rows = [sorted(r) for r in rows]
            yield rows, [len(r) for r in rows], vals, Ne

    def jumps(self, rng, L, NT, Ne):
        nj = rng.randrange(0, 4)
        ij = [[rng.randrange(L), rng.randrange(L)] for _ in range(nj)]
        cuts = sorted(rng.randrange(Ne, NT + 1) for _ in range(nj))
        return ij, (cuts + [Ne]) if nj else []


class StartJC(_JitConcrete, StartJ):
    def concrete_states(self, rng, tier):
        for rows, NI, vals, Ne in self.tables(rng, tier):
            for occ in itertools.product((-1, 0, 1), repeat=len(rows)):
                yield make_jit(rows, NI, vals, Ne), (np.array(occ, dtype=np.int64),)


class EnergyJC(_JitConcrete, EnergyJ):
    def concrete_states(self, rng, tier):
        for rows, NI, vals, Ne in self.tables(rng, tier):
            for occ in itertools.product((0, 1), repeat=len(rows)):
                yield make_jit(rows, NI, vals, Ne, occ), ()


class UpdateJC(_JitConcrete, UpdateJ):
    def concrete_states(self, rng, tier):
        for rows, NI, vals, Ne in self.tables(rng, tier):
            L = len(rows)
            for occ in itertools.product((-1, 0, 1), repeat=L):
                for o in range(L):
                    for u in range(L):
                        if occ[o] == 0 and occ[u] == 1: yield make_jit(rows, NI, vals, Ne, occ), (o, u)


class TransitionsJC(_JitConcrete, TransitionsJ):
    def concrete_states(self, rng, tier):
        for rows, NI, vals, Ne in self.tables(rng, tier):
            L = len(rows)
            ij, ir = self.jumps(rng, L, len(vals), Ne)
            for occ in itertools.product((-1, 0, 1), repeat=L):
                yield make_jit(rows, NI, vals, Ne, occ, ij, ir), ()


class DeltaEJC(_JitConcrete, DeltaEJ):
    def build(self, conc):
        z = conc.self; L = z.Nsites
        if not (1 <= L <= 4) or z.interactvalue.len > 6: return None, None
        NI = [z.Ninteract[i] for i in range(L)]
        rows = [list(z.siteinteract.xss[i][:NI[i]]) for i in range(L)]
        j = make_jit(rows, NI, list(z.interactvalue.xs), z.Nenergy)
        j.clustercount[:] = np.array(z.clustercount.xs, dtype=np.int64)
        return j, (int(conc.v['occsite']), int(conc.v['unoccsite']))

    def concrete_states(self, rng, tier):
        for rows, NI, vals, Ne in self.tables(rng, tier):
            L = len(rows)
            for occ in itertools.product((0, 1), repeat=L):
                j = make_jit(rows, NI, vals, Ne, occ)          # one compiled object per occupation: the call only writes its scratch array
                for o in range(L):
                    for u in range(L):
                        yield j, (o, u)
