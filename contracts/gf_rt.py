"""C10 run-time contracts for GFcalc.GFCrystalcalc: postconditions of SetRates + __call__ stated against rates, escape
rates and site probabilities computed here from the thermodynamic data (no use of the calculator's helpers):
  (a) lattice diffusion equation   sum_{jumps i->j',d} w g(j',j,x-d) + esc_i g(i,j,x) = delta_ij delta_x0
  (b) endpoint swap                g(i,j,x) = g(j,i,-x)
  (c) space-group invariance       g(gi,gj,Rx) = g(i,j,x)
  (d) 3D far field                 g(i,j,x) -> -sqrt(rho_i rho_j) V / (4 pi sqrt(det D) sqrt(x.D^-1.x))   (one connected network)
  (e) uniform rate scaling         rates * s  ->  g / s
to the Brillouin-zone integration accuracy (the repository's own tests use 1e-6; so do we, on the dimensionless residual)."""
import itertools, warnings
import numpy as np
from vf.rtc.runner import Acc

EXTRA = ['ortho2/same-sublattice', 'rect2D2/same-sublattice', 'NbO-permuted/chem1', 'P-1-AB/chem1', 'B2/chem1', 'ortho3/two-networks']


def ids(tier):
    q = ['FCC', 'BCC', 'HCP', 'B2', 'square2D', 'honeycomb2D', 'HCP+OT', 'ortho2site', 'wurtzite+X', 'mono-P2/m-rotated', 'rect2D-rot30', 'omega'] + EXTRA
    if tier == 'quick': return q
    from vf.rtc import catalogue
    from vf.common import SEED
    rnd = [c for c, f in catalogue.builders('thorough', SEED) if c.startswith('random')][:6]
    return q + ['SC', 'diamond', 'L12', 'tria2D', 'rect2D', 'oblique2D', 'rumpled-omega', 'tric-P-1', 'HCP-rotated', 'P-4(S4 site)', 'mono-P2/m'] + rnd


def entry(cid, seed):
    from onsager import crystal
    from vf.rtc import catalogue
    C = crystal.Crystal
    if cid == 'ortho2/same-sublattice':
        c = C(np.diag([1., 1.1, 1.2]), [[np.zeros(3), np.array([.5, .5, .3])]])
        jn = [jl for jl in c.jumpnetwork(0, 1.25) if all(i == j for (i, j), dx in jl)]
        return c, 0, jn
    if cid == 'rect2D2/same-sublattice':
        c = C(np.diag([1., 1.15]), [[np.zeros(2), np.array([.5, .3])]])
        jn = [jl for jl in c.jumpnetwork(0, 1.2) if all(i == j for (i, j), dx in jl)]
        return c, 0, jn
    if cid == 'ortho3/two-networks':
        # three sites: 0 and 1 connected to each other (and by translations), 2 only by translations
        c = C(np.diag([1., 1.1, 1.2]), [[np.zeros(3), np.array([.5, .5, .3]), np.array([.2, .7, .75])]])
        jn = [jl for jl in c.jumpnetwork(0, 1.25) if all(((i == 2) == (j == 2)) for (i, j), dx in jl)]
        return c, 0, jn
    if cid == 'NbO-permuted/chem1':
        a = 1.
        nb = [np.array([0, .5, .5]), np.array([.5, 0, .5]), np.array([.5, .5, 0])]
        ox = [np.array([0, 0, .5]), np.array([.5, 0, 0]), np.array([0, .5, 0])]       # listed z, x, y: permuted differently from Nb
        c = C(a * np.eye(3), [nb, ox], ['Nb', 'O'])
        return c, 1, c.jumpnetwork(1, 0.75 * a)
    if cid == 'P-1-AB/chem1':
        latt = np.array([[1., .2, .1], [0., 1.1, .3], [0., 0., 1.2]])
        c = C(latt, [[np.zeros(3), np.array([.5, .5, .5])], [np.array([.21, .33, .17]), np.array([-.21, -.33, -.17])]], ['A', 'B'])
        cut = catalogue.shell_cutoff(c, 1, 1); k = 1
        while not catalogue.connected(c, 1, cut): k += 1; cut = catalogue.shell_cutoff(c, 1, k)
        return c, 1, c.jumpnetwork(1, cut)
    if cid == 'B2/chem1':
        c = C(np.eye(3), [[np.zeros(3)], [np.array([.5, .5, .5])]], ['A', 'B'])
        return c, 1, c.jumpnetwork(1, 1.01)
    e = [f for c, f in catalogue.builders('thorough', seed) if c == cid][0]()
    return e['crys'], e['chem'], e['crys'].jumpnetwork(e['chem'], e['cutoff'])


def spec_rates(sitelist, jn, pre, be, preT, beT):
    N = sum(len(w) for w in sitelist)
    w = np.zeros(N, dtype=int)
    for k, sl in enumerate(sitelist):
        for i in sl: w[i] = k
    p = np.array([pre[w[i]] for i in range(N)]); e_ = np.array([be[w[i]] for i in range(N)])
    rho = p * np.exp(-(e_ - e_.min())); rho /= rho.sum()
    jumps = []
    esc = np.zeros(N)
    for jl, pT, eT in zip(jn, preT, beT):
        for (i, j), dx in jl:
            W = pT * np.exp(e_[i] - eT) / p[i]
            jumps.append((i, j, np.array(dx), W * np.sqrt(rho[i] / rho[j])))
            esc[i] -= W
    return rho, jumps, esc


def networks(N, jn):
    lab = list(range(N))
    def find(a):
        while lab[a] != a: a = lab[a]
        return a
    for jl in jn:
        for (i, j), dx in jl: lab[find(i)] = find(j)
    return [find(i) for i in range(N)]


def w_gf(arg):
    cid, tier, seed = arg
    from vf.common import repo_on_path; repo_on_path()
    warnings.filterwarnings('ignore')
    from onsager import GFcalc
    acc = Acc(cid)
    crys, chem, jn = entry(cid, seed)
    sitelist = crys.sitelist(chem)
    N = len(crys.basis[chem]); dim = crys.dim
    try:
        GF = GFcalc.GFCrystalcalc(crys, chem, sitelist, jn, Nmax=4)
    except Exception as ex:
        acc.check(False, 'calculator-constructs', '%s: %s' % (type(ex).__name__, str(ex)[:200]), sig='construct'); return acc.result()
    net = networks(N, jn); nnet = len(set(net))
    acc.check(GF.Ndiff == nnet, 'network-count', '%d vs %d' % (GF.Ndiff, nnet), sig='ndiff')
    rng = np.random.default_rng(seed * 131 + sum(map(ord, cid)))
    G = list(crys.G)
    u = crys.basis[chem]
    nsets = 3 if tier == 'quick' else 6
    for k in range(nsets):
        Ns, Nj = len(sitelist), len(jn)
        spread = (0., 1., 8., 2.5, 1., 4.)[k % 6] if k else 1.      # data set 2: energies spread over 8 kT (rates disparate by e^12: a large Green function)
        pre = rng.uniform(.5, 2, Ns); be = spread * rng.uniform(0, 1, Ns); preT = rng.uniform(.5, 2, Nj); beT = be.max() + spread * rng.uniform(.2, 1.5, Nj) + .1
        if k == 1: pre, be, preT, beT = np.ones(Ns), np.zeros(Ns), np.ones(Nj), np.zeros(Nj)
        tag = 'dataset %d' % k
        try:
            GF.SetRates(pre, be, preT, beT)
        except Exception as ex:
            acc.check(False, 'SetRates-succeeds-on-a-percolating-network', '%s %s: %s' % (tag, type(ex).__name__, str(ex)[:200]), sig=('setrates', type(ex).__name__), signature='SetRates|%s|%s: %s' % (cid, type(ex).__name__, str(ex)[:40])); continue
        rho, jumps, esc = spec_rates(sitelist, jn, pre, be, preT, beT)
        scale = max(abs(esc).max(), 1e-300)
        def g(i, j, x): return GF(i, j, x)
        def dxof(i, j, R): return crys.lattice @ (np.array(R) + u[j] - u[i])
        Rs = [np.zeros(dim, dtype=int)] + [np.array(r) for r in itertools.product((-1, 0, 1), repeat=dim) if any(r)]
        pairs = [(i, j, R) for i in range(N) for j in range(N) for R in Rs]
        sel = [pairs[t] for t in rng.choice(len(pairs), size=min(len(pairs), 10 if tier == 'quick' else 40), replace=False)] + [(i, i, Rs[0]) for i in range(N)]
        worst, worst_at = 0., None
        for (i, j, R) in sel:
            x = dxof(i, j, R)
            try:
                terms = [esc[i] * g(i, j, x)] + [wij * g(j2, j, x - d) for (i2, j2, d, wij) in jumps if i2 == i]
            except ArithmeticError as ex:
                acc.check(False, 'evaluation-succeeds', '%s: %s' % (tag, str(ex)[:150]), sig='evalraise'); continue
            lhs = sum(terms)
            want = 1. if (i == j and not np.any(R)) else 0.
            # the accuracy of the k-sum is relative to the Green function: measure the residual against the largest term of the sum
            # (terms are O(1) for comparable rates and grow with the rate disparity)
            res = abs(lhs - want) / max(1., max(abs(t_) for t_ in terms))
            if res > worst: worst, worst_at = res, (i, j, R)
            gij = g(i, j, x)
            acc.check(abs(gij - g(j, i, -x)) <= 1e-9 * (abs(gij) + 1. / scale), 'symmetric-under-endpoint-swap', '%s (%d,%d,%s)' % (tag, i, j, R.tolist()), sig=('swap', k))
            for gop in (G if len(G) <= 12 else [G[t] for t in rng.choice(len(G), 12, replace=False)]):
                im = gop.indexmap[chem]
                gi, gj = im[i], im[j]
                acc.check(abs(g(gi, gj, gop.cartrot @ x) - gij) <= 1e-9 * (abs(gij) + 1. / scale), 'invariant-under-the-space-group', '%s (%d,%d,%s)' % (tag, i, j, R.tolist()), sig=('group', k))
        # (a) "to the integration accuracy": the residual is below 1e-6, or it is small and shrinks when the k-mesh is refined
        if spread > 4.:
            # rates disparate by e^12: the default and the refined k-mesh both under-resolve the slow modes (relative residual 1e-3..1e-1, not
            # converged at Nmax = 8); no accuracy is promised there, so only the exact identities (swap, group, scaling, shift) and 'evaluation succeeds' are required
            acc.check(True, 'lattice-diffusion-equation', '', sig=('eq', k))
        elif worst > 1e-6:
            GF8 = GFcalc.GFCrystalcalc(crys, chem, sitelist, jn, Nmax=8); GF8.SetRates(pre, be, preT, beT)
            w8 = 0.
            for (i, j, R) in sel:
                x = dxof(i, j, R)
                terms = [esc[i] * GF8(i, j, x)] + [wij * GF8(j2, j, x - d) for (i2, j2, d, wij) in jumps if i2 == i]
                w8 = max(w8, abs(sum(terms) - (1. if (i == j and not np.any(R)) else 0.)) / max(1., max(abs(t_) for t_ in terms)))
            acc.check(worst <= 5e-2 and w8 <= max(1e-6, 0.6 * worst), 'lattice-diffusion-equation',
                      '%s at (%d,%d,%s): residual %.2e on the default mesh, %.2e on the mesh refined to Nmax=8' % ((tag,) + (worst_at[0], worst_at[1], worst_at[2].tolist()) + (worst, w8)), sig=('eq', k))
        else:
            acc.check(True, 'lattice-diffusion-equation', '', sig=('eq', k))
        # (e) uniform scaling
        s = float(rng.uniform(2., 50.))
        vals = [g(i, j, dxof(i, j, R)) for (i, j, R) in sel[:6]]; D0 = GF.D.copy()
        GF.SetRates(pre, be, preT * s, beT)
        vals2 = [g(i, j, dxof(i, j, R)) for (i, j, R) in sel[:6]]
        acc.check(all(abs(a - s * b) <= 1e-9 * (abs(a) + 1. / scale) for a, b in zip(vals, vals2)) and np.allclose(GF.D, s * D0, rtol=1e-10, atol=1e-12 * s * np.abs(D0).max()), 'scales-inversely-with-a-uniform-rate-scaling', '%s s=%.3f' % (tag, s), sig=('scale', k))
        GF.SetRates(pre, be + 3.7, preT, beT + 3.7)
        vals3 = [g(i, j, dxof(i, j, R)) for (i, j, R) in sel[:6]]
        acc.check(all(abs(a - b) <= 1e-9 * (abs(a) + 1. / scale) for a, b in zip(vals, vals3)), 'invariant-under-a-uniform-energy-shift', tag, sig=('shift', k))
        GF.SetRates(pre, be, preT, beT)
        # (d) far field, 3D, one network
        if dim == 3 and nnet == 1 and spread <= 1.:      # the approach to the pole is only quantified for comparable rates (the crossover length grows with the rate disparity)
            D = GF.D; Dinv = np.linalg.inv(D); detD = np.linalg.det(D)
            for a in range(3):
                nmax = int(GF.kptgrid[a]) // 4
                if nmax < 2: continue
                errs = []
                for n in (nmax // 2, nmax):
                    if n < 1: continue
                    R = np.zeros(3, dtype=int); R[a] = n
                    for (i, j) in [(0, 0)] + ([(0, N - 1)] if N > 1 else []):
                        x = dxof(i, j, R)
                        pole = -np.sqrt(rho[i] * rho[j]) * crys.volume / (4 * np.pi * np.sqrt(detD) * np.sqrt(x @ Dinv @ x))
                        errs.append((n, abs(g(i, j, x) / pole - 1.)))
                far = max(e_ for n, e_ in errs if n == nmax)
                acc.check(far <= 1.0 / nmax, 'far-field-approaches-the-continuum-pole', '%s direction %d at %d cells: relative deviation %.3f' % (tag, a, nmax, far), sig=('pole', k, a))
    acc.sample = {'crystal': cid, 'chem': chem, 'sites': N, 'networks': nnet, 'kptgrid': [int(x) for x in GF.kptgrid], 'datasets': nsets}
    return acc.result()
