"""Run-time contracts (level B) for OnsagerCalc.Interstitial: C02 (exact long-time diffusivity), C03/C04 (interstitial
part), C11 (derivative outputs), C12 (internal friction sum rule).  Spec: the textbook full-site-basis CTMC formula
D = D0 + b^T W^+ b with numpy pinv on the N x N symmetrised rate matrix (no symmetry reduction)."""
import itertools
import numpy as np
from vf.rtc.runner import Acc


def _inhalf_(u): return u - np.round(u)


def build(e):
    from onsager import OnsagerCalc
    c, chem = e['crys'], e['chem']
    return OnsagerCalc.Interstitial(c, chem, c.sitelist(chem), c.jumpnetwork(chem, e['cutoff']))


def thermo(d, rng, spread=1.0):
    Ns, Nj = len(d.sitelist), len(d.jumpnetwork)
    pre = rng.uniform(.5, 2, Ns); be = spread * rng.uniform(-1, 2, Ns)
    preT = rng.uniform(.5, 2, Nj); beT = be.max() + spread * rng.uniform(0.2, 3, Nj)
    return pre, be, preT, beT


def site_rates(d, pre, be, preT, beT):
    """per-site data from the per-class data, independent of the calculator's helpers"""
    N = d.N
    w = np.zeros(N, dtype=int)
    for k, sl in enumerate(d.sitelist):
        for i in sl: w[i] = k
    p = np.array([pre[w[i]] for i in range(N)]); e_ = np.array([be[w[i]] for i in range(N)])
    rho = p * np.exp(-(e_ - e_.min())); rho /= rho.sum()
    jumps = []
    for jl, pT, eT in zip(d.jumpnetwork, preT, beT):
        for (i, j), dx in jl:
            jumps.append((i, j, np.array(dx), pT * np.exp(e_[i] - eT) / p[i]))
    return rho, jumps, w


def D_spec(d, pre, be, preT, beT, strain=None, sitedip=None, jumpdip=None):
    """exact long-time diffusivity of the continuous-time jump process; optionally under a small strain with energies
    coupled through dipoles (E -> E - P:eps) and displacements dx -> (1+eps) dx"""
    N, dim = d.N, d.dim
    w = np.zeros(N, dtype=int)
    for k, sl in enumerate(d.sitelist):
        for i in sl: w[i] = k
    p = np.array([pre[w[i]] for i in range(N)]); e_ = np.array([be[w[i]] for i in range(N)], dtype=float)
    if strain is not None: e_ = e_ - np.array([np.sum(sitedip[i] * strain) for i in range(N)])
    rho = p * np.exp(-(e_ - e_.min())); rho /= rho.sum()
    W = np.zeros((N, N)); b = np.zeros((N, dim)); D0 = np.zeros((dim, dim))
    for n, (jl, pT, eT) in enumerate(zip(d.jumpnetwork, preT, beT)):
        for m, ((i, j), dx) in enumerate(jl):
            dx = np.array(dx); eTT = eT
            if strain is not None:
                dx = dx + strain @ dx; eTT = eT - np.sum(jumpdip[n][m] * strain)
            r = pT * np.exp(e_[i] - eTT) / p[i]
            W[i, j] += np.sqrt(rho[i] / rho[j]) * r; W[i, i] -= r
            b[i] += np.sqrt(rho[i]) * r * dx
            D0 += 0.5 * np.outer(dx, dx) * rho[i] * r
    # pseudo-inverse with the analytically known null space (one zero mode sqrt(rho) per connected network):
    # W^+ = (W - P)^-1 + P.  A numerical pinv cuts singular values relative to the largest one and can invert roundoff
    # when fast same-site jumps cancel out of W (seen at 1e-6 relative on a two-site cell without symmetry).
    lab = list(range(N))
    def find(a):
        while lab[a] != a: a = lab[a]
        return a
    for jl in d.jumpnetwork:
        for (i, j), dx in jl: lab[find(i)] = find(j)
    P = np.zeros((N, N))
    for root in {find(i) for i in range(N)}:
        v = np.array([np.sqrt(rho[i]) if find(i) == root else 0. for i in range(N)]); v /= np.linalg.norm(v)
        P += np.outer(v, v)
    Ws = 0.5 * (W + W.T)
    s_ = abs(np.trace(Ws)) / N if N and abs(np.trace(Ws)) > 0 else 1.0     # shift the null space by the scale of the rates: W^+ = (W - s P)^-1 + P / s
    return D0 + b.T @ (np.linalg.solve(Ws - s_ * P, b) + (P @ b) / s_)


def project_invariant(T, H):
    return sum(g.cartrot @ T @ g.cartrot.T for g in H) / len(H)


def w_interstitial(arg):
    idx, tier, seed, which = arg
    from vf.common import repo_on_path; repo_on_path()
    import warnings; warnings.filterwarnings('ignore')
    from onsager import GFcalc
    from vf.rtc import catalogue
    cid, f = (catalogue.builders(tier, seed) + catalogue.interstitial_extras(tier, seed))[idx]
    e = f(); acc = Acc(cid)
    d = build(e); c = d.crys; dim = c.dim
    rng = np.random.default_rng(seed * 67 + idx)
    nsets = 3 if tier == 'quick' else 10
    gf = None
    if which == 'C02':
        try: gf = GFcalc.GFCrystalcalc(c, d.chem, d.sitelist, d.jumpnetwork, 2)
        except Exception as ex: acc.check(False, 'GF-calculator-constructs', '%s: %s' % (type(ex).__name__, ex))
    G = list(c.G)
    samesite = [k for k, jl in enumerate(d.jumpnetwork) if jl[0][0][0] == jl[0][0][1]]
    for t in range(nsets + (1 if samesite and len(samesite) < len(d.jumpnetwork) else 0)):
        pre, be, preT, beT = thermo(d, rng, spread=1.0 if t % 3 else 4.0)
        tag = 'dataset %d' % t
        if t == nsets:
            # jumps between translation images of one site 1e6 times faster than every jump between different sites
            # (they do not enter the q=0 rate matrix; the result must not depend on how they cancel there)
            beT = np.array([be.max() + (0.3 if k in samesite else 14.) + 0.1 * rng.uniform() for k in range(len(d.jumpnetwork))])
            tag = 'dataset %d (fast same-site jumps)' % t
        D = d.diffusivity(pre, be, preT, beT)
        sc = np.abs(D).max()
        if which == 'C02':
            # the same network with every rate 1e-6 / 1e-9 times slower (transition states higher by 13.8 / 20.7 kT): still exact
            rng2 = np.random.default_rng(seed * 1013 + idx * 37 + t)
            for rep_, big in [(0, 1e-6), (0, 1e-9)] + ([] if d.omega_invertible or d.NV == 0 else [(r_, b_) for r_ in range(1, 12) for b_ in (1e-7, 1e-5, 1e-3, 1e3)]):
                p2, b2, pT2, bT2 = thermo(d, rng2) if rep_ else (pre, be, preT, beT)
                Db_ = d.diffusivity(p2, b2, pT2, bT2 - np.log(big)); Dsb = D_spec(d, p2, b2, pT2, bT2 - np.log(big))
                acc.check(np.abs(Db_ - Dsb).max() <= 1e-9 * np.abs(Dsb).max(), 'diffusivity-equals-exact-long-time-diffusivity(slow rates)', '%s: all rates x %g: |D-Dspec|/|D| = %.2e (NV=%d, solver %s)' % (tag, big, np.abs(Db_ - Dsb).max() / np.abs(Dsb).max(), d.NV, 'solve' if d.omega_invertible else 'pinv'), sig=(t, 'slow', big))
            Ds = D_spec(d, pre, be, preT, beT)
            acc.check(np.abs(D - Ds).max() <= 1e-9 * sc, 'diffusivity-equals-exact-long-time-diffusivity', '%s: |D-Dspec|/|D| = %.2e (NV=%d, solver %s)' % (tag, np.abs(D - Ds).max() / sc, d.NV, 'solve' if d.omega_invertible else 'pinv'), sig=(t, 'spec'))
            if gf is not None:
                gf.D = None
                try:
                    gf.SetRates(pre, be, preT, beT)
                    acc.check(np.abs(gf.D - D).max() <= 1e-8 * sc, 'green-function-calculator-reports-the-same-diffusivity', '%s: %.2e' % (tag, np.abs(gf.D - D).max() / sc), sig=(t, 'gf'))
                except Exception as ex:
                    # an exception inside the library on a valid input is a violation; it is identified by its message and by
                    # the anisotropy class of the diffusivity so that the recorded finding (refusal above ~1e6) hides nothing else
                    ev = np.linalg.eigvalsh(0.5 * (D + D.T))
                    aniso = ev[-1] / ev[0] if ev[0] > 0 else np.inf
                    acc.check(False, 'green-function-calculator-reports-the-same-diffusivity', '%s: %s: %s (anisotropy of D %.1e)' % (tag, type(ex).__name__, str(ex)[:200], aniso),
                              signature='gf-raises:%s: %s|aniso%s3e5' % (type(ex).__name__, str(ex)[:80], '>=' if aniso >= 3e5 else '<'))
                    if gf.D is not None:
                        # the diffusivity is computed before the stage that refused: it must still be the right one
                        acc.check(np.abs(gf.D - D).max() <= 1e-8 * sc, 'green-function-calculator-diffusivity-computed-before-refusal-agrees', '%s: %.2e' % (tag, np.abs(gf.D - D).max() / sc), sig=(t, 'gfD'))
            # P-lemma companions, numerically: detailed balance and null vector
            rho = d.siteprob(pre, be); rl = d.ratelist(pre, be, preT, beT); sl = d.symmratelist(pre, be, preT, beT)
            ok = True
            for jl, rr, ss in zip(d.jumpnetwork, rl, sl):
                for ((i, j), dx), r, s_ in zip(jl, rr, ss):
                    if abs(s_ - np.sqrt(rho[i] / rho[j]) * r) > 1e-10 * (1 + abs(s_)): ok = False
            acc.check(ok and abs(rho.sum() - 1) < 1e-12, 'symmetrised-rate-is-sqrt-rho-weighted-rate', tag, sig=(t, 'symm'))
        if which == 'C03':
            acc.check(np.abs(D - D.T).max() <= 1e-9 * sc, 'diffusivity-symmetric', tag, sig=(t, 'sym'))
            acc.check(max(np.abs(g.cartrot @ D @ g.cartrot.T - D).max() for g in G) <= 1e-9 * sc, 'diffusivity-invariant-under-point-group', tag, sig=(t, 'inv'))
            acc.check(np.linalg.eigvalsh(0.5 * (D + D.T)).min() >= -1e-9 * sc, 'diffusivity-positive-semidefinite', tag, sig=(t, 'psd'))
            dip = [rng.normal(size=(dim, dim)) for _ in d.sitelist]; dipT = [rng.normal(size=(dim, dim)) for _ in d.jumpnetwork]
            dip = [0.5 * (x + x.T) for x in dip]; dipT = [0.5 * (x + x.T) for x in dipT]
            D0, Dp = d.elastodiffusion(pre, be, dip, preT, beT, dipT)
            s4 = np.abs(Dp).max()
            acc.check(np.abs(Dp - Dp.transpose(1, 0, 2, 3)).max() <= 1e-9 * s4 and np.abs(Dp - Dp.transpose(0, 1, 3, 2)).max() <= 1e-9 * s4, 'elastodiffusion-index-symmetries', tag, sig=(t, 'e-sym'))
            worst = max(np.abs(np.einsum('ai,bj,ck,dl,ijkl->abcd', g.cartrot, g.cartrot, g.cartrot, g.cartrot, Dp) - Dp).max() for g in G)
            acc.check(worst <= 1e-8 * s4, 'elastodiffusion-invariant-under-point-group', '%s: %.2e' % (tag, worst / s4), sig=(t, 'e-inv'))
        if which == 'C04':
            cshift = rng.uniform(-3, 3); s_ = rng.uniform(0.2, 5); lam = rng.uniform(0.1, 10)
            acc.check(np.abs(d.diffusivity(pre, be + cshift, preT, beT + cshift) - D).max() <= 1e-9 * sc, 'invariant-under-common-energy-shift', tag, sig=(t, 'shift'))
            acc.check(np.abs(d.diffusivity(s_ * pre, be, s_ * preT, beT) - D).max() <= 1e-9 * sc, 'invariant-under-joint-prefactor-scaling', tag, sig=(t, 'pre'))
            acc.check(np.abs(d.diffusivity(pre, be, lam * preT, beT) - lam * D).max() <= 1e-9 * lam * sc, 'scales-with-rate-factor', tag, sig=(t, 'lam'))
            # factors far from one, through the prefactors and through the transition-state energies (the same rates, reached two ways)
            # (on the pseudo-inverse branch the outcome hinges on roundoff in the null mode: many data sets and factors there)
            rng2 = np.random.default_rng(seed * 1009 + idx * 31 + t)
            for rep_ in range(1 if d.omega_invertible or d.NV == 0 else 16):
                p2, b2, pT2, bT2 = (pre, be, preT, beT) if rep_ == 0 else thermo(d, rng2)
                Dr = D if rep_ == 0 else d.diffusivity(p2, b2, pT2, bT2); scr = np.abs(Dr).max()
                for big in (1e-9, 1e-6, 1e6) if rep_ == 0 else (1e-9, 1e-7, 1e-5, 1e-3, 1e3):
                    r1 = np.abs(d.diffusivity(p2, b2, big * pT2, bT2) / big - Dr).max() / scr
                    r2 = np.abs(d.diffusivity(p2, b2, pT2, bT2 - np.log(big)) / big - Dr).max() / scr
                    acc.check(r1 <= 1e-9 and r2 <= 1e-9, 'scales-with-an-extreme-rate-factor', '%s/%d: factor %g: relative deviation %.2e via prefactors, %.2e via transition energies (NV=%d, solver %s)' % (tag, rep_, big, r1, r2, d.NV, 'solve' if d.omega_invertible else 'pinv'), sig=(t, 'big', big))
        if which == 'C11':
            D, Db = d.diffusivity(pre, be, preT, beT, CalcDeriv=True)
            h = 1e-4
            f_ = lambda b: d.diffusivity(pre, b * be, preT, b * beT)
            fd = -((8 * (f_(1 + h) - f_(1 - h)) - (f_(1 + 2 * h) - f_(1 - 2 * h))) / (12 * h))
            acc.check(np.abs(Db - fd).max() <= 1e-6 * max(np.abs(Db).max(), sc), 'barrier-output-is-minus-dD/dbeta', '%s: %.2e' % (tag, np.abs(Db - fd).max() / max(np.abs(Db).max(), sc)), sig=(t, 'Db'))
            # dipoles: arbitrary non-symmetric inputs
            dip = [rng.normal(size=(dim, dim)) for _ in d.sitelist]; dipT = [rng.normal(size=(dim, dim)) for _ in d.jumpnetwork]
            sd = d.siteDipoles(dip); jd = d.jumpDipoles(dipT)
            ok = True
            for k, sl in enumerate(d.sitelist):
                i0 = sl[0]
                H = [g for g in G if g.indexmap[d.chem][i0] == i0]
                P0 = project_invariant(0.5 * (dip[k] + dip[k].T), H)
                if not np.allclose(sd[i0], P0, atol=1e-9): ok = False
                for i in sl:
                    g = next(g for g in G if g.indexmap[d.chem][i0] == i)
                    if not np.allclose(sd[i], g.cartrot @ P0 @ g.cartrot.T, atol=1e-9): ok = False
            acc.check(ok, 'site-dipoles-are-symmetric-projection-carried-by-symmetry', tag, sig=(t, 'sdip'))
            ok = True
            key = lambda i, j, dx: (i, j) + tuple(np.round(dx, 6) + 0.)
            for k, jl in enumerate(d.jumpnetwork):
                (i0, j0), dx0 = jl[0]
                H = [g for g in G if (g.indexmap[d.chem][i0] == i0 and g.indexmap[d.chem][j0] == j0 and np.allclose(g.cartrot @ dx0, dx0, atol=1e-7)) or
                     (g.indexmap[d.chem][i0] == j0 and g.indexmap[d.chem][j0] == i0 and np.allclose(g.cartrot @ dx0, -dx0, atol=1e-7))]
                P0 = project_invariant(0.5 * (dipT[k] + dipT[k].T), H)
                if not np.allclose(jd[k][0], P0, atol=1e-9): ok = False
                for m, ((i, j), dx) in enumerate(jl):
                    gs = [g for g in G if (g.indexmap[d.chem][i0] == i and g.indexmap[d.chem][j0] == j and np.allclose(g.cartrot @ dx0, dx, atol=1e-7)) or
                          (g.indexmap[d.chem][i0] == j and g.indexmap[d.chem][j0] == i and np.allclose(g.cartrot @ dx0, -dx, atol=1e-7))]
                    if not gs or not np.allclose(jd[k][m], gs[0].cartrot @ P0 @ gs[0].cartrot.T, atol=1e-9): ok = False
            acc.check(ok, 'jump-dipoles-are-symmetric-projection-carried-by-symmetry', tag, sig=(t, 'jdip'))
            # elastodiffusion vs finite differences of the exact diffusivity under strain
            D0, Dp = d.elastodiffusion(pre, be, dip, preT, beT, dipT)
            # five-point stencil at h = 1e-3: truncation ~ h^4 f^(5) / 30 (1e-10 relative), roundoff of the ill-conditioned
            # reference solve (rates spread over e^12) divided by h stays below 1e-8; a two-point 1e-5 stencil sat at the 1e-6 bound
            h = 1e-3; worst = 0.
            for a, b in itertools.combinations_with_replacement(range(dim), 2):
                eps = np.zeros((dim, dim)); eps[a, b] += 0.5; eps[b, a] += 0.5
                Ds_ = lambda x: D_spec(d, pre, be, preT, beT, x * eps, sd, jd)
                fdD = (8 * (Ds_(h) - Ds_(-h)) - (Ds_(2 * h) - Ds_(-2 * h))) / (12 * h)
                got = 0.5 * (Dp[:, :, a, b] + Dp[:, :, b, a])
                worst = max(worst, np.abs(got - fdD).max())
            acc.check(worst <= 1e-6 * max(np.abs(Dp).max(), sc), 'elastodiffusion-is-strain-derivative-of-diffusivity', '%s: %.2e' % (tag, worst / max(np.abs(Dp).max(), sc)), sig=(t, 'elasto'))
        if which == 'C12' and t == nsets - 1:
            beT = beT + 24.          # every transition state 24 kT higher: all rates ~ 4e-11 of the first data sets (what counts as a mode is a matter of rate RATIOS)
            tag = tag + ' (all rates x exp(-24))'
        if which == 'C12':
            dip = [rng.normal(size=(dim, dim)) for _ in d.sitelist]
            LL = d.losstensors(pre, be, dip, preT, beT)
            rho, jumps, w = site_rates(d, pre, be, preT, beT)
            N = d.N
            W = np.zeros((N, N))
            for (i, j, dx, r) in jumps:
                W[i, j] += np.sqrt(rho[i] / rho[j]) * r; W[i, i] -= r
            ev = -np.linalg.eigvalsh(0.5 * (W + W.T)); avg = abs(np.trace(W)) / N
            nz = [x for x in ev if abs(x) > 1e-8 * avg]
            sd = d.siteDipoles(dip)
            for lam, L in LL:
                acc.check(lam > 0, 'mode-rate-positive', '%s: %r' % (tag, lam), sig=(t, 'pos'))
                acc.check(any(abs(lam - x) <= 1e-9 * max(abs(x), avg) for x in nz), 'mode-rate-is-a-nonzero-eigenvalue-of-the-symmetrised-rate-matrix', '%s: %r not in %r' % (tag, lam, np.round(nz, 6).tolist()), sig=(t, 'eig'))
                s4 = max(np.abs(L).max(), 1e-300)
                acc.check(np.abs(L - L.transpose(1, 0, 2, 3)).max() <= 1e-9 * s4 + 1e-14 and np.abs(L - L.transpose(2, 3, 0, 1)).max() <= 1e-9 * s4 + 1e-14, 'loss-tensor-has-compliance-symmetries', tag, sig=(t, 'Lsym'))
                M = L.reshape(dim * dim, dim * dim)
                acc.check(np.linalg.eigvalsh(0.5 * (M + M.T)).min() >= -1e-9 * s4 - 1e-14, 'loss-tensor-positive-semidefinite', tag, sig=(t, 'Lpsd'))
            # every distinct non-zero eigenvalue is reported
            distinct = []
            for x in sorted(nz):
                if not distinct or abs(x - distinct[-1]) > 1e-7 * max(abs(x), avg): distinct.append(x)
            # one entry per distinct relaxation rate (modes that carry no dipole fluctuation may be omitted or listed with a zero tensor,
            # but no rate may be listed twice and no mode that carries weight may be missing -- the sum rule below)
            lams = sorted(lam for lam, L in LL)
            acc.check(all(b - a > 1e-7 * max(abs(b), avg) for a, b in zip(lams, lams[1:])), 'each-relaxation-rate-listed-once', '%s: %r' % (tag, np.round(lams, 8).tolist()), sig=(t, 'once'))
            tot = sum(L for lam, L in LL) if LL else np.zeros((dim,) * 4)
            avgP = np.tensordot(rho, sd, 1)
            want = np.einsum('i,iab,icd->abcd', rho, sd, sd) - np.einsum('ab,cd->abcd', avgP, avgP)
            acc.check(np.abs(tot - want).max() <= 1e-9 * max(np.abs(want).max(), 1e-12) + 1e-13, 'loss-tensors-sum-to-the-equilibrium-dipole-fluctuation',
                      '%s: %.2e' % (tag, np.abs(tot - want).max() / max(np.abs(want).max(), 1e-300)), sig=(t, 'sum'))
    if which == 'C04' and d.NV > 0:
        # clause (d): sites displaced inside the cell along a symmetry-invariant vector field (so the space group, the Wyckoff sets and
        # the jump topology are unchanged) with the same rates: the long-time diffusivity only knows lattice translations
        from onsager import crystal as _cr, OnsagerCalc as _oc
        chem = d.chem
        jl_latt = c.jumpnetwork2lattice(chem, d.jumpnetwork)
        for a in range(min(d.NV, 3)):
            V = np.array(d.VectorBasis[a]); V = V / np.abs(V).max()
            eps = 0.02 * min(np.linalg.norm(c.lattice, axis=0))
            newb = [[np.array(u) for u in b] for b in c.basis]
            for i in range(d.N): newb[chem][i] = newb[chem][i] + eps * (c.invlatt @ V[i])
            try:
                c2 = _cr.Crystal(c.lattice, newb, list(c.chemistry), noreduce=True)
                shift = c2.basis[chem][0] - newb[chem][0]
                same_order = all(np.allclose(_inhalf_(c2.basis[cc][i] - newb[cc][i] - shift), 0, atol=1e-9) for cc in range(len(newb)) for i in range(len(newb[cc])))
                if not (same_order and len(c2.G) == len(c.G)): continue
                jn2 = [[((i, j), c2.lattice @ (R + c2.basis[chem][j] - c2.basis[chem][i])) for (i, j), R in jl] for jl in jl_latt]
                d2 = _oc.Interstitial(c2, chem, d.sitelist, jn2)
                pre, be, preT, beT = thermo(d, rng)
                D1, D2 = d.diffusivity(pre, be, preT, beT), d2.diffusivity(pre, be, preT, beT)
                dev = np.abs(D1 - D2).max() / np.abs(D1).max()
                acc.check(dev <= 1e-9, 'invariant-under-symmetry-preserving-site-displacement', 'sites moved by %.3f along invariant field %d: relative change of D %.2e' % (eps, a, dev), sig=('disp', a))
            except Exception as ex:
                acc.check(False, 'invariant-under-symmetry-preserving-site-displacement', 'field %d: %s: %s' % (a, type(ex).__name__, str(ex)[:200]), sig=('disp-exc', a))
    if which == 'C02':
        # a jump network that was not produced by Crystal.jumpnetwork in this session (recomputed from lattice vectors, read back from
        # text): every dx carries independent roundoff, so a jump and its reverse are opposite only to ~1e-16
        from onsager import OnsagerCalc as _oc
        rngn = np.random.default_rng(seed * 977 + idx)
        jl_latt = c.jumpnetwork2lattice(d.chem, d.jumpnetwork)
        jn_re = [[((i, j), c.lattice @ (R + c.basis[d.chem][j] - c.basis[d.chem][i])) for (i, j), R in jl] for jl in jl_latt]
        jn_noise = [[((i, j), dx * (1 + 2e-16 * rngn.integers(-2, 3, size=len(dx)))) for (i, j), dx in jl] for jl in d.jumpnetwork]
        for nm_, jn_ in (('recomputed-from-lattice-vectors', jn_re), ('last-bit-noise', jn_noise)):
            dn = _oc.Interstitial(c, d.chem, d.sitelist, jn_)
            for rep_ in range(3):
                pre, be, preT, beT = thermo(d, rng)
                Dn_ = dn.diffusivity(pre, be, preT, beT); Dsn = D_spec(dn, pre, be, preT, beT); scn = np.abs(Dsn).max()
                acc.check(np.abs(Dn_ - Dsn).max() <= 1e-9 * scn, 'diffusivity-equals-exact-long-time-diffusivity(network with roundoff-level noise)',
                          '%s: |D-Dspec|/|D| = %.2e (NV=%d, solver %s)' % (nm_, np.abs(Dn_ - Dsn).max() / scn, dn.NV, 'solve' if dn.omega_invertible else 'pinv'), sig=('noise', nm_, rep_))
        # the result is a function of (crystal, network, data): calculators built later on the SAME Crystal object (whatever the
        # crystal has cached or handed out in between) must give the same exact diffusivity
        pre, be, preT, beT = thermo(d, rng)
        for k in (2, 3):
            dk = build(e)
            Dk = dk.diffusivity(pre, be, preT, beT); Ds = D_spec(dk, pre, be, preT, beT); sc = np.abs(Ds).max()
            acc.check(np.abs(Dk - Ds).max() <= 1e-9 * sc, 'calculator-number-%d-on-the-same-crystal-object-is-exact' % k, '|D-Dspec|/|D| = %.2e (NV=%d)' % (np.abs(Dk - Ds).max() / sc, dk.NV), sig=('again', k))
    acc.sample = {'crystal': cid, 'sites': d.N, 'NV': d.NV, 'bias_solver': 'solve' if d.omega_invertible else 'pinv', 'datasets': nsets, 'property': which}
    return acc.result()
