"""Run-time contracts (level B) for onsager/crystal.py: C18 (symmetry group), C19 (reduction), C20 (site symmetry),
C21 (jump networks), C22 (k-point meshes).  Spec functions are written independently of the code under test
(brute-force orbit / window enumeration, character formulas)."""
import itertools, sys
from functools import reduce
import numpy as np
from vf.rtc.runner import Acc


def _inhalf(v):
    v = np.asarray(v, dtype=float)
    return v - np.round(v)


# ----------------------------------------------------------------------------------------- C18
def spin_image(g, s):
    det = round(np.linalg.det(g.rot))
    return det * s if np.ndim(s) == 0 else np.dot(g.cartrot, s)


def group_contract(acc, c, tag=''):
    """every reported operation is a lattice-preserving isometry mapping atoms to atoms of the same species (and spin,
    up to one global phase per operation) with the recorded permutation; the set is a group modulo lattice translations"""
    G = list(c.G); dim = c.dim; tol = 1e-6
    thr = max(10 * c.threshold, 1e-7)
    def same(p, h):
        return p.rot.shape == h.rot.shape and np.all(p.rot == h.rot) and np.allclose(_inhalf(p.trans - h.trans), 0, atol=thr) and p.indexmap == h.indexmap
    for g in G:
        ok_shape = g.rot.shape == (dim, dim) and g.cartrot.shape == (dim, dim) and g.trans.shape == (dim,)
        acc.check(ok_shape, 'operation-has-crystal-dimension', 'rot %r in a %d-dimensional crystal%s' % (g.rot.shape, dim, tag), sig=('shape', tag))
        if not ok_shape: return
        acc.check(np.issubdtype(g.rot.dtype, np.integer) and abs(abs(round(np.linalg.det(g.rot))) - 1) == 0, 'rot-integer-unimodular', str(g.rot))
        acc.check(np.allclose(g.cartrot.T @ g.cartrot, np.eye(dim), atol=tol), 'cartrot-is-isometry', str(g.cartrot))
        acc.check(np.allclose(g.cartrot @ c.lattice, c.lattice @ g.rot, atol=tol), 'maps-lattice-onto-itself', '')
        acc.check(len(g.indexmap) == len(c.basis), 'indexmap-one-entry-per-species', 'len %d vs %d species' % (len(g.indexmap), len(c.basis)))
        if len(g.indexmap) != len(c.basis): continue
        phases = None
        for ci, atoms in enumerate(c.basis):
            perm_ok = sorted(g.indexmap[ci]) == list(range(len(atoms)))
            acc.check(perm_ok, 'indexmap-is-permutation', '%r' % (g.indexmap[ci],))
            if not perm_ok: continue
            for i, u in enumerate(atoms):
                d = _inhalf(g.rot @ u + g.trans - atoms[g.indexmap[ci][i]])
                acc.check(np.allclose(d, 0, atol=thr), 'atom-maps-onto-recorded-atom',
                          'species %d atom %d -> %d residual %r' % (ci, i, g.indexmap[ci][i], d), sig=('geom', ci))
        if c.spins is not None and len(g.indexmap) == len(c.basis):
            # one global phase per operation
            cand = None; ok = True
            for ci, atoms in enumerate(c.basis):
                if sorted(g.indexmap[ci]) != list(range(len(atoms))): ok = False; break
                for i in range(len(atoms)):
                    s_img = spin_image(g, c.spins[ci][i]); s_tgt = c.spins[ci][g.indexmap[ci][i]]
                    if np.allclose(s_img, 0, atol=1e-8):
                        if not np.allclose(s_tgt, 0, atol=1e-8): ok = False
                        continue
                    k = int(np.argmax(np.abs(s_img)))
                    ph = (np.ravel(s_tgt)[k] if np.ndim(s_tgt) else s_tgt) / (np.ravel(s_img)[k] if np.ndim(s_img) else s_img)
                    if cand is None: cand = ph
                    if abs(abs(ph) - 1) > 1e-6 or not np.allclose(cand * s_img, s_tgt, atol=1e-6): ok = False
            acc.check(ok, 'spins-preserved-up-to-one-phase', 'operation rot=%s' % g.rot.tolist(), sig=('spin',))
    ident = [g for g in G if np.all(g.rot == np.eye(dim, dtype=int)) and np.allclose(_inhalf(g.trans), 0, atol=thr)]
    acc.check(len(ident) >= 1, 'identity-in-group', '')
    closed = inv = True
    for g in G:
        if not any(same(g.inv(), h) for h in G): inv = False
        for h in G:
            if not any(same(g * h, k) for k in G):
                closed = False; break
    acc.check(inv, 'closed-under-inverse', '|G|=%d%s' % (len(G), tag), sig=('inv', len(G)))
    acc.check(closed, 'closed-under-product', '|G|=%d%s' % (len(G), tag), sig=('closed', len(G)))


def c18_extras(seed, tier):
    """(label, thunk) crystals specific to C18: spins, glides with several species, NOSYM, strains, 2D"""
    from onsager import crystal
    C = crystal.Crystal
    HEX = np.array([[0.5, 0.5, 0], [-np.sqrt(0.75), np.sqrt(0.75), 0], [0, 0, 1.6]])
    out = []
    out.append(('AFM-bcc-scalar-spins', lambda: C(np.eye(3), [[np.zeros(3), .5 * np.ones(3)]], spins=[[1, -1]])))
    out.append(('collinear-vector-spins', lambda: C(np.eye(3), [[np.zeros(3), .5 * np.ones(3)]], spins=[[np.array([0, 0, 1.]), np.array([0, 0, -1.])]])))
    def threefold(dim, sense=1):
        th = [0, sense * 2 * np.pi / 3, sense * 4 * np.pi / 3]
        if dim == 3:
            pos = [np.array([0.2, 0.4, 0.]), np.array([-0.4, -0.2, 0.]), np.array([0.2, -0.2, 0.])]   # orbit of a 3-fold axis in hex coordinates
            latt = HEX
            spins = [np.array([np.cos(t + 0.3), np.sin(t + 0.3), 0.]) for t in th]
        else:
            pos = [np.array([0.2, 0.4]), np.array([-0.4, -0.2]), np.array([0.2, -0.2])]
            latt = HEX[:2, :2]
            spins = [np.array([np.cos(t + 0.3), np.sin(t + 0.3)]) for t in th]
        return C(latt, [pos], spins=[spins])
    out.append(('noncollinear-vector-spins-3fold-3D', lambda: threefold(3)))
    out.append(('noncollinear-vector-spins-3fold-2D', lambda: threefold(2)))
    out.append(('counter-rotating-vector-spins-3fold-3D', lambda: threefold(3, -1)))
    out.append(('counter-rotating-vector-spins-3fold-2D', lambda: threefold(2, -1)))
    def bodyglide(order, third=False):
        # species A on special positions (invariant under several candidate translations), species B only under the true glide
        x = 0.17
        A = [np.array([0., 0., 0.]), np.array([.5, .5, .5])]
        B = [np.array([x, 0., 0.]), np.array([.5 - x, .5, .5])]
        Cc = [np.array([x, 0.1, 0.]), np.array([.5 - x, .6, .5])]
        basis = {'AB': [A, B], 'BA': [B, A], 'ACB': [A, Cc, B], 'AC': [A, Cc]}[order]
        return C(np.diag([1., 1.3, 1.7]), basis)
    for order in ('AB', 'BA', 'ACB', 'AC'):
        out.append(('n-glide-special-positions-' + order, (lambda order=order: bodyglide(order))))
    def glide2d_special():
        x = 0.17
        return C(np.diag([1., 1.3]), [[np.array([0., 0.]), np.array([.5, .5])], [np.array([x, 0.1]), np.array([.5 - x, .6])]])
    out.append(('glide-2D-special-positions', glide2d_special))
    # three sublattices carrying the three cube roots of unity: the translation from one sublattice to the next is a symmetry with
    # phase exp(2 pi i / 3), and three-fold phases are needed for two-fold operations as well
    out.append(('complex-scalar-spins-cube-roots-on-three-sublattices', lambda: C(HEX, [[np.zeros(3), np.array([1 / 3, 2 / 3, 0.]), np.array([2 / 3, 1 / 3, 0.])]],
                                                                           spins=[[1., np.exp(2j * np.pi / 3), np.exp(4j * np.pi / 3)]])))
    out.append(('complex-scalar-spins', lambda: C(HEX, [[np.array([1 / 3, 2 / 3, .25]), np.array([2 / 3, 1 / 3, .75])]], spins=[[1, np.exp(2j * np.pi / 3)]])))
    def nglide(nspecies):
        gl = lambda u: np.array([u[0] + 0.5, -u[1], u[2] + 0.5])
        a, b1, b2 = np.array([0.11, 0.17, 0.05]), np.array([0.31, 0.28, 0.22]), np.array([0.07, 0.41, 0.36])
        basis = [[a, gl(a)], [b1, gl(b1), b2, gl(b2)]]
        if nspecies == 3: basis.append([np.array([0.4, 0.09, 0.13]), gl(np.array([0.4, 0.09, 0.13]))])
        return C(np.diag([1., 1.23, 1.41]), basis)
    out.append(('n-glide-two-species', lambda: nglide(2)))
    out.append(('n-glide-three-species', lambda: nglide(3)))
    def glide2d():
        gl = lambda u: np.array([u[0] + 0.5, -u[1]])
        a, b1, b2 = np.array([0.11, 0.17]), np.array([0.31, 0.28]), np.array([0.07, 0.41])
        return C(np.diag([1., 1.3]), [[a, gl(a)], [b1, gl(b1), b2, gl(b2)]])
    out.append(('glide-line-2D-two-species', glide2d))
    def rutile(order='TiO'):
        u = 0.305
        Ti = [np.zeros(3), .5 * np.ones(3)]
        O = [np.array([u, u, 0.]), np.array([-u, -u, 0.]), np.array([.5 + u, .5 - u, .5]), np.array([.5 - u, .5 + u, .5])]
        return C(np.diag([1., 1., 0.64]), [Ti, O] if order == 'TiO' else [O, Ti], chemistry=list(('Ti', 'O') if order == 'TiO' else ('O', 'Ti')))
    out.append(('rutile-TiO', lambda: rutile('TiO')))
    out.append(('rutile-OTi', lambda: rutile('OTi')))
    out.append(('NOSYM-2D-two-atoms', lambda: C(np.eye(2), [[np.zeros(2), np.array([0.3, 0.1])]], NOSYM=True)))
    out.append(('NOSYM-2D-one-atom', lambda: C(np.eye(2), [[np.zeros(2)]], NOSYM=True)))
    out.append(('NOSYM-3D', lambda: C(np.eye(3), [[np.zeros(3), np.array([0.3, 0.1, 0.2])]], NOSYM=True)))
    out.append(('square2D-two-species', lambda: C(np.eye(2), [[np.zeros(2)], [np.array([.5, .5])]])))
    # descriptions kept as given (noreduce=True) whose cell vectors are not the shortest ones: the symmetry search must still return a group
    out.append(('noreduce-sheared-cubic', lambda: C(np.array([[1., 1, 0], [0, 1, 0], [0, 0, 1]]).T, [[np.zeros(3)]], noreduce=True)))
    out.append(('noreduce-sheared-square-2D', lambda: C(np.array([[1., 1], [0, 1]]).T, [[np.zeros(2)]], noreduce=True)))
    out.append(('noreduce-sheared-tetragonal-two-atoms', lambda: C(np.array([[1., 0, 0], [1, 1, 0], [0, 0, 1.4]]).T, [[np.zeros(3), np.array([.5, .5, .5])]], noreduce=True)))
    out.append(('noreduce-doubly-sheared-cubic', lambda: C(np.array([[1., 2, 0], [0, 1, 0], [0, 1, 1]]).T, [[np.zeros(3)]], noreduce=True)))
    rng = np.random.default_rng(seed + 5)
    for k in range(2 if tier == 'quick' else 8):
        base = [C.FCC(1.), C.HCP(1.), C(np.eye(2), [[np.zeros(2)]]), C(np.eye(3), [[np.zeros(3)], [.5 * np.ones(3)]])][k % 4]
        eps = 1e-3 * rng.normal(size=(base.dim, base.dim))
        out.append(('strained-%d' % k, (lambda base=base, eps=eps: base.strain(eps))))
    return out


def w_group(arg):
    kind, idx, tier, seed = arg
    from vf.common import repo_on_path; repo_on_path()
    import warnings; warnings.filterwarnings('ignore')
    from vf.rtc import catalogue
    if kind == 'cat':
        cid, f = catalogue.builders(tier, seed)[idx]
        acc = Acc(cid); c = f()['crys']
    else:
        cid, f = c18_extras(seed, tier)[idx]
        acc = Acc(cid)
        try:
            c = f()
        except Exception as ex:
            acc.check(False, 'crystal-constructs', '%s: %s' % (type(ex).__name__, ex), sig='construct')
            return acc.result()
    group_contract(acc, c)
    # the crystal owns its data: a later in-place edit of the arrays it was built from (a user scanning a lattice parameter in a
    # loop, say) must not reach it -- the operations were computed for the lattice it had at construction
    try:
        from onsager import crystal as _cr
        latt_in = np.array(c.lattice); basis_in = [[np.array(u) for u in b] for b in c.basis]
        kw = {} if c.spins is None else {'spins': [[np.array(x) if np.ndim(x) else x for x in sp] for sp in c.spins]}
        c2 = _cr.Crystal(latt_in, basis_in, list(c.chemistry), **kw)
        snap = (c2.lattice.copy(), [[u.copy() for u in b] for b in c2.basis], c2.invlatt.copy(), c2.metric.copy())
        latt_in[-1, -1] *= 1.37; latt_in[0, -1] += 0.11
        for b in basis_in:
            for u in b: u += 0.123
        same = np.array_equal(c2.lattice, snap[0]) and all(np.array_equal(u, v) for b1, b2 in zip(c2.basis, snap[1]) for u, v in zip(b1, b2)) and \
            np.array_equal(c2.invlatt, snap[2]) and np.array_equal(c2.metric, snap[3])
        acc.check(same, 'crystal-unaffected-by-later-edits-of-the-arrays-it-was-built-from', '', sig='owns')
        if len(c2.G) == len(c.G): group_contract(acc, c2, tag='(rebuilt from arrays that were then edited in place) ')
    except Exception as ex:
        acc.check(False, 'crystal-unaffected-by-later-edits-of-the-arrays-it-was-built-from', 'rebuilding raised %s: %s' % (type(ex).__name__, str(ex)[:200]), sig='owns')
    acc.sample = {'crystal': cid, 'dim': c.dim, 'atoms': c.N, 'group_order': len(c.G), 'spins': c.spins is not None,
                  'checked': 'isometry, lattice map, atom map = indexmap, spins, identity, closure under product and inverse'}
    return acc.result()


# ----------------------------------------------------------------------------------------- C20
def char_dims(H):
    """dimension of the invariant vector / symmetric-tensor space of a finite group of isometries (character formula)"""
    dv = sum(np.trace(g.cartrot) for g in H) / len(H)
    dt = sum(0.5 * (np.trace(g.cartrot) ** 2 + np.trace(g.cartrot @ g.cartrot)) for g in H) / len(H)
    return int(round(dv)), int(round(dt))


def basis_contract(acc, H, vlist, tlist, where, sig):
    dv, dt = char_dims(H)
    acc.check(len(vlist) == dv, 'vector-basis-dimension', '%s: %d vectors, invariant space has dimension %d' % (where, len(vlist), dv), sig=sig + ('vdim', dv))
    acc.check(all(np.allclose(g.cartrot @ v, v, atol=1e-8) for g in H for v in vlist), 'vector-basis-invariant', where, sig=sig + ('vinv',))
    if vlist:
        acc.check(np.allclose(np.array([[a @ b for b in vlist] for a in vlist]), np.eye(len(vlist)), atol=1e-8), 'vector-basis-orthonormal', where)
    acc.check(len(tlist) == dt, 'tensor-basis-dimension', '%s: %d tensors, invariant space has dimension %d' % (where, len(tlist), dt), sig=sig + ('tdim', dt))
    acc.check(all(np.allclose(g.cartrot @ t @ g.cartrot.T, t, atol=1e-8) for g in H for t in tlist), 'tensor-basis-invariant', where, sig=sig + ('tinv',))
    acc.check(all(np.allclose(t, t.T, atol=1e-10) for t in tlist), 'tensor-basis-symmetric', where)
    if tlist:
        acc.check(np.allclose(np.array([[np.sum(a * b) for b in tlist] for a in tlist]), np.eye(len(tlist)), atol=1e-8), 'tensor-basis-orthonormal', where)


def site_contract(acc, c, cid, rng):
    from onsager import crystal
    thr = max(10 * c.threshold, 1e-7)
    # point groups fix their site with zero lattice shift
    for ci, atoms in enumerate(c.basis):
        for i, u in enumerate(atoms):
            H = list(c.pointG[ci][i])
            acc.check(all(np.allclose(g.rot @ u + g.trans, u, atol=thr) for g in H), 'point-group-fixes-site', '%s site (%d,%d)' % (cid, ci, i), sig=('fix', ci))
            stab = [g for g in c.G if g.indexmap[ci][i] == i]
            acc.check(len(H) == len(stab), 'point-group-is-the-full-stabiliser', '(%d,%d): %d vs %d' % (ci, i, len(H), len(stab)))
            vb = c.VectorBasis((ci, i))
            basis_contract(acc, H, c.vectlist(vb), c.SymmTensorBasis((ci, i)), '%s site (%d,%d) |H|=%d' % (cid, ci, i, len(H)), (cid, ci))
    # Wyckoff sets == orbits (brute force through geometry, not through indexmap)
    orbits = set()
    for ci, atoms in enumerate(c.basis):
        for i, u in enumerate(atoms):
            orb = set()
            for g in c.G:
                v = g.rot @ u + g.trans
                for j, w in enumerate(atoms):
                    if np.allclose(_inhalf(v - w), 0, atol=thr): orb.add((ci, j))
            orbits.add(frozenset(orb))
    acc.check(set(c.Wyckoff) == orbits, 'wyckoff-sets-are-orbits', '%r vs %r' % (sorted(map(sorted, c.Wyckoff)), sorted(map(sorted, orbits))), sig=('wy',))
    # Wyckoffpos: complete orbit without duplicates; adding it keeps the group
    # probe positions: a general one, a quarter-grid one, and special positions (points of the half-grid on the cell faces, the
    # fixed points of individual operations, midpoints between an atom and its images) where images land exactly on a cell face
    probes = [rng.uniform(0.05, 0.45, c.dim), np.round(rng.uniform(0, 1, c.dim) * 4) / 4]
    half = [np.array(h) / 2. for h in itertools.product((0, 1), repeat=c.dim)]
    probes += [half[k] for k in rng.permutation(len(half))[:3]]
    Gl = sorted(c.G, key=lambda g: (g.rot.tobytes(), tuple(np.round(g.trans, 6))))
    for g in [Gl[k] for k in rng.permutation(len(Gl))[:6]]:
        A = g.rot - np.eye(c.dim); sol = np.linalg.lstsq(A, -g.trans, rcond=None)[0]
        if np.abs(A @ sol + g.trans).max() < 1e-9: probes.append(sol - np.floor(sol + 1e-9))
    u0 = c.basis[0][0]
    for g in [Gl[k] for k in rng.permutation(len(Gl))[:3]]:
        m = 0.5 * (u0 + g.rot @ u0 + g.trans); probes.append(m - np.floor(m + 1e-9))
    for trial, u in enumerate(probes):
        pos = c.Wyckoffpos(u)
        spec = []
        for g in c.G:
            v = g.rot @ u + g.trans
            if not any(np.allclose(_inhalf(v - w), 0, atol=thr) for w in spec): spec.append(v)
        acc.check(len(pos) == len(spec) and all(any(np.allclose(_inhalf(v - w), 0, atol=thr) for w in pos) for v in spec),
                  'wyckoffpos-is-complete-orbit-without-duplicates', 'u=%r: %d positions, orbit has %d' % (u, len(pos), len(spec)), sig=('wp', len(spec)))
        acc.check(all(np.abs(_inhalf(v - w)).max() > 10 * thr for a, v in enumerate(pos) for w in pos[:a]), 'wyckoffpos-lists-no-position-twice-modulo-the-lattice',
                  'u=%r: %d positions' % (u, len(pos)), sig=('wpdup', trial))
        if trial >= 4 and trial % 3: continue
        try:
            c2 = c.addbasis(pos, ['Zz'])
            acc.check(len(c2.G) == len(c.G), 'adding-full-orbit-keeps-symmetry', 'u=%r |G| %d -> %d' % (u, len(c.G), len(c2.G)), sig=('add',))
        except Exception as ex:
            acc.check(False, 'adding-full-orbit-keeps-symmetry', 'addbasis raised %s: %s' % (type(ex).__name__, ex))
    # FullVectorBasis: orthonormal, equivariant
    for ci in range(len(c.basis)):
        VB, VV = c.FullVectorBasis(ci)
        if len(VB) == 0: continue
        gram = np.array([[np.sum(a * b) for b in VB] for a in VB])
        acc.check(np.allclose(gram, np.eye(len(VB)), atol=1e-8), 'full-vector-basis-orthonormal', 'species %d' % ci, sig=('fvb', ci))
        ok = True
        for g in c.G:
            for vb in VB:
                for i in range(len(c.basis[ci])):
                    if not np.allclose(g.cartrot @ vb[i], vb[g.indexmap[ci][i]], atol=1e-8): ok = False
        acc.check(ok, 'full-vector-basis-equivariant', 'species %d' % ci)


def subgroups(ops, dim):
    key = lambda g: g.rot.tobytes()
    elems = {key(g): g for g in ops}
    ident = [g for g in ops if np.all(g.rot == np.eye(dim, dtype=int))][0]
    def close(gens):
        S = {key(g): g for g in gens}; S[key(ident)] = ident
        changed = True
        while changed:
            changed = False
            for a in list(S.values()):
                for b in list(S.values()):
                    k = np.dot(a.rot, b.rot).tobytes()
                    if k not in S: S[k] = elems[k]; changed = True
        return frozenset(S.keys())
    subs = set()
    L = list(ops)
    for a in L: subs.add(close([a]))
    for a, b in itertools.combinations(L, 2): subs.add(close([a, b]))
    for s in list(subs):
        for cgen in L:
            if cgen.rot.tobytes() not in s: subs.add(close([elems[k] for k in s] + [cgen]))
    return [[elems[k] for k in s] for s in subs]


def holohedries(tier):
    from onsager import crystal
    C = crystal.Crystal
    th, ph = 0.37, 0.81
    Rz = np.array([[np.cos(th), -np.sin(th), 0], [np.sin(th), np.cos(th), 0], [0, 0, 1]])
    Rx = np.array([[1, 0, 0], [0, np.cos(ph), -np.sin(ph)], [0, np.sin(ph), np.cos(ph)]])
    hexl = np.array([[0.5, 0.5, 0], [-np.sqrt(0.75), np.sqrt(0.75), 0], [0, 0, 1.6]])
    r2 = lambda t: np.array([[np.cos(t), -np.sin(t)], [np.sin(t), np.cos(t)]])
    hex2 = np.array([[1, -0.5], [0, np.sqrt(0.75)]])
    out = [('Oh', lambda: C(np.eye(3), [[np.zeros(3)]])), ('D6h', lambda: C(hexl, [[np.zeros(3)]])),
           ('Oh-rotated', lambda: C(Rz @ Rx, [[np.zeros(3)]])), ('D6h-rotated', lambda: C(Rz @ Rx @ hexl, [[np.zeros(3)]])),
           ('D4-2D', lambda: C(np.eye(2), [[np.zeros(2)]])), ('D6-2D', lambda: C(hex2, [[np.zeros(2)]])),
           ('D4-2D-rotated', lambda: C(r2(0.41), [[np.zeros(2)]])), ('D6-2D-rotated', lambda: C(r2(0.41) @ hex2, [[np.zeros(2)]])),
           ('D2-2D-rect-rotated', lambda: C(r2(np.pi / 6) @ np.diag([1., 1.3]), [[np.zeros(2)]]))]
    if tier == 'thorough':
        out += [('Oh-rotated-b', lambda: C(Rx @ Rz @ Rx, [[np.zeros(3)]])), ('D6h-rotated-b', lambda: C(Rx @ Rz @ hexl, [[np.zeros(3)]])),
                ('D2h-ortho-rotated', lambda: C(Rz @ Rx @ np.diag([1., 1.2, 1.5]), [[np.zeros(3)]]))]
    return out


def w_sites(arg):
    kind, idx, tier, seed = arg
    from vf.common import repo_on_path; repo_on_path()
    import warnings; warnings.filterwarnings('ignore')
    from onsager import crystal
    from vf.rtc import catalogue
    rng = np.random.default_rng(seed * 13 + idx)
    if kind == 'cat':
        cid, f = catalogue.builders(tier, seed)[idx]
        acc = Acc(cid); c = f()['crys']
        site_contract(acc, c, cid, rng)
        acc.sample = {'crystal': cid, 'wyckoff_sets': len(c.Wyckoff), 'checked': 'point groups, Wyckoff orbits, Wyckoffpos, invariant bases vs character formula, FullVectorBasis, addbasis'}
        return acc.result()
    name, f = holohedries(tier)[idx]
    acc = Acc('subgroups-of-' + name); c = f()
    subs = subgroups(list(c.G), c.dim)
    for H in subs:
        vb = reduce(crystal.CombineVectorBasis, [crystal.VectorBasis(*g.eigen()) for g in H])
        tb = reduce(crystal.CombineTensorBasis, [crystal.SymmTensorBasis(*g.eigen()) for g in H])
        types = sorted(crystal.GroupOp.optype(g.rot) for g in H)
        basis_contract(acc, H, crystal.Crystal.vectlist(vb), tb, '%s subgroup of order %d with operation types %r' % (name, len(H), types), (name, len(H), tuple(types)))
    acc.sample = {'holohedry': name, 'subgroups_enumerated': len(subs), 'exhaustive': True}
    return acc.result()


# ----------------------------------------------------------------------------------------- C21
def brute_jumps(c, chem, cutoff, closest=None, win=3):
    out = []
    basis = c.basis[chem]
    # the documented default closestdistance=0 still excludes straight-line paths THROUGH a site of another species
    # (distance <= requested distance, up to round-off): derived from the code and its docstring
    if closest is None: closest = 0.
    if np.ndim(closest) == 0: closest = [closest] * len(c.basis)
    for i, u0 in enumerate(basis):
        for j, u1 in enumerate(basis):
            for n in itertools.product(range(-win, win + 1), repeat=c.dim):
                dx = c.lattice @ (np.array(n) + u1 - u0)
                d2 = dx @ dx
                if 1e-12 < d2 < cutoff ** 2:
                    ok = True
                    if closest is not None:
                        x0 = c.lattice @ u0
                        for cc, atoms in enumerate(c.basis):
                            if cc == chem: continue
                            for ua in atoms:
                                for m in itertools.product(range(-win, win + 1), repeat=c.dim):
                                    xa = c.lattice @ (np.array(m) + ua) - x0
                                    t = xa @ dx
                                    if 0 <= t <= d2:
                                        if (xa @ xa * d2 - t * t) / d2 <= closest[cc] ** 2 + 1e-9: ok = False
                    if ok: out.append((i, j, dx))
    return out


def jump_contract(acc, c, cid, chem, cutoff, closest, label):
    key = lambda t: (t[0], t[1]) + tuple(np.round(t[2], 6) + 0.)
    try:
        jn = c.jumpnetwork(chem, cutoff, closest) if closest is not None else c.jumpnetwork(chem, cutoff)
    except Exception as ex:
        acc.check(False, 'jumpnetwork-no-exception', '%s: %s' % (type(ex).__name__, ex)); return
    flat = [(i, j, dx) for jl in jn for (i, j), dx in jl]
    A = [key(t) for t in flat]; B = set(key(t) for t in brute_jumps(c, chem, cutoff, closest))
    sig = (cid, label)
    acc.check(len(A) == len(set(A)), 'each-jump-once', '%s: %d jumps, %d distinct' % (label, len(A), len(set(A))), sig=sig + ('once',))
    extra, missing = set(A) - B, B - set(A)
    acc.check(not extra, 'no-jump-beyond-cutoff-or-obstructed', '%s: %d extra, e.g. %r' % (label, len(extra), sorted(extra)[:1]), sig=sig + ('extra',))
    acc.check(not missing, 'every-allowed-jump-present', '%s: %d missing, e.g. %r' % (label, len(missing), sorted(missing)[:1]), sig=sig + ('missing',))
    # classes closed under G and under reversal, and classes are single orbits
    cls = {}
    for n, jl in enumerate(jn):
        for (i, j), dx in jl: cls[key((i, j, dx))] = n
    closed = rev = True
    for n, jl in enumerate(jn):
        for (i, j), dx in jl:
            if cls.get(key((j, i, -dx))) != n: rev = False
            for g in c.G:
                if cls.get(key((g.indexmap[chem][i], g.indexmap[chem][j], g.cartrot @ dx))) != n: closed = False
    acc.check(rev, 'classes-closed-under-reversal', label, sig=sig + ('rev',))
    acc.check(closed, 'classes-closed-under-space-group', label, sig=sig + ('g',))
    single = True
    for jl in jn:
        (i0, j0), dx0 = jl[0]
        orb = set()
        for g in c.G:
            a, b, d = g.indexmap[chem][i0], g.indexmap[chem][j0], g.cartrot @ dx0
            orb.add(key((a, b, d))); orb.add(key((b, a, -d)))
        if orb != set(key((i, j, dx)) for (i, j), dx in jl): single = False
    acc.check(single, 'each-class-is-one-orbit', label, sig=sig + ('orbit',))
    # lattice form encodes the same jumps
    try:
        jl2 = c.jumpnetwork2lattice(chem, jn)
        ok = len(jl2) == len(jn)
        for lat, car in zip(jl2, jn):
            if len(lat) != len(car): ok = False; continue
            for ((i, j), R), ((i2, j2), dx) in zip(lat, car):
                if (i, j) != (i2, j2) or not np.allclose(c.lattice @ (np.array(R) + c.basis[chem][j] - c.basis[chem][i]), dx, atol=1e-7): ok = False
        acc.check(ok, 'lattice-form-encodes-same-jumps', label, sig=sig + ('latt',))
    except Exception as ex:
        acc.check(False, 'lattice-form-encodes-same-jumps', '%s: %s' % (type(ex).__name__, ex))


def w_jumps(arg):
    idx, tier, seed = arg
    from vf.common import repo_on_path; repo_on_path()
    import warnings; warnings.filterwarnings('ignore')
    from vf.rtc import catalogue
    if idx == 'close-pairs':
        # curated: atoms of the jumping species much closer to each other than the cell size (first-shell cutoff far below one cell)
        # and an obstruction distance of order the cell: the obstructing images sit in cells that contain no jump end point
        from onsager import crystal as _cr
        # (only an image two cells away has its foot on the short jump between the two A atoms: nearer images project outside the segment)
        c = _cr.Crystal(np.array([[1., 0.], [0.275, 1.]]).T, [[np.array([0., 0.]), np.array([0.15, 0.])], [np.array([0.5, 0.5])]], chemistry=['A', 'B'])
        acc = Acc('close-pairs-2D')
        cutoff = catalogue.shell_cutoff(c, 0, 1)
        for cd in (2.6, [0.0, 2.55], 2.4):
            jump_contract(acc, c, 'close-pairs-2D', 0, cutoff, cd, 'chem 0 cutoff %.4f closest %r' % (cutoff, cd))
        acc.sample = {'crystal': 'close-pairs-2D', 'checked': 'obstruction distance larger than the cutoff and comparable to the cell'}
        return acc.result()
    if isinstance(idx, str) and idx.startswith('extra:'):
        # crystals whose symmetry search has to discard candidate translations that map one species but not the other
        cid = idx[6:]; c = dict(c18_extras(seed, tier))[cid](); idx = sum(map(ord, cid))
    else:
        cid, f = catalogue.builders(tier, seed)[idx]
        e = f(); c = e['crys']
    acc = Acc(cid)
    rng = np.random.default_rng(seed * 11 + idx)
    for chem in range(len(c.basis)):
        for nshell in ((1, 2) if tier == 'quick' else (1, 2, 3)):
            try: cutoff = catalogue.shell_cutoff(c, chem, nshell)
            except IndexError: continue
            if cutoff > 2.2: continue
            jump_contract(acc, c, cid, chem, cutoff, None, 'chem %d cutoff %.4f' % (chem, cutoff))
            if len(c.basis) > 1:
                # obstruction distances midway between the distinct perpendicular distances of other atoms to the jump segments
                ds = sorted(set(np.round(perp_distances(c, chem, cutoff), 5)))
                mids = [0.5 * (a + b) for a, b in zip(ds, ds[1:]) if b - a > 1e-3][:2] or ([ds[0] * 0.5] if ds else [])
                if nshell == 1 and cutoff < 0.8 * min(np.linalg.norm(c.lattice, axis=0)):
                    # an obstruction distance of two cell lengths (larger than the cutoff): obstructing atoms sit in cells that hold no jump end point
                    big = 2.1 * min(np.linalg.norm(c.lattice, axis=0))
                    jump_contract(acc, c, cid, chem, cutoff, big, 'chem %d cutoff %.4f closest %.4f (cell-sized)' % (chem, cutoff, big))
                for cd in mids:
                    jump_contract(acc, c, cid, chem, cutoff, cd, 'chem %d cutoff %.4f closest %.4f' % (chem, cutoff, cd))
                    per = [cd * (1.3 if k % 2 else 0.6) for k in range(len(c.basis))]
                    jump_contract(acc, c, cid, chem, cutoff, per, 'chem %d cutoff %.4f closest per species %s' % (chem, cutoff, np.round(per, 4).tolist()))
    acc.sample = {'crystal': cid, 'checked': 'jump set == brute force window enumeration (with and without obstruction), once each, classes = orbits under G and reversal, lattice form'}
    return acc.result()


def perp_distances(c, chem, cutoff, win=2):
    out = []
    for (i, j, dx) in brute_jumps(c, chem, cutoff, None, win):
        d2 = dx @ dx; x0 = c.lattice @ c.basis[chem][i]
        for cc, atoms in enumerate(c.basis):
            if cc == chem: continue
            for ua in atoms:
                for m in itertools.product(range(-win, win + 1), repeat=c.dim):
                    xa = c.lattice @ (np.array(m) + ua) - x0
                    t = xa @ dx
                    if 0 <= t <= d2: out.append(np.sqrt(max((xa @ xa * d2 - t * t) / d2, 0)))
    return out


# ----------------------------------------------------------------------------------------- C22
def kpt_lattices(tier, seed):
    """(label, lattice) from all 2D and 3D systems plus seeded triclinic / oblique cells"""
    rng = np.random.default_rng(seed + 22)
    s3 = np.sqrt(0.75)
    out = [('cubic', np.eye(3)), ('fcc', np.array([[0, .5, .5], [.5, 0, .5], [.5, .5, 0]])), ('bcc', np.array([[-.5, .5, .5], [.5, -.5, .5], [.5, .5, -.5]])),
           ('hex', np.array([[0.5, 0.5, 0], [-s3, s3, 0], [0, 0, 1.6]])), ('tetragonal', np.diag([1., 1., 1.4])), ('ortho', np.diag([1., 1.2, 1.5])),
           ('monoclinic', np.array([[1., 0, 0], [0.3, 1.1, 0], [0, 0, 1.3]]).T), ('rhombohedral', np.eye(3) + 0.2 * (np.ones((3, 3)) - np.eye(3))),
           ('square2D', np.eye(2)), ('hex2D', np.array([[1, -0.5], [0, s3]])), ('rect2D', np.diag([1., 1.3])), ('oblique2D', np.array([[1, 0.3], [0, 1.2]]))]
    # curated triclinic cells: three fold sweeps are needed / a mesh point sits on a zone face within roundoff
    out += [('triclinic-needs-3-sweeps-a', np.array([[1.424, -0.426, 0.514], [0.077, 0.949, -0.116], [-0.147, -0.411, 1.157]])),
            ('triclinic-needs-3-sweeps-b', np.array([[1.531, 0.549, 0.562], [-0.479, 0.989, 0.505], [-0.589, -0.24, 0.951]])),
            ('triclinic-needs-3-sweeps-c', np.array([[0.677, -0.103, 0.572], [0.29, 1.494, 0.068], [0.443, -0.042, 1.488]])),
            ('triclinic-point-on-zone-face', 0.5 * np.array([[0.8, 0.8, -0.7], [0.2, 0.8, -0.6], [-0.2, 0.4, 0.5]])),
            ('triclinic-point-on-zone-face-b', np.array([[0.413, 0.495, -0.279], [-0.211, 1.17, 0.499], [-0.521, -0.038, 1.373]]))]
    # cells used as given (noreduce=True, the YAML / fromdict route): skewed but valid descriptions
    out += [('noreduce:acute-oblique-2D', np.array([[1., 1.7], [0., 0.6]])),
            ('noreduce:hexagonal-a2+2a1', np.array([[0.5, 1.5, 0], [-s3, -s3, 0], [0, 0, 1.6]])),
            ('noreduce:monoclinic-inclined-c', np.array([[1., 0, 2.3], [0, 1.1, 0], [0, 0, 0.9]])),
            ('noreduce:sheared-cubic', np.array([[1., 2., 0], [0, 1., 0], [0, 0, 1.]])),
            ('noreduce:singly-sheared-cubic', np.array([[1., 1., 0], [0, 1., 0], [0, 0, 1.]]))]
    # realistic lattice constants (the zone construction must not depend on the length unit)
    out += [('fcc-a=3.6', 3.6 * np.array([[0, .5, .5], [.5, 0, .5], [.5, .5, 0]])), ('bcc-a=2.9', 2.9 * np.array([[-.5, .5, .5], [.5, -.5, .5], [.5, .5, -.5]])),
            ('hex-a=3.2', 3.2 * np.array([[0.5, 0.5, 0], [-s3, s3, 0], [0, 0, 1.6]])), ('triclinic-a=5', 5. * np.array([[1.424, -0.426, 0.514], [0.077, 0.949, -0.116], [-0.147, -0.411, 1.157]])),
            ('square2D-a=4', 4. * np.eye(2)), ('cubic-a=0.3', 0.3 * np.eye(3))]
    for k in range(6 if tier == 'quick' else 30):
        dim = 3 if k % 3 else 2
        A = np.eye(dim) + 0.6 * rng.uniform(-1, 1, (dim, dim))
        if abs(np.linalg.det(A)) < 0.3: continue
        out.append(('triclinic-seeded-%d' % k if dim == 3 else 'oblique-seeded-%d' % k, A))
    return out


def w_kpt(arg):
    idx, tier, seed = arg
    from vf.common import repo_on_path; repo_on_path()
    import warnings; warnings.filterwarnings('ignore')
    from onsager import crystal
    label, latt = kpt_lattices(tier, seed)[idx]
    acc = Acc(label)
    dim = latt.shape[0]
    c = crystal.Crystal(latt, [[np.zeros(dim)]], noreduce=label.startswith('noreduce:'))
    rng = np.random.default_rng(seed * 3 + idx)
    W = 4 if not label.startswith('noreduce:') else 6
    Gs = [c.reciplatt @ np.array(n) for n in itertools.product(range(-W, W + 1), repeat=dim) if any(n)]
    # invariant periodic test functions: cosine sums over complete shells of lattice vectors
    # (each shell is the complete point-group orbit of a lattice vector, so the function is invariant by construction)
    seeds = sorted((c.lattice @ np.array(n) for n in itertools.product(range(-2, 3), repeat=dim) if any(n)), key=lambda R: R @ R)
    shells = []
    for R0 in seeds:
        if any(any(np.allclose(R0, R, atol=1e-8) for R in sh) for sh in shells): continue
        orb = []
        for g in c.G:
            R = g.cartrot @ R0
            if not any(np.allclose(R, Q, atol=1e-8) for Q in orb): orb.append(R)
        shells.append(orb)
        if len(shells) == 6: break
    meshes = [(4,) * dim, (5,) * dim, tuple([4, 5, 6][:dim]), tuple([3, 6, 2][:dim]), tuple([4, 4, 3][:dim]), tuple([6, 4, 5][:dim])] if tier == 'quick' else \
        [(4,) * dim, (5,) * dim, tuple([4, 5, 6][:dim]), tuple([3, 6, 2][:dim]), (7,) * dim, tuple([8, 3, 5][:dim]), (1,) * dim]
    for N in meshes:
        kf = c.fullkptmesh(N)
        acc.check(len(kf) == int(np.prod(N)), 'mesh-has-all-points', '%r: %d points' % (N, len(kf)))
        out = sum(1 for k in kf if any(k @ k > (k - G) @ (k - G) + 1e-9 for G in Gs))
        acc.check(out == 0, 'every-mesh-point-in-brillouin-zone', 'mesh %r: %d of %d points are closer to another reciprocal lattice point than to 0' % (N, out, len(kf)), sig=(N, 'bz'))
        # distinct modulo the reciprocal lattice and equal to the regular grid
        # a regular (possibly shifted) grid: differences are multiples of 1/N and the points are distinct modulo the reciprocal lattice
        frac = np.array([np.linalg.solve(c.reciplatt, k - kf[0]) * np.array(N) for k in kf])
        acc.check(np.allclose(frac, np.round(frac), atol=1e-8) and len({tuple(np.mod(np.round(f).astype(int), N)) for f in frac}) == len(kf),
                  'mesh-is-a-regular-grid-modulo-reciprocal-lattice', '%r' % (N,), sig=(N, 'grid'))
        ks, w = c.reducekptmesh(c.fullkptmesh(N))
        acc.check(np.all(w > 0), 'weights-positive', '%r' % (N,))
        acc.check(abs(np.sum(w) - 1) < 1e-12, 'weights-sum-to-one', '%r: %r' % (N, np.sum(w)), sig=(N, 'sum'))
        for sh in shells:
            f = lambda k: sum(np.cos(k @ R) for R in sh)
            full = np.mean([f(k) for k in kf]); red = sum(wi * f(k) for k, wi in zip(ks, w))
            acc.check(abs(full - red) < 1e-10 * (1 + abs(full)), 'reduced-mesh-average-equals-full-average',
                      'mesh %r shell |R|=%.4f: full %r reduced %r' % (N, np.sqrt(sh[0] @ sh[0]), full, red), sig=(N, round(float(sh[0] @ sh[0]), 6)))
    acc.sample = {'lattice': label, 'group_order': len(c.G), 'meshes': [list(m) for m in meshes], 'checked': 'BZ membership in a 9^d window, weights, invariant shell-cosine averages'}
    return acc.result()


# ----------------------------------------------------------------------------------------- C19
def supercell_description(c, M, rng, noise=0.):
    """the same crystal described in the supercell with integer matrix M, atoms shuffled (+ noise below threshold)"""
    Minv = np.linalg.inv(M)
    newb = []
    for atoms in c.basis:
        lst = []
        for u in atoms:
            for n in itertools.product(range(-5, 6), repeat=c.dim):
                v = Minv @ (u + np.array(n))
                if np.all(v > -1e-9) and np.all(v < 1 - 1e-9):
                    if not any(np.allclose(_inhalf(v - w), 0, atol=1e-7) for w in lst): lst.append(v - np.floor(v + 1e-9))
        order = rng.permutation(len(lst))
        newb.append([lst[k] + noise * rng.uniform(-1, 1, c.dim) for k in order])
    return c.lattice @ M, newb


def w_reduce(arg):
    idx, tier, seed = arg
    from vf.common import repo_on_path; repo_on_path()
    import warnings; warnings.filterwarnings('ignore')
    from onsager import crystal
    from vf.rtc import catalogue
    cid, f = catalogue.builders(tier, seed)[idx]
    c = f()['crys']; acc = Acc(cid)
    rng = np.random.default_rng(seed * 19 + idx)
    if c.N > 4 and tier == 'quick':
        dets = (2,)
    else:
        dets = (2, 3) if tier == 'quick' else (2, 3, 4, 5, 6)
    ntr = 0
    # supercells of hexagonal cells whose reduction passes through a lattice with pairwise ratios of exactly 1/2
    curated = {'wurtzite+X': [[[1, -1, -1], [1, -1, 2], [-1, 0, -2]]], 'omega': [[[0, -1, 0], [-1, 1, 2], [1, 2, 1]]], 'HCP': [[[1, -1, -1], [1, -1, 2], [-1, 0, -2]], [[1, 2, -1], [1, -2, 0], [0, 1, 1]]],
               'HCP-rotated': [[[1, 2, -1], [1, -2, 0], [0, 1, 1]]], 'HCP+OT': [[[1, -1, -1], [1, -1, 2], [-1, 0, -2]]]}
    plan = [(abs(round(np.linalg.det(np.array(M)))), 1, np.array(M)) for M in curated.get(cid, [])]
    plan += [(det, trial, None) for det in dets for trial in range(2 if tier == 'quick' else 4)]
    for det, trial, M in plan:
        if True:
            if M is None:
                for _ in range(200):
                    M = rng.integers(-2, 3, size=(c.dim, c.dim))
                    if abs(round(np.linalg.det(M))) == det: break
                else: continue
            # exact; 0.01 x the default threshold (1e-8); and the largest noise that is safely below it: two noisy images of one atom,
            # mapped back to the primitive cell (u = M v), still agree within 0.4 x threshold in every coordinate
            safe = 0.2 * 1e-8 / np.abs(M).sum(axis=1).max()
            for noise in ((0., safe) if trial else (0., 1e-10, safe)):
                L, b = supercell_description(c, M, rng, noise)
                if any(len(x) != det * len(y) for x, y in zip(b, c.basis)): continue     # spec builder sanity
                ntr += 1
                sig = (cid, det)
                try:
                    c2 = crystal.Crystal(L, b, chemistry=c.chemistry)
                except Exception as ex:
                    acc.check(False, 'supercell-description-reduces-without-error', 'M=%s: %s: %s' % (M.tolist(), type(ex).__name__, ex), sig=sig); continue
                acc.check(abs(c2.volume / c2.N - c.volume / c.N) < 1e-7, 'same-volume-per-atom', 'M=%s: %r vs %r' % (M.tolist(), c2.volume / c2.N, c.volume / c.N), sig=sig + ('vol',))
                acc.check([len(x) for x in c2.basis] == [len(x) for x in c.basis], 'same-atoms-per-primitive-cell',
                          'M=%s: %r vs %r' % (M.tolist(), [len(x) for x in c2.basis], [len(x) for x in c.basis]), sig=sig + ('N',))
                acc.check(np.linalg.det(c2.lattice) > 0, 'right-handed-lattice', 'M=%s' % M.tolist())
                acc.check(len(c2.G) == len(c.G), 'same-group-order', 'M=%s noise=%g: |G| %d vs %d' % (M.tolist(), noise, len(c2.G), len(c.G)), sig=sig + ('G', noise))
                # the mechanism that makes the group survive the noise (docstring of Crystal.reduce: the threshold is changed with every
                # reduction "so that recursion uses the same effective threshold"): positions in the reduced cell are det times larger in
                # cell coordinates, so the tolerance the symmetry search works with is det times the one given
                if sum(len(x) for x in c2.basis) * det == sum(len(x) for x in b):
                    acc.check(abs(c2.threshold - det * 1e-8) <= 1e-6 * det * 1e-8, 'effective-threshold-carried-through-the-reduction',
                              'M=%s: threshold after reduction %g, given 1e-8 for a cell of %d primitive cells' % (M.tolist(), c2.threshold, det), sig=sig + ('thr',))
    acc.sample = {'crystal': cid, 'supercell_descriptions': ntr, 'determinants': list(dets)}
    return acc.result()


def c19_orderings(arg):
    """every atom ordering of n x 1 (x 1) supercells of simple cubic / square: the ordering-dependent failure of reduce"""
    n, dim, tier, seed = arg
    from vf.common import repo_on_path; repo_on_path()
    import warnings; warnings.filterwarnings('ignore')
    from onsager import crystal
    acc = Acc('all-orderings-%dx1-dim%d' % (n, dim))
    perms = list(itertools.permutations(range(n)))
    for perm in perms:
        latt = np.diag([float(n)] + [1.] * (dim - 1))
        basis = [[np.array([k / n] + [0.] * (dim - 1)) for k in perm]]
        try:
            c = crystal.Crystal(latt, basis)
            acc.check(c.N == 1 and abs(c.volume - 1) < 1e-9 and len(c.G) == (48 if dim == 3 else 8), 'supercell-description-reduces-to-primitive',
                      'ordering %r: N=%d |G|=%d' % (perm, c.N, len(c.G)), sig=perm)
        except Exception as ex:
            acc.check(False, 'supercell-description-reduces-without-error', 'ordering %r: %s: %s' % (perm, type(ex).__name__, ex), sig=perm)
    acc.sample = {'supercell': '%d x 1 of a primitive cell, dim %d' % (n, dim), 'orderings': len(perms), 'exhaustive': True}
    return acc.result()


def c19_hexagonal(arg):
    """hexagonal cells in rotated settings (lattice-vector ratios of 1/2 only up to roundoff) described through supercells"""
    angle, tier, seed = arg
    from vf.common import repo_on_path; repo_on_path()
    import warnings; warnings.filterwarnings('ignore')
    from onsager import crystal
    acc = Acc('hexagonal-rotated-%.3f' % angle)
    rng = np.random.default_rng(seed * 23 + int(angle * 1000))
    a0 = np.array([[0.5, 0.5, 0], [-np.sqrt(0.75), np.sqrt(0.75), 0], [0, 0, np.sqrt(8 / 3)]])
    ax = np.array([1., 2., 0.5]); ax /= np.linalg.norm(ax)
    K = np.array([[0, -ax[2], ax[1]], [ax[2], 0, -ax[0]], [-ax[1], ax[0], 0]])
    Rm = np.eye(3) + np.sin(angle) * K + (1 - np.cos(angle)) * K @ K
    for nm, basis in (('hcp', [[np.array([1 / 3, 2 / 3, 1 / 4]), np.array([2 / 3, 1 / 3, 3 / 4])]]), ('hex', [[np.zeros(3)]])):
        try:
            sys.setrecursionlimit(300)
            c = crystal.Crystal(Rm @ a0, basis)
        except RecursionError:
            acc.check(False, 'supercell-description-reduces-without-error', '%s primitive description: RecursionError' % nm, sig=(nm, 'prim')); continue
        want = 24
        acc.check(len(c.G) == want, 'same-group-order', '%s primitive description: |G| %d' % (nm, len(c.G)), sig=(nm, 'primG'))
        Ms = [[[0, 1, 2], [1, -1, 1], [-1, 2, -1]], [[1, -1, -1], [1, -1, 2], [-1, 0, -2]], [[1, 2, -1], [1, -2, 0], [0, 1, 1]], [[0, -1, 0], [-1, 1, 2], [1, 2, 1]]]
        for t in range(2 if tier == 'quick' else 10):
            for _ in range(200):
                M = rng.integers(-2, 3, size=(3, 3))
                if 2 <= abs(round(np.linalg.det(M))) <= 6: Ms.append(M.tolist()); break
        for M in Ms:
            M = np.array(M)
            L, b = supercell_description(c, M, rng, 0.)
            try:
                c2 = crystal.Crystal(L, b)
            except Exception as ex:
                acc.check(False, 'supercell-description-reduces-without-error', '%s M=%s: %s' % (nm, M.tolist(), type(ex).__name__), sig=(nm, 'raise', type(ex).__name__)); continue
            acc.check(abs(c2.volume / c2.N - c.volume / c.N) < 1e-7 and c2.N == c.N, 'same-volume-per-atom', '%s M=%s' % (nm, M.tolist()), sig=(nm, 'vol'))
            acc.check(np.linalg.det(c2.lattice) > 0, 'right-handed-lattice', '%s M=%s' % (nm, M.tolist()), sig=(nm, 'rh'))
            acc.check(len(c2.G) == want, 'same-group-order', '%s M=%s: |G| %d vs %d' % (nm, M.tolist(), len(c2.G), want), sig=(nm, 'G'))
    acc.sample = {'rotation_angle': angle, 'axis': ax.tolist()}
    return acc.result()
