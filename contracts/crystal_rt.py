"""Run-time contracts (level B) for onsager/crystal.py: C18 (symmetry group), C19 (reduction), C20 (site symmetry),
C21 (jump networks), C22 (k-point meshes).  Spec functions are written independently of the code under test
(brute-force orbit / window enumeration, character formulas)."""
import itertools
from functools import reduce
import numpy as np
from vf.rtc.runner import Acc


def _inhalf(v):
    v = np.asarray(v, dtype=float)
    return v - np.round(v)


# ----------------------------------------------------------------------------------------- C18
def spin_image(g, s):
    det = round(np.linalg.det(g.rot))
    return det * s if np.ndim(s) == 0 else np.dot(g.cartrot, s)


def group_contract(acc, c, tag=''):
    """every reported operation is a lattice-preserving isometry mapping atoms to atoms of the same species (and spin,
    up to one global phase per operation) with the recorded permutation; the set is a group modulo lattice translations"""
    G = list(c.G); dim = c.dim; tol = 1e-6
    thr = max(10 * c.threshold, 1e-7)
    def same(p, h):
        return p.rot.shape == h.rot.shape and np.all(p.rot == h.rot) and np.allclose(_inhalf(p.trans - h.trans), 0, atol=thr) and p.indexmap == h.indexmap
    for g in G:
        ok_shape = g.rot.shape == (dim, dim) and g.cartrot.shape == (dim, dim) and g.trans.shape == (dim,)
        acc.check(ok_shape, 'operation-has-crystal-dimension', 'rot %r in a %d-dimensional crystal%s' % (g.rot.shape, dim, tag), sig=('shape', tag))
        if not ok_shape: return
        acc.check(np.issubdtype(g.rot.dtype, np.integer) and abs(abs(round(np.linalg.det(g.rot))) - 1) == 0, 'rot-integer-unimodular', str(g.rot))
        acc.check(np.allclose(g.cartrot.T @ g.cartrot, np.eye(dim), atol=tol), 'cartrot-is-isometry', str(g.cartrot))
        acc.check(np.allclose(g.cartrot @ c.lattice, c.lattice @ g.rot, atol=tol), 'maps-lattice-onto-itself', '')
        acc.check(len(g.indexmap) == len(c.basis), 'indexmap-one-entry-per-species', 'len %d vs %d species' % (len(g.indexmap), len(c.basis)))
        if len(g.indexmap) != len(c.basis): continue
        phases = None
        for ci, atoms in enumerate(c.basis):
            perm_ok = sorted(g.indexmap[ci]) == list(range(len(atoms)))
            acc.check(perm_ok, 'indexmap-is-permutation', '%r' % (g.indexmap[ci],))
            if not perm_ok: continue
            for i, u in enumerate(atoms):
                d = _inhalf(g.rot @ u + g.trans - atoms[g.indexmap[ci][i]])
                acc.check(np.allclose(d, 0, atol=thr), 'atom-maps-onto-recorded-atom',
                          'species %d atom %d -> %d residual %r' % (ci, i, g.indexmap[ci][i], d), sig=('geom', ci))
        if c.spins is not None and len(g.indexmap) == len(c.basis):
            # one global phase per operation
            cand = None; ok = True
            for ci, atoms in enumerate(c.basis):
                if sorted(g.indexmap[ci]) != list(range(len(atoms))): ok = False; break
                for i in range(len(atoms)):
                    s_img = spin_image(g, c.spins[ci][i]); s_tgt = c.spins[ci][g.indexmap[ci][i]]
                    if np.allclose(s_img, 0, atol=1e-8):
                        if not np.allclose(s_tgt, 0, atol=1e-8): ok = False
                        continue
                    k = int(np.argmax(np.abs(s_img)))
                    ph = (np.ravel(s_tgt)[k] if np.ndim(s_tgt) else s_tgt) / (np.ravel(s_img)[k] if np.ndim(s_img) else s_img)
                    if cand is None: cand = ph
                    if abs(abs(ph) - 1) > 1e-6 or not np.allclose(cand * s_img, s_tgt, atol=1e-6): ok = False
            acc.check(ok, 'spins-preserved-up-to-one-phase', 'operation rot=%s' % g.rot.tolist(), sig=('spin',))
    ident = [g for g in G if np.all(g.rot == np.eye(dim, dtype=int)) and np.allclose(_inhalf(g.trans), 0, atol=thr)]
    acc.check(len(ident) >= 1, 'identity-in-group', '')
    closed = inv = True
    for g in G:
        if not any(same(g.inv(), h) for h in G): inv = False
        for h in G:
            if not any(same(g * h, k) for k in G):
                closed = False; break
    acc.check(inv, 'closed-under-inverse', '|G|=%d%s' % (len(G), tag), sig=('inv', len(G)))
    acc.check(closed, 'closed-under-product', '|G|=%d%s' % (len(G), tag), sig=('closed', len(G)))


def c18_extras(seed, tier):
    """(label, thunk) crystals specific to C18: spins, glides with several species, NOSYM, strains, 2D"""
    from onsager import crystal
    C = crystal.Crystal
    HEX = np.array([[0.5, 0.5, 0], [-np.sqrt(0.75), np.sqrt(0.75), 0], [0, 0, 1.6]])
    out = []
    out.append(('AFM-bcc-scalar-spins', lambda: C(np.eye(3), [[np.zeros(3), .5 * np.ones(3)]], spins=[[1, -1]])))
    out.append(('collinear-vector-spins', lambda: C(np.eye(3), [[np.zeros(3), .5 * np.ones(3)]], spins=[[np.array([0, 0, 1.]), np.array([0, 0, -1.])]])))
    def threefold(dim, sense=1):
        th = [0, sense * 2 * np.pi / 3, sense * 4 * np.pi / 3]
        if dim == 3:
            pos = [np.array([0.2, 0.4, 0.]), np.array([-0.4, -0.2, 0.]), np.array([0.2, -0.2, 0.])]   # orbit of a 3-fold axis in hex coordinates
            latt = HEX
            spins = [np.array([np.cos(t + 0.3), np.sin(t + 0.3), 0.]) for t in th]
        else:
            pos = [np.array([0.2, 0.4]), np.array([-0.4, -0.2]), np.array([0.2, -0.2])]
            latt = HEX[:2, :2]
            spins = [np.array([np.cos(t + 0.3), np.sin(t + 0.3)]) for t in th]
        return C(latt, [pos], spins=[spins])
    out.append(('noncollinear-vector-spins-3fold-3D', lambda: threefold(3)))
    out.append(('noncollinear-vector-spins-3fold-2D', lambda: threefold(2)))
    out.append(('counter-rotating-vector-spins-3fold-3D', lambda: threefold(3, -1)))
    out.append(('counter-rotating-vector-spins-3fold-2D', lambda: threefold(2, -1)))
    def bodyglide(order, third=False):
        # species A on special positions (invariant under several candidate translations), species B only under the true glide
        x = 0.17
        A = [np.array([0., 0., 0.]), np.array([.5, .5, .5])]
        B = [np.array([x, 0., 0.]), np.array([.5 - x, .5, .5])]
        Cc = [np.array([x, 0.1, 0.]), np.array([.5 - x, .6, .5])]
        basis = {'AB': [A, B], 'BA': [B, A], 'ACB': [A, Cc, B], 'AC': [A, Cc]}[order]
        return C(np.diag([1., 1.3, 1.7]), basis)
    for order in ('AB', 'BA', 'ACB', 'AC'):
        out.append(('n-glide-special-positions-' + order, (lambda order=order: bodyglide(order))))
    def glide2d_special():
        x = 0.17
        return C(np.diag([1., 1.3]), [[np.array([0., 0.]), np.array([.5, .5])], [np.array([x, 0.1]), np.array([.5 - x, .6])]])
    out.append(('glide-2D-special-positions', glide2d_special))
    out.append(('complex-scalar-spins', lambda: C(HEX, [[np.array([1 / 3, 2 / 3, .25]), np.array([2 / 3, 1 / 3, .75])]], spins=[[1, np.exp(2j * np.pi / 3)]])))
    def nglide(nspecies):
        gl = lambda u: np.array([u[0] + 0.5, -u[1], u[2] + 0.5])
        a, b1, b2 = np.array([0.11, 0.17, 0.05]), np.array([0.31, 0.28, 0.22]), np.array([0.07, 0.41, 0.36])
        basis = [[a, gl(a)], [b1, gl(b1), b2, gl(b2)]]
        if nspecies == 3: basis.append([np.array([0.4, 0.09, 0.13]), gl(np.array([0.4, 0.09, 0.13]))])
        return C(np.diag([1., 1.23, 1.41]), basis)
    out.append(('n-glide-two-species', lambda: nglide(2)))
    out.append(('n-glide-three-species', lambda: nglide(3)))
    def glide2d():
        gl = lambda u: np.array([u[0] + 0.5, -u[1]])
        a, b1, b2 = np.array([0.11, 0.17]), np.array([0.31, 0.28]), np.array([0.07, 0.41])
        return C(np.diag([1., 1.3]), [[a, gl(a)], [b1, gl(b1), b2, gl(b2)]])
    out.append(('glide-line-2D-two-species', glide2d))
    out.append(('NOSYM-2D-two-atoms', lambda: C(np.eye(2), [[np.zeros(2), np.array([0.3, 0.1])]], NOSYM=True)))
    out.append(('NOSYM-2D-one-atom', lambda: C(np.eye(2), [[np.zeros(2)]], NOSYM=True)))
    out.append(('NOSYM-3D', lambda: C(np.eye(3), [[np.zeros(3), np.array([0.3, 0.1, 0.2])]], NOSYM=True)))
    out.append(('square2D-two-species', lambda: C(np.eye(2), [[np.zeros(2)], [np.array([.5, .5])]])))
    rng = np.random.default_rng(seed + 5)
    for k in range(2 if tier == 'quick' else 8):
        base = [C.FCC(1.), C.HCP(1.), C(np.eye(2), [[np.zeros(2)]]), C(np.eye(3), [[np.zeros(3)], [.5 * np.ones(3)]])][k % 4]
        eps = 1e-3 * rng.normal(size=(base.dim, base.dim))
        out.append(('strained-%d' % k, (lambda base=base, eps=eps: base.strain(eps))))
    return out


def w_group(arg):
    kind, idx, tier, seed = arg
    from vf.common import repo_on_path; repo_on_path()
    import warnings; warnings.filterwarnings('ignore')
    from vf.rtc import catalogue
    if kind == 'cat':
        cid, f = catalogue.builders(tier, seed)[idx]
        acc = Acc(cid); c = f()['crys']
    else:
        cid, f = c18_extras(seed, tier)[idx]
        acc = Acc(cid)
        try:
            c = f()
        except Exception as ex:
            acc.check(False, 'crystal-constructs', '%s: %s' % (type(ex).__name__, ex), sig='construct')
            return acc.result()
    group_contract(acc, c)
    acc.sample = {'crystal': cid, 'dim': c.dim, 'atoms': c.N, 'group_order': len(c.G), 'spins': c.spins is not None,
                  'checked': 'isometry, lattice map, atom map = indexmap, spins, identity, closure under product and inverse'}
    return acc.result()
