"""C33 bounded stand-in (level B): the class invariant "state = fresh start on the current occupation" checked on
REAL samplers built by the real constructors, after every operation of exhaustive / seeded histories."""
import itertools, random, copy
import numpy as np


def state_of(mc):
    return (tuple(int(x) for x in mc.occ), tuple(int(x) for x in mc.clustercount), frozenset(mc.occupied_set), frozenset(mc.unoccupied_set))


def compare_with_fresh(mc, d, what):
    """-> None or (clause, detail)"""
    from vf.rtc import samplers
    fresh = samplers.make_sampler(d)
    fresh.start(np.array(mc.occ).copy())
    a, b = state_of(mc), state_of(fresh)
    for nm, x, y in zip(('occ', 'clustercount', 'occupied_set', 'unoccupied_set'), a, b):
        if x != y: return ('state-equals-fresh-start:' + nm, '%s: %r != fresh %r' % (what, x if nm != 'clustercount' else 'counts differ', y if nm != 'clustercount' else ''))
    e1, e2 = mc.E(), fresh.E()
    if abs(e1 - e2) > 1e-9 * (1 + abs(e2)): return ('energy-equals-fresh-start', '%s: E=%r fresh E=%r' % (what, e1, e2))
    return None


def tables_ok(mc):
    """what the P-level contracts assume about the immutable tables (established by the real __init__)"""
    L = len(mc.siteinteract)
    if len(mc.Ninteract) != L: return 'len(Ninteract) != number of sites'
    NT = len(mc.interactvalue)
    if not (0 <= mc.Nenergy <= NT): return 'Nenergy out of range'
    for i in range(L):
        n = mc.Ninteract[i]
        if not (0 <= n <= mc.siteinteract.shape[1] if L else True): return 'Ninteract[%d] out of range' % i
        row = mc.siteinteract[i][:n]
        if any(x < 0 or x >= NT for x in row): return 'interaction index out of range in row %d' % i
        if any(row[k] > row[k + 1] for k in range(len(row) - 1)): return 'row %d not ascending (the compiled sampler relies on it)' % i
    return None


def run_case(arg):
    idx, tier, seed = arg
    from vf.common import repo_on_path
    repo_on_path()
    import warnings; warnings.filterwarnings('ignore')
    from vf.rtc import samplers
    label, build = samplers.cases(tier)[idx]
    d = build(seed)
    rng = random.Random(seed * 7907 + idx)
    nprng = np.random.default_rng(seed * 31 + idx)
    mc = samplers.make_sampler(d)
    n = 0; sigs = set(); sample = None
    def fail(clause, detail, hist):
        return n, len(sigs), sample, {'case': label, 'clause': clause, 'detail': detail[:400], 'history': hist[-6:]}
    t = tables_ok(mc)
    if t: return fail('constructor-establishes-table-invariant', t, [])
    L = d['sup'].Nmobile * d['sup'].size
    vac = d['vacancy'] if d['vacancy'] is not None else -1
    sites = [i for i in range(L) if i != vac]
    occs = list(samplers.occupations(d, nprng, limit=48 if tier == 'quick' else 256))
    hist = []
    for occ in occs:
        mc.start(occ.copy()); hist.append('start(%s)' % ''.join(map(str, occ)).replace('-1', 'v'))
        r = compare_with_fresh(mc, d, hist[-1]); n += 1
        if r: return fail(r[0], r[1], hist)
        sigs.add(tuple(occ))
        # every single-site trial and a sample of two-site trials from this state
        singles = [((i,), ()) for i in sites] + [((), (i,)) for i in sites]
        pairs = [((i,), (j,)) for i in sites for j in sites if i != j]
        doubles = [((i, j), ()) for i in sites for j in sites if i < j] + [((), (i, j)) for i in sites for j in sites if i < j]
        trials = singles + rng.sample(pairs, min(len(pairs), 10 if tier == 'quick' else 40)) + rng.sample(doubles, min(len(doubles), 4 if tier == 'quick' else 16))
        base = np.array(mc.occ).copy()
        for a, b in trials:
            mc.start(base.copy())
            E0 = mc.E(); before = state_of(mc)
            dE = mc.deltaE_trial(a, b)
            if state_of(mc) != before: return fail('deltaE_trial-is-pure', 'state changed by deltaE_trial(%r,%r)' % (a, b), hist)
            mc.update(a, b); n += 1
            h = hist + ['update(%r,%r)' % (a, b)]
            r = compare_with_fresh(mc, d, h[-1])
            if r: return fail(r[0], r[1], h)
            dEreal = mc.E() - E0
            if abs(dE - dEreal) > 1e-9 * (1 + abs(dEreal)):
                return fail('trial-equals-realised-energy-change', 'deltaE_trial(%r,%r)=%r but E changed by %r from occ %s' % (a, b, dE, dEreal, list(base)), h)
            sigs.add((tuple(base), a, b))
        if sample is None: sample = {'case': label, 'history': hist[-1:] + ['update(%r,%r)' % trials[0]], 'checked': 'state == fresh start; trial dE == realised dE'}
    # long seeded histories without restart (update only), with occasional E()/start
    mc.start(occs[0].copy()); hist = ['start']
    for step in range(100 if tier == 'quick' else 1000):
        k = rng.random()
        if k < 0.08:
            o = occs[rng.randrange(len(occs))]; mc.start(o.copy()); hist.append('start')
        else:
            a = tuple(rng.sample(sites, rng.randrange(0, 3))); b = tuple(rng.sample(sites, rng.randrange(0, 3)))
            mc.update(a, b); hist.append('update(%r,%r)' % (a, b))
        n += 1
        r = compare_with_fresh(mc, d, hist[-1])
        if r: return fail(r[0], r[1], hist)
    # vacancy guard
    if vac >= 0:
        for fn in (mc.update, mc.deltaE_trial):
            for args in (((vac,), ()), ((), (vac,))):
                try:
                    fn(*args); return fail('vacancy-site-rejected', '%s%r accepted the vacancy site' % (fn.__name__, args), hist)
                except ValueError:
                    pass
    return n, len(sigs), sample, None
