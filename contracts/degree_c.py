"""Degree contracts (E2, vf.pyframe.degree) for the functions through which a uniform factor on every jump rate reaches the
transport coefficients.  One transformation family: every rate x lambda (lambda > 0); `1` = scales like a rate, `-1` = like a
Green function, `0` = unchanged (probabilities, geometry, dimensionless ratios), NA = not a physical number.

Each function is checked against its own contract using only the contracts of what it calls (modular).  What is assumed and not
checked here is listed per contract under `assumed`."""
from fractions import Fraction as Fr
from vf.pyframe.degree import Tup, NA, ZERO

ONE, ZEROD, MINUS = Fr(1), Fr(0), Fr(-1)

CONTRACTS = {}

CONTRACTS['VacancyMediated.Lij'] = dict(
    relpath='onsager/OnsagerCalc.py', qualname='VacancyMediated.Lij',
    # scaled free energies: the vacancy / solute / binding ones do not change under the family; the transition-state ones shift by
    # -ln(lambda) and are only handed on to the callees below (never used arithmetically in this function: an obligation, they are NA)
    params={'self': NA, 'bFV': ZEROD, 'bFS': ZEROD, 'bFSV': ZEROD, 'bFT0': NA, 'bFT1': NA, 'bFT2': NA, 'large_om2': ZEROD},
    fields={'self.GFvalues': MINUS, 'self.Lvvvalues': ONE, 'self.etavvalues': ZEROD},
    callees={'self._symmetricandescaperates': Tup([ONE] * 6),
             'self.GFcalc.SetRates': NA, 'self.GFcalc.Diffusivity': ONE, 'self.GFcalc.biascorrection': ZEROD, 'self.GFcalc': MINUS,
             'self.GFvalues.get': MINUS, 'self.Lvvvalues.get': ONE, 'self.etavvalues.get': ZEROD,
             'vacancyThermoKinetics': NA, 'vTK._asdict': NA},
    returns=[ONE, ONE, ONE, ONE],
    assumed=['_symmetricandescaperates returns six arrays of rate degree 1 (checked at level S/B: C04)',
             'GFCrystalcalc: Diffusivity degree 1, __call__ degree -1, biascorrection degree 0 (checked at level B: C10)',
             'cached values carry the degree of what was stored (the stores are obligations of this function)'])

_I = dict(relpath='onsager/OnsagerCalc.py', params={'self': NA, 'pre': ZEROD, 'betaene': ZEROD, 'preT': ONE, 'betaeneT': ZEROD, 'CalcDeriv': NA})
CONTRACTS['Interstitial.siteprob'] = dict(_I, qualname='Interstitial.siteprob', params={'self': NA, 'pre': ZEROD, 'betaene': ZEROD}, returns=[ZEROD])
CONTRACTS['Interstitial.ratelist'] = dict(_I, qualname='Interstitial.ratelist', params={k: v for k, v in _I['params'].items() if k != 'CalcDeriv'}, returns=[ONE])
CONTRACTS['Interstitial.symmratelist'] = dict(_I, qualname='Interstitial.symmratelist', params={k: v for k, v in _I['params'].items() if k != 'CalcDeriv'}, returns=[ONE])
CONTRACTS['Interstitial.diffusivity'] = dict(
    _I, qualname='Interstitial.diffusivity',
    callees={'self.siteprob': ZEROD, 'self.ratelist': ONE, 'self.symmratelist': ONE, 'self.bias_solver': ZEROD},
    returns=[[ONE], [ONE, ONE]],
    assumed=['bias_solver(omega, b) = omega^-1 b or pinv(omega) b: degree 0 for omega, b of degree 1 (its definition in __init__ is checked: relative cutoff only)'])

CONTRACTS['Interstitial.losstensors'] = dict(
    relpath='onsager/OnsagerCalc.py', qualname='Interstitial.losstensors',
    params={'self': NA, 'pre': ZEROD, 'betaene': ZEROD, 'dipole': ZEROD, 'preT': ONE, 'betaeneT': ZEROD},
    callees={'self.siteprob': ZEROD, 'self.ratelist': ONE, 'self.symmratelist': ONE, 'self.siteDipoles': ZEROD,
             'tensor_square': lambda ds: ds[0] if not isinstance(ds[0], Fr) else 2 * ds[0]},
    globals={'itertools': NA},
    returns=None,
    assumed=['the local helper tensor_square(a) is the outer product a (x) a (degree doubled); the mode rates appended to the result carry degree 1 and the loss tensors degree 0 (statement obligations on the loop body)'])

from vf.pyframe.degree import LOG
FE = LOG(-1)        # a scaled transition-state free energy: every rate x lambda shifts it by -ln(lambda)

CONTRACTS['VacancyMediated.preene2betafree'] = dict(
    relpath='onsager/OnsagerCalc.py', qualname='VacancyMediated.preene2betafree',
    # the family "every rate x lambda" applied where a user applies it: the three transition-state prefactors
    params={'kT': ZEROD, 'preV': ZEROD, 'eneV': ZEROD, 'preS': ZEROD, 'eneS': ZEROD, 'preSV': ZEROD, 'eneSV': ZEROD,
            'preT0': ONE, 'eneT0': ZEROD, 'preT1': ONE, 'eneT1': ZEROD, 'preT2': ONE, 'eneT2': ZEROD, 'ignoredextraarguments': NA},
    returns=[ZEROD, ZEROD, ZEROD, FE, FE, FE])
_P2B = dict(relpath='onsager/OnsagerCalc.py', qualname='VacancyMediated.preene2betafree')
_names = ['kT', 'preV', 'eneV', 'preS', 'eneS', 'preSV', 'eneSV', 'preT0', 'eneT0', 'preT1', 'eneT1', 'preT2', 'eneT2']
def _fam(**deg): return dict({n: ZEROD for n in _names}, ignoredextraarguments=NA, **deg)
# the reference choices of the property, each as its own transformation family (lambda = the common factor); every output is unchanged
CONTRACTS['VacancyMediated.preene2betafree[vacancy prefactors scaled together]'] = dict(_P2B, params=_fam(preV=ONE, preT0=ONE, preT1=ONE, preT2=ONE), returns=[ZEROD] * 6)
CONTRACTS['VacancyMediated.preene2betafree[solute prefactors scaled together]'] = dict(_P2B, params=_fam(preS=ONE, preT1=ONE, preT2=ONE), returns=[ZEROD] * 6)
CONTRACTS['VacancyMediated.preene2betafree[energies and temperature scaled together]'] = dict(
    _P2B, params=_fam(kT=ONE, eneV=ONE, eneS=ONE, eneSV=ONE, eneT0=ONE, eneT1=ONE, eneT2=ONE), returns=[ZEROD] * 6)
CONTRACTS['VacancyMediated._symmetricandescaperates'] = dict(
    relpath='onsager/OnsagerCalc.py', qualname='VacancyMediated._symmetricandescaperates',
    params={'self': NA, 'bFV': ZEROD, 'bFSVkinetic': ZEROD, 'bFT0': FE, 'bFT1': FE, 'bFT2': FE},
    returns=[ONE] * 6)
# with these two, the chain  preene2betafree -> Lij (which hands bFT* only to _symmetricandescaperates and to the Green-function
# calculator)  carries a uniform factor on the rates to a uniform factor on the four tensors.

_G = dict(relpath='onsager/GFcalc.py')
CONTRACTS['GFCrystalcalc.SymmRates'] = dict(_G, qualname='GFCrystalcalc.SymmRates', min_obligations=1, params={'self': NA, 'pre': ZEROD, 'betaene': ZEROD, 'preT': ONE, 'betaeneT': ZEROD}, returns=[ONE])
CONTRACTS['GFCrystalcalc.Diffusivity'] = dict(_G, qualname='GFCrystalcalc.Diffusivity', params={'self': NA, 'omega_Taylor_D': ZEROD},
                                              fields={'self.maxrate': ONE, 'self.D': ONE}, globals={'T3D': NA, 'T2D': NA}, returns=[ONE],
                                              assumed=['the reduced Taylor expansion handed in is built from rates divided by maxrate (SetRates: fields_after)'])
CONTRACTS['GFCrystalcalc.biascorrection'] = dict(_G, qualname='GFCrystalcalc.biascorrection', params={'self': NA, 'etav': ZEROD},
                                                 fields={'self.eta': ZEROD}, globals={'T3D': NA, 'T2D': NA}, returns=[ZEROD])
CONTRACTS['GFCrystalcalc.__call__'] = dict(_G, qualname='GFCrystalcalc.__call__', params={'self': NA, 'i': NA, 'j': NA, 'dx': ZEROD},
                                           fields={'self.maxrate': ONE}, callees={'self.exp_dxq': ZEROD, 'self.gT_ij[i][j]': ZEROD}, returns=[MINUS],
                                           assumed=['gsc_ijq, gT_ij, g_Taylor_fnlu are built from rates divided by maxrate (degree 0: SetRates)'])

Z6 = Tup([ZEROD] * 6)
CONTRACTS['GFCrystalcalc.SetRates'] = dict(
    _G, qualname='GFCrystalcalc.SetRates',
    params={'self': NA, 'pre': ZEROD, 'betaene': ZEROD, 'preT': ONE, 'betaeneT': ZEROD, 'pmaxerror': ZEROD},
    globals={'LA': NA, 'T3D': NA, 'T2D': NA, 'itertools': NA},
    callees={'self.SymmRates': ONE, 'self.DiagGamma': Tup([ZEROD, ZEROD]), 'self.BlockRotateOmegaTaylor': Z6, 'self.Diffusivity': ONE, 'self.biascorrection': ZEROD,
             'self.BlockInvertOmegaTaylor': ZEROD, 'LA.eigh': Tup([ZEROD, ZEROD]), 'Taylor.rotatedirections': ZEROD, 'Fnl_p': ZEROD, 'Fnl_u': ZEROD,
             'self.g_Taylor': ZEROD},
    # everything the evaluation of G later reads is built from rates divided by the largest rate; the rate scale survives in maxrate and D only
    fields_after={'self.symmrate': ZEROD, 'self.maxrate': ONE, 'self.escape': ZEROD, 'self.omega_qij': ZEROD, 'self.D': ONE, 'self.eta': ZEROD,
                  'self.pmax': ZEROD, 'self.gsc_ijq': ZEROD, 'self.g_Taylor': ZEROD},
    assumed=['DiagGamma / BlockRotateOmegaTaylor / BlockInvertOmegaTaylor map degree-0 expansions to degree-0 expansions (linear algebra on their argument)',
             'the Taylor-expansion methods ldot / rdot / irotate / reduce / separate / inv keep or negate the degree of the expansion (C16 / C17)'])


# ---------------------------------------------------------------------------------------------------------------
def run(rep, names, replay=None):
    """check the named contracts against the current source; one level-P obligation per statement"""
    import time
    from vf import extract
    from vf.common import Ob, Undecided
    from vf.pyframe import degree
    for k in names:
        c = CONTRACTS[k]
        fq = '%s::%s' % (c['relpath'], c['qualname'])
        t = time.time()
        try:
            fn = extract.get(c['relpath'], c['qualname'])
        except KeyError as ex:
            rep.add(Ob('degree:%s:function-present' % k, 'P', 'undecided', 'degree-typing', 0., str(ex), function=fq)); continue
        rep.under_contract(fq, c['relpath'], fn.l0, fn.l1)
        try:
            obs, _ = degree.Checker(c, fn).run()
        except Undecided as ex:
            rep.add(Ob('degree:%s:supported-subset' % k, 'P', 'undecided', 'degree-typing', time.time() - t, str(ex), function=fq)); continue
        if len(obs) < c.get('min_obligations', 3):
            rep.add(Ob('degree:%s:obligation-count' % k, 'P', 'fault', 'degree-typing', 0., 'only %d obligations generated' % len(obs), function=fq)); continue
        dt = (time.time() - t) / max(len(obs), 1)
        for (name, ok, detail, line) in obs:
            wit = None
            if not ok:
                conf, text = (replay(k, line, detail) if replay else (None, ''))
                wit = dict(replayed=bool(conf), replay=text, line=line, signature='%s|%s' % (k, name.split('@')[0]))
            rep.add(Ob('degree:%s:%s' % (k, name), 'P', 'ok' if ok else 'fail', 'degree-typing (rational arithmetic)', dt, detail, witness=wit, function=fq))
        for a in c.get('assumed', []): rep.assume('degree contract of %s assumes: %s' % (k, a))
    rep.trust('degree rules of the numpy / scipy entry points (dot, tensordot add; inv, pinv negate; sqrt halves; eigh: eigenvalues carry the degree, eigenvectors none; '
              'exp / log need a dimensionless argument): true of the mathematical operations, floats as reals')


def replay_lij(k, line, detail):
    """numeric confirmation on the real calculator: rate covariance at extreme overall scales (FCC, tracer-like data with a fast exchange)"""
    if not k.startswith('VacancyMediated'): return None, ''
    import numpy as np, warnings
    warnings.filterwarnings('ignore')
    from contracts import vacancy_rt as V
    worst, where = 0., ''
    for cid in ('FCC', 'HCP+OT'):
        d, e = V.build(cid, 'quick', 0)
        t = V.data(d, np.random.default_rng(11))
        for s2 in (1., 1e12):
            ts = dict(t, preT2=t['preT2'] * s2)
            try:
                base = V.L(d, ts); sc = max(np.abs(x).max() for x in base)
                for lam in (1e-12, 1e-10, 1e10):
                    got = V.L(d, dict(ts, preT0=ts['preT0'] * lam, preT1=ts['preT1'] * lam, preT2=ts['preT2'] * lam))
                    dev = max(np.abs(a / lam - b).max() for a, b in zip(got, base)) / sc
                    if dev > worst: worst, where = dev, '%s, exchange prefactors x %g, every rate x %g' % (cid, s2, lam)
            except Exception as ex:
                return True, 'real Lij raised %s: %s on %s' % (type(ex).__name__, ex, cid)
    return worst > 1e-3, 'real Lij: largest relative deviation from exact rate covariance %.2e (%s)' % (worst, where)
