"""Sidecar contracts for onsager/supercell.py (nothing here is inside /repo).
The representation invariant WF is derived from the code (how occ/chemorder are used by every
method) and from the property C28 ("site occupations and per-species ordering describe the same
configuration")."""
import z3
from vf.spec import *
from vf.pyvc.engine import Contract

# g_pos is a GHOST field (the code never touches it): g_pos[i] is the position of site i inside
# chemorder[occ[i]] -- the witness of "every occupied site is listed".  At run time it is computed
# from the concrete state (contracts/abstract functions below).
SELF = {'occ': 'seq_int', 'chemorder': 'seq2_int', 'Nchem': 'int', 'N': 'int', 'size': 'int', 'g_pos': 'seq_int',
        'crys': {'Nchem': 'int'}}


def WF(s):
    """s: view with .occ (seq), .chemorder (seq2), .Nchem"""
    occ, co, K, pos = s.occ, s.chemorder, s.Nchem, s.g_pos
    L = occ.len
    return {
        'shape': And(L >= 0, K >= 1, co.len == K, s.crys.Nchem >= 1, K >= s.crys.Nchem),   # __init__: Nchem = crys.Nchem (+ Nsolute)
        'occ-range': forall(0, L, lambda i: And(occ[i] >= -1, occ[i] < K), 'wf_i'),
        'lens-nonneg': forall(0, K, lambda c: co.lenof(c) >= 0, 'wf_c'),
        # every listed entry is an in-range site whose occupation is that species
        'listed-sites-have-that-occupation': forall2(0, K, lambda c: 0, lambda c: co.lenof(c),
                        lambda c, k: And(co.at(c, k) >= 0, co.at(c, k) < L, lambda: occ[co.at(c, k)] == c), 'wf_ck'),
        # no site listed twice
        'no-duplicates': forall(0, K, lambda c: forall2(0, co.lenof(c), lambda k: k + 1, lambda k: co.lenof(c),
                                               lambda k, k2: co.at(c, k) != co.at(c, k2), 'wf_kk'), 'wf_c2'),
        # every occupied site is listed under its species
        'occupied-sites-are-listed': forall(0, L, lambda i: Implies(occ[i] >= 0, lambda: And(
            pos[i] >= 0, pos[i] < co.lenof(occ[i]), lambda: co.at(occ[i], pos[i]) == i)), 'wf_l'),
    }


def WFall(s):
    return And(*WF(s).values())


class SetOcc(Contract):
    relpath, qualname = 'onsager/supercell.py', 'Supercell.setocc'
    self_shape = SELF
    params = {'ind': 'int', 'c': 'int'}
    modifies = ('occ', 'chemorder', 'g_pos')

    def pre(self, s):
        return And(WFall(s.self), s.v['ind'] >= 0, s.v['ind'] < s.self.occ.len)

    # from the property: every declared species from vacancy (-1) to the last solute (Nchem-1) can be
    # placed; undeclared species are rejected
    raises = {'IndexError': lambda s: Or(s.v['c'] < -1, s.v['c'] >= s.self.Nchem)}

    def ghost_exit(self, old, new):
        o = old.self
        ind, c = old.v['ind'], old.v['c']
        corig, p = o.occ[ind], o.g_pos[ind]
        return {'g_pos': (o.occ.len, lambda i: ite(corig == c, o.g_pos[i],
                                            ite(i == ind, o.chemorder.lenof(c),
                                                ite(And(corig >= 0, o.occ[i] == corig, o.g_pos[i] > p),
                                                    o.g_pos[i] - 1, o.g_pos[i]))))}

    def post(self, old, new, result):
        o, n = old.self, new.self
        ind, c = old.v['ind'], old.v['c']
        corig = o.occ[ind]
        K = o.Nchem
        return {
            **{'WF-' + k: v for k, v in WF(n).items()},
            'occ-updated': And(n.occ.len == o.occ.len, n.occ[ind] == c,
                               lambda: forall(0, o.occ.len, lambda i: Implies(i != ind, lambda: n.occ[i] == o.occ[i]))),
            'other-lists-untouched': And(n.chemorder.len == o.chemorder.len, lambda: forall(0, K, lambda cc: Implies(
                Or(corig == c, And(cc != corig, cc != c)),
                lambda: And(n.chemorder.lenof(cc) == o.chemorder.lenof(cc),
                            lambda: forall(0, o.chemorder.lenof(cc), lambda k: n.chemorder.at(cc, k) == o.chemorder.at(cc, k)))))),
            'removed-from-old-list-keeping-order': Implies(And(corig != c, corig >= 0), lambda: And(
                n.chemorder.lenof(corig) == o.chemorder.lenof(corig) - 1,
                lambda: exists(0, o.chemorder.lenof(corig), lambda p: And(
                    o.chemorder.at(corig, p) == ind,
                    lambda: forall(0, o.chemorder.lenof(corig) - 1, lambda k: n.chemorder.at(corig, k) == ite(
                        k < p, lambda: o.chemorder.at(corig, k), lambda: o.chemorder.at(corig, k + 1))))))),
            'appended-to-new-list': Implies(And(corig != c, c >= 0), lambda: And(
                n.chemorder.lenof(c) == o.chemorder.lenof(c) + 1,
                n.chemorder.at(c, o.chemorder.lenof(c)) == ind,
                lambda: forall(0, o.chemorder.lenof(c), lambda k: n.chemorder.at(c, k) == o.chemorder.at(c, k)))),
        }


# ---------------------------------------------------------------------------------------------
# concrete side: real Supercell objects for replay and run-time contract evaluation

import itertools, functools
import numpy as np

_real_cache = {}


def real_supercell(ncrys, nchem, L):
    """A real onsager.supercell.Supercell with crys.Nchem = ncrys species (one atom each), Nchem = nchem
    and L sites (L must be a multiple of ncrys).  NOSYM: group generation is irrelevant here."""
    from onsager import crystal, supercell
    key = (ncrys, nchem, L)
    if key not in _real_cache:
        if L % ncrys != 0 or nchem < ncrys or L == 0: return None
        basis = [[np.array([0.1 + 0.25 * k, 0.05 * k, 0.3 * k / 2])] for k in range(ncrys)]
        crys = crystal.Crystal(np.diag([1., 1.1, 1.2]), basis, chemistry=['A%d' % k for k in range(ncrys)], NOSYM=True)
        sup = supercell.Supercell(crys, np.diag([L // ncrys, 1, 1]), Nsolute=nchem - ncrys, NOSYM=True)
        _real_cache[key] = sup
    return _real_cache[key].copy()


def pos_ghost(obj):
    """g_pos[i] = position of site i in chemorder[occ[i]] (or -1): the run-time value of the ghost field"""
    out = []
    for i, c in enumerate(obj.occ):
        c = int(c)
        if 0 <= c < len(obj.chemorder) and i in obj.chemorder[c]: out.append(obj.chemorder[c].index(i))
        else: out.append(-1)
    return CSeq(out)


class _SupercellConcrete:
    def ghost_concrete(self, obj): return {'g_pos': pos_ghost(obj)}

    def build_self(self, cs):
        sup = real_supercell(cs.crys.Nchem, cs.Nchem, cs.occ.len)
        if sup is None: return None
        sup.occ = np.array(cs.occ.xs, dtype=int)
        sup.chemorder = [list(r) for r in cs.chemorder.xss]
        return sup

    def small_supercells(self, rng, tier):
        """every WF state of small supercells: L sites, species, all occupations, shuffled list orders"""
        for ncrys, nchem, L in ((1, 1, 2), (1, 2, 3), (1, 3, 3), (2, 2, 2), (2, 3, 4)) if tier == 'quick' else \
                ((1, 1, 3), (1, 2, 3), (1, 3, 4), (2, 2, 4), (2, 3, 4), (2, 4, 4), (3, 3, 3)):
            for occ in itertools.product(range(-1, nchem), repeat=L):
                if L == 4 and rng.random() < (0.6 if tier == 'quick' else 0.3): continue
                sup = real_supercell(ncrys, nchem, L)
                sup.occ = np.array(occ, dtype=int)
                co = [[i for i in range(L) if occ[i] == c] for c in range(nchem)]
                for l in co: rng.shuffle(l)
                sup.chemorder = co
                yield sup


class SetOccC(_SupercellConcrete, SetOcc):
    min_obligations = 40

    def build(self, conc):
        sup = self.build_self(conc.self)
        return (sup, (conc.v['ind'], conc.v['c'])) if sup is not None else (None, None)

    def concrete_states(self, rng, tier):
        for sup in self.small_supercells(rng, tier):
            for ind in range(len(sup.occ)):
                for c in range(-3, sup.Nchem + 2):
                    s2 = sup.copy()
                    yield s2, (ind, c)


C28_CONTRACTS = [SetOccC]
ASSUMPTIONS = [
    'python ints are mathematical integers; numpy integer arrays do not overflow',
    'inner lists of chemorder are distinct objects (no aliasing between rows)',
    'subscripts are required to be in [0, len): negative wrap-around indexing is treated as an error',
    'set iteration order is arbitrary, dict iteration is insertion ordered',
]
TRUSTED = [
    'pyvc encoder model of CPython list.index/pop/append, set add/in, numpy 1-D integer array load/store/copy',
    'z3 4.x/5.x (python API) and /usr/bin/cvc5 on the queries posed',
    'ast extraction of the function bodies from the current working tree (docstrings/comments/decorators dropped)',
]
GAPS = []


def c28_extra(rep, tier):
    pass
