"""Sidecar contracts for onsager/supercell.py (nothing here is inside /repo).
The representation invariant WF is derived from the code (how occ/chemorder are used by every
method) and from the property C28 ("site occupations and per-species ordering describe the same
configuration")."""
import z3
from vf.spec import *
from vf.pyvc.engine import Contract

# g_pos is a GHOST field (the code never touches it): g_pos[i] is the position of site i inside
# chemorder[occ[i]] -- the witness of "every occupied site is listed".  At run time it is computed
# from the concrete state (contracts/abstract functions below).
SELF = {'occ': 'seq_int', 'chemorder': 'seq2_int', 'Nchem': 'int', 'N': 'int', 'size': 'int', 'g_pos': 'seq_int',
        'crys': {'Nchem': 'int'}}


def WF(s):
    """s: view with .occ (seq), .chemorder (seq2), .Nchem"""
    occ, co, K, pos = s.occ, s.chemorder, s.Nchem, s.g_pos
    L = occ.len
    return {
        'shape': And(L >= 0, K >= 1, co.len == K, s.crys.Nchem >= 1, K >= s.crys.Nchem),   # __init__: Nchem = crys.Nchem (+ Nsolute)
        'occ-range': forall(0, L, lambda i: And(occ[i] >= -1, occ[i] < K), 'wf_i'),
        'lens-nonneg': forall(0, K, lambda c: co.lenof(c) >= 0, 'wf_c'),
        # every listed entry is an in-range site whose occupation is that species
        'listed-sites-have-that-occupation': forall2(0, K, lambda c: 0, lambda c: co.lenof(c),
                        lambda c, k: And(co.at(c, k) >= 0, co.at(c, k) < L, lambda: occ[co.at(c, k)] == c), 'wf_ck'),
        # no site listed twice
        'no-duplicates': forall(0, K, lambda c: forall2(0, co.lenof(c), lambda k: k + 1, lambda k: co.lenof(c),
                                               lambda k, k2: co.at(c, k) != co.at(c, k2), 'wf_kk'), 'wf_c2'),
        # every occupied site is listed under its species
        'occupied-sites-are-listed': forall(0, L, lambda i: Implies(occ[i] >= 0, lambda: And(
            pos[i] >= 0, pos[i] < co.lenof(occ[i]), lambda: co.at(occ[i], pos[i]) == i)), 'wf_l'),
    }


def WFall(s):
    return And(*WF(s).values())


class SetOcc(Contract):
    relpath, qualname = 'onsager/supercell.py', 'Supercell.setocc'
    self_shape = SELF
    params = {'ind': 'int', 'c': 'int'}
    modifies = ('occ', 'chemorder', 'g_pos')

    def pre(self, s):
        # every integer is a legal argument: -len <= ind < len names a site (python-style negative indices), anything else is refused
        return WFall(s.self)

    @staticmethod
    def site(s):
        """the site an index names"""
        return ite(s.v['ind'] < 0, s.v['ind'] + s.self.occ.len, s.v['ind'])

    # from the property: every declared species from vacancy (-1) to the last solute (Nchem-1) can be
    # placed; undeclared species and undefined sites are rejected
    raises = {'IndexError': lambda s: Or(s.v['c'] < -1, s.v['c'] >= s.self.Nchem, s.v['ind'] < -s.self.occ.len, s.v['ind'] >= s.self.occ.len)}

    def ghost_exit(self, old, new):
        o = old.self
        ind, c = SetOcc.site(old), old.v['c']
        corig, p = o.occ[ind], o.g_pos[ind]
        return {'g_pos': (o.occ.len, lambda i: ite(corig == c, o.g_pos[i],
                                            ite(i == ind, o.chemorder.lenof(c),
                                                ite(And(corig >= 0, o.occ[i] == corig, o.g_pos[i] > p),
                                                    o.g_pos[i] - 1, o.g_pos[i]))))}

    def post(self, old, new, result):
        o, n = old.self, new.self
        ind, c = SetOcc.site(old), old.v['c']
        corig = o.occ[ind]
        K = o.Nchem
        return {
            **{'WF-' + k: v for k, v in WF(n).items()},
            'occ-updated': And(n.occ.len == o.occ.len, n.occ[ind] == c,
                               lambda: forall(0, o.occ.len, lambda i: Implies(i != ind, lambda: n.occ[i] == o.occ[i]))),
            'other-lists-untouched': And(n.chemorder.len == o.chemorder.len, lambda: forall(0, K, lambda cc: Implies(
                Or(corig == c, And(cc != corig, cc != c)),
                lambda: And(n.chemorder.lenof(cc) == o.chemorder.lenof(cc),
                            lambda: forall(0, o.chemorder.lenof(cc), lambda k: n.chemorder.at(cc, k) == o.chemorder.at(cc, k)))))),
            'removed-from-old-list-keeping-order': Implies(And(corig != c, corig >= 0), lambda: And(
                n.chemorder.lenof(corig) == o.chemorder.lenof(corig) - 1,
                lambda: exists(0, o.chemorder.lenof(corig), lambda p: And(
                    o.chemorder.at(corig, p) == ind,
                    lambda: forall(0, o.chemorder.lenof(corig) - 1, lambda k: n.chemorder.at(corig, k) == ite(
                        k < p, lambda: o.chemorder.at(corig, k), lambda: o.chemorder.at(corig, k + 1))))))),
            'appended-to-new-list': Implies(And(corig != c, c >= 0), lambda: And(
                n.chemorder.lenof(c) == o.chemorder.lenof(c) + 1,
                n.chemorder.at(c, o.chemorder.lenof(c)) == ind,
                lambda: forall(0, o.chemorder.lenof(c), lambda k: n.chemorder.at(c, k) == o.chemorder.at(c, k)))),
        }


# ---------------------------------------------------------------------------------------------
# concrete side: real Supercell objects for replay and run-time contract evaluation

import itertools, functools
import numpy as np

_real_cache = {}


def real_supercell(ncrys, nchem, L):
    """A real onsager.supercell.Supercell with crys.Nchem = ncrys species (one atom each), Nchem = nchem
    and L sites (L must be a multiple of ncrys).  NOSYM: group generation is irrelevant here."""
    from onsager import crystal, supercell
    key = (ncrys, nchem, L)
    if key not in _real_cache:
        if L % ncrys != 0 or nchem < ncrys or L == 0: return None
        basis = [[np.array([0.1 + 0.25 * k, 0.05 * k, 0.3 * k / 2])] for k in range(ncrys)]
        crys = crystal.Crystal(np.diag([1., 1.1, 1.2]), basis, chemistry=['A%d' % k for k in range(ncrys)], NOSYM=True)
        sup = supercell.Supercell(crys, np.diag([L // ncrys, 1, 1]), Nsolute=nchem - ncrys, NOSYM=True)
        _real_cache[key] = sup
    return _real_cache[key].copy()


def pos_ghost(obj):
    """g_pos[i] = position of site i in chemorder[occ[i]] (or -1): the run-time value of the ghost field"""
    out = []
    for i, c in enumerate(obj.occ):
        c = int(c)
        if 0 <= c < len(obj.chemorder) and i in obj.chemorder[c]: out.append(obj.chemorder[c].index(i))
        else: out.append(-1)
    return CSeq(out)


class _SupercellConcrete:
    def ghost_concrete(self, obj): return {'g_pos': pos_ghost(obj)}

    def build_self(self, cs):
        sup = real_supercell(cs.crys.Nchem, cs.Nchem, cs.occ.len)
        if sup is None: return None
        sup.occ = np.array(cs.occ.xs, dtype=int)
        sup.chemorder = [list(r) for r in cs.chemorder.xss]
        return sup

    def small_supercells(self, rng, tier):
        """every WF state of small supercells: L sites, species, all occupations, shuffled list orders"""
        for ncrys, nchem, L in ((1, 1, 2), (1, 2, 3), (1, 3, 3), (2, 2, 2), (2, 3, 4)) if tier == 'quick' else \
                ((1, 1, 3), (1, 2, 3), (1, 3, 4), (2, 2, 4), (2, 3, 4), (2, 4, 4), (3, 3, 3)):
            for occ in itertools.product(range(-1, nchem), repeat=L):
                if L == 4 and rng.random() < (0.6 if tier == 'quick' else 0.3): continue
                sup = real_supercell(ncrys, nchem, L)
                sup.occ = np.array(occ, dtype=int)
                co = [[i for i in range(L) if occ[i] == c] for c in range(nchem)]
                for l in co: rng.shuffle(l)
                sup.chemorder = co
                yield sup


class SetOccC(_SupercellConcrete, SetOcc):
    min_obligations = 40

    def build(self, conc):
        sup = self.build_self(conc.self)
        return (sup, (conc.v['ind'], conc.v['c'])) if sup is not None else (None, None)

    def concrete_states(self, rng, tier):
        for sup in self.small_supercells(rng, tier):
            for ind in range(-len(sup.occ) - 2, len(sup.occ) + 2):          # incl. negative (python-style) and out-of-range indices
                for c in range(-3, sup.Nchem + 2):
                    s2 = sup.copy()
                    yield s2, (ind, c)


# ---------------------------------------------------------------------------------------------
def listed(co, i, cmax=None):
    """site i appears in some list c < cmax"""
    cmax = co.len if cmax is None else cmax
    return exists(0, cmax, lambda c: exists(0, co.lenof(c), lambda k: co.at(c, k) == i, 'ls_k'), 'ls_c')


class Sane(Contract):
    """__sane__ returns True exactly when (a) every listed site has the occupation of its list and (b) every
    site that is not listed is vacant.  (It does NOT check duplicates: reorder's use of it needs a counting
    argument on top, see Reorder.)"""
    relpath, qualname = 'onsager/supercell.py', 'Supercell.__sane__'
    self_shape = {'occ': 'seq_int', 'chemorder': 'seq2_int'}
    params = {}
    modifies = ()
    result_shape = 'bool'

    def pre(self, s):
        occ, co = s.self.occ, s.self.chemorder
        return And(occ.len >= 0, co.len >= 0, lambda: forall(0, co.len, lambda c: co.lenof(c) >= 0),
                   lambda: forall2(0, co.len, lambda c: 0, lambda c: co.lenof(c),
                                   lambda c, k: And(co.at(c, k) >= 0, co.at(c, k) < occ.len)))

    @staticmethod
    def spec(occ, co):
        return And(forall2(0, co.len, lambda c: 0, lambda c: co.lenof(c), lambda c, k: occ[co.at(c, k)] == c),
                   lambda: forall(0, occ.len, lambda i: Implies(Not(listed(co, i)), lambda: occ[i] == -1)))

    def post(self, old, new, result):
        return {'result-is-spec': Iff(result, self.spec(old.self.occ, old.self.chemorder))}

    def inv_outer(cur, k, old):
        occ, co, occset = cur.self.occ, cur.self.chemorder, cur.v['occset']
        return And(forall2(0, k, lambda c: 0, lambda c: co.lenof(c), lambda c, j: occ[co.at(c, j)] == c),
                   lambda: forall(0, occ.len, lambda i: Iff(occset.has(i), listed(co, i, k))),
                   lambda: forall_int(lambda i: Implies(occset.has(i), And(i >= 0, i < occ.len))))

    def inv_inner(cur, k, old):
        occ, co, occset, c = cur.self.occ, cur.self.chemorder, cur.v['occset'], cur.v['c']
        return And(c >= 0, c < co.len,
                   forall2(0, c, lambda cc: 0, lambda cc: co.lenof(cc), lambda cc, j: occ[co.at(cc, j)] == cc),
                   lambda: forall(0, k, lambda j: occ[co.at(c, j)] == c),
                   lambda: forall(0, occ.len, lambda i: Iff(occset.has(i), Or(listed(co, i, c), exists(0, k, lambda j: co.at(c, j) == i)))),
                   lambda: forall_int(lambda i: Implies(occset.has(i), And(i >= 0, i < occ.len))))

    def inv_scan(cur, k, old):
        occ, co, occset = cur.self.occ, cur.self.chemorder, cur.v['occset']
        return And(forall2(0, co.len, lambda c: 0, lambda c: co.lenof(c), lambda c, j: occ[co.at(c, j)] == c),
                   lambda: forall(0, occ.len, lambda i: Iff(occset.has(i), listed(co, i))),
                   lambda: forall(0, k, lambda i: Implies(Not(occset.has(i)), lambda: occ[i] == -1)))

    loops = {0: inv_outer, 1: inv_inner, 2: inv_scan}


def is_perm(m, inv, L):
    """m is a permutation of range(L); inv is its inverse (ghost witness of surjectivity)"""
    return And(m.len == L, inv.len == L,
               lambda: forall(0, L, lambda i: And(m[i] >= 0, m[i] < L, inv[i] >= 0, inv[i] < L)),
               lambda: forall(0, L, lambda i: And(inv[m[i]] == i, m[inv[i]] == i)))


class IMul(_SupercellConcrete, Contract):
    """sup *= g : occ and chemorder are carried through the site permutation g.indexmap[0]."""
    relpath, qualname = 'onsager/supercell.py', 'Supercell.__imul__'
    self_shape = SELF
    params = {'other': {'indexmap': ('tuple', ['seq_int'])}}
    ghost_params = {'g_inv': 'seq_int'}
    consts = {'isinstance(other, crystal.GroupOp)': True}
    modifies = ('occ', 'chemorder', 'g_pos')

    def pre(self, s):
        return And(WFall(s.self), lambda: is_perm(s.v['other'].indexmap[0], s.v['g_inv'], s.self.occ.len))

    def ghost_exit(self, old, new):
        o, inv = old.self, old.v['g_inv']
        return {'g_pos': (o.occ.len, lambda j: o.g_pos[inv[j]])}

    def post(self, old, new, result):
        o, n = old.self, new.self
        m = old.v['other'].indexmap[0]
        return {
            **{'WF-' + k: v for k, v in WF(n).items()},
            'occ-permuted': And(n.occ.len == o.occ.len, lambda: forall(0, o.occ.len, lambda i: n.occ[m[i]] == o.occ[i])),
            'chemorder-permuted': And(n.chemorder.len == o.chemorder.len,
                                      lambda: forall(0, o.chemorder.len, lambda c: n.chemorder.lenof(c) == o.chemorder.lenof(c)),
                                      lambda: forall2(0, o.chemorder.len, lambda c: 0, lambda c: o.chemorder.lenof(c),
                                                      lambda c, k: n.chemorder.at(c, k) == m[o.chemorder.at(c, k)])),
        }

    def inv0(cur, k, old):
        o = old.self
        m, inv, gocc = old.v['other'].indexmap[0], old.v['g_inv'], cur.v['gocc']
        return And(gocc.len == o.occ.len,
                   seq_eq(cur.self.occ, o.occ), seq2_eq(cur.self.chemorder, o.chemorder), seq_eq(cur.self.g_pos, o.g_pos),
                   lambda: forall(0, o.occ.len, lambda i: gocc[i] == ite(inv[i] < k, lambda: o.occ[inv[i]], lambda: o.occ[i])))

    loops = {0: inv0}

    # concrete side
    def ghost_params_concrete(self, obj, args):
        m = list(args[0].indexmap[0])
        inv = [m.index(i) if i in m else -1 for i in range(len(m))]
        return {'g_inv': CSeq(inv)}

    def build(self, conc):
        from onsager import crystal
        sup = self.build_self(conc.self)
        if sup is None: return None, None
        m = conc.v['other'].indexmap[0].xs
        g = crystal.GroupOp(rot=np.eye(3, dtype=int), trans=np.zeros(3), cartrot=np.eye(3), indexmap=(tuple(m),))
        return sup, (g,)

    def concrete_states(self, rng, tier):
        from onsager import crystal
        for sup in self.small_supercells(rng, tier):
            L = len(sup.occ)
            perms = list(itertools.permutations(range(L)))
            for m in (perms if L <= 3 else rng.sample(perms, 6)):
                g = crystal.GroupOp(rot=np.eye(3, dtype=int), trans=np.zeros(3), cartrot=np.eye(3), indexmap=(tuple(m),))
                yield sup.copy(), (g,)


def WF_ex(s):
    """WF with the 'listed' clause stated existentially (equivalent to WF for some value of the ghost g_pos)"""
    occ, co = s.occ, s.chemorder
    d = dict(WF(s))
    d['occupied-sites-are-listed'] = forall(0, occ.len, lambda i: Implies(occ[i] >= 0, lambda: exists(
        0, co.lenof(occ[i]), lambda k: co.at(occ[i], k) == i, 'wfx')), 'wfx_i')
    return d


class SaneC(_SupercellConcrete, Sane):
    def build(self, conc):
        sup = real_supercell(1, 1, max(1, conc.self.occ.len))
        if sup is None or conc.self.occ.len == 0: return None, None
        sup.occ = np.array(conc.self.occ.xs, dtype=int); sup.chemorder = [list(r) for r in conc.self.chemorder.xss]
        return sup, ()

    def ghost_concrete(self, obj): return {}

    def concrete_states(self, rng, tier):
        for sup in self.small_supercells(rng, tier):
            yield sup.copy(), ()
            # and corrupted states: wrong entry, missing entry, duplicate entry
            for _ in range(3):
                s2 = sup.copy(); L = len(s2.occ)
                kind = rng.randrange(3)
                c = rng.randrange(s2.Nchem)
                if kind == 0: s2.chemorder[c].append(rng.randrange(L))
                elif kind == 1 and s2.chemorder[c]: s2.chemorder[c].pop()
                else: s2.occ[rng.randrange(L)] = rng.randrange(-1, s2.Nchem)
                yield s2, ()


# ---------------------------------------------------------------------------------------------
# Pigeonhole lemmas (counting argument behind reorder's use of __sane__, which does not look for duplicates).
#   R(n): for every f there is y in [0, n] with f[i] != y for all i in [0, n)      (n values cannot cover n+1)
#   T(n): for every m: m maps [0, n) into [0, n) and onto [0, n)  ==>  m is injective on [0, n)
# R is proved by induction on n (base + step obligations), T from R.  In each obligation the function at which the
# induction hypothesis / R is used is written out pointwise (substituted for the array variable) and the
# hypothesis' existential is named by a fresh constant; the goal's existential of R-step is given its witness.
_IA = z3.ArraySort(z3.IntSort(), z3.IntSort())


def _pigeonhole_obligations():
    F, M = z3.Consts('php_F php_M', _IA)
    n, y1, i, y, i0, j0 = z3.Ints('php_n php_y1 php_i php_y php_i0 php_j0')
    dom = lambda k, hi: z3.And(k >= 0, k < hi)
    # induction hypothesis R(n) at f1[i] = F[i] - 1 if F[i] > F[n] else F[i]; its witness is y1
    f1 = lambda k: z3.If(F[k] > F[n], F[k] - 1, F[k])
    w = z3.If(y1 >= F[n], y1 + 1, y1)
    # R(n-1) at h[i] = M[n-1] if i == j0 else M[i]  (the colliding slot j0 is refilled with the last element)
    h = lambda k: z3.If(k == j0, M[n - 1], M[k])
    return [
        ('pigeonhole-R:base', [], z3.And(z3.IntVal(0) >= 0, z3.IntVal(0) <= 0, z3.ForAll([i], z3.Implies(dom(i, 0), F[i] != 0)))),
        ('pigeonhole-R:step', [n >= 0, y1 >= 0, y1 <= n, z3.ForAll([i], z3.Implies(dom(i, n), f1(i) != y1))],
         z3.And(w >= 0, w <= n + 1, z3.ForAll([i], z3.Implies(dom(i, n + 1), F[i] != w)))),
        ('pigeonhole-T:onto-implies-injective',
         [n >= 0, z3.ForAll([i], z3.Implies(dom(i, n), dom(M[i], n))),
          z3.ForAll([y], z3.Implies(dom(y, n), z3.Exists([i], z3.And(dom(i, n), M[i] == y)))),
          0 <= i0, i0 < j0, j0 < n,
          y1 >= 0, y1 <= n - 1, z3.ForAll([i], z3.Implies(dom(i, n - 1), h(i) != y1))],
         M[i0] != M[j0]),
    ]


class Reorder(_SupercellConcrete, Contract):
    """reorder(mapping): newchemorder[c][i] = chemorder[c][mapping[c][i]]; ValueError (state unchanged) unless the
    result is consistent.  Precondition derived from the code: one map per species, each at least as long as its
    list, entries valid positions (otherwise IndexError / negative wrap-around -- not part of the property)."""
    relpath, qualname = 'onsager/supercell.py', 'Supercell.reorder'
    self_shape = SELF
    params = {'mapping': 'seq2_int'}
    modifies = ('chemorder', 'g_pos')
    callees = {'__sane__': Sane()}
    min_obligations = 15

    def pre(self, s):
        co, mp = s.self.chemorder, s.v['mapping']
        return And(WFall(s.self), mp.len == co.len,
                   lambda: forall(0, co.len, lambda c: mp.lenof(c) >= co.lenof(c)),
                   lambda: forall2(0, co.len, lambda c: 0, lambda c: co.lenof(c),
                                   lambda c, i: And(mp.at(c, i) >= 0, mp.at(c, i) < co.lenof(c))))

    @staticmethod
    def injective(mp, c, n):
        return forall2(0, n, lambda i: i + 1, lambda i: n, lambda i, j: mp.at(c, i) != mp.at(c, j), 'pi')

    @staticmethod
    def onto(co, mp, c, n):
        """every position p of the list is hit by some k (so the site at p reappears in the reordered list: the second
        conjunct follows from the first by congruence; it is written out, and used as the instantiation trigger,
        because the solver otherwise has no term that mentions p)"""
        return forall(0, n, lambda p: exists(0, n, lambda k: And(mp.at(c, k) == p, co.at(c, mp.at(c, k)) == co.at(c, p)), 'po_k'),
                      'po_p', pat=lambda p: co.at(c, p))

    @staticmethod
    def proper(s):
        """every map is a permutation of the positions of its list: (given the range precondition) one-to-one AND onto"""
        co, mp = s.self.chemorder, s.v['mapping']
        return forall(0, co.len, lambda c: And(Reorder.injective(mp, c, co.lenof(c)), lambda: Reorder.onto(co, mp, c, co.lenof(c))))

    raises = {'ValueError': lambda s: Not(Reorder.proper(s))}

    def lemma_obligations(self, s):
        return [] if BOUND[0] is not None else _pigeonhole_obligations()

    def facts(self, s):
        """T, instantiated at every row of the mapping (T is proved for every array and every n above)"""
        if BOUND[0] is not None: return []      # finite instance (counterexample search): facts only strengthen hypotheses
        co, mp = s.self.chemorder, s.v['mapping']
        return [forall(0, co.len, lambda c: Implies(
            And(forall(0, co.lenof(c), lambda i: And(mp.at(c, i) >= 0, mp.at(c, i) < co.lenof(c))), lambda: Reorder.onto(co, mp, c, co.lenof(c))),
            lambda: Reorder.injective(mp, c, co.lenof(c))), 'pf_c')]

    def post(self, old, new, result):
        # the exit value of the ghost g_pos is not definable as a term without the inverse maps, so the
        # postcondition states 'listed' existentially (WF_ex)
        o, n = old.self, new.self
        mp = old.v['mapping']
        return {
            **{'WF-' + k: v for k, v in WF_ex(n).items()},
            'occ-unchanged': seq_eq(n.occ, o.occ),
            'lists-reordered': And(n.chemorder.len == o.chemorder.len,
                                   lambda: forall(0, o.chemorder.len, lambda c: n.chemorder.lenof(c) == o.chemorder.lenof(c)),
                                   lambda: forall2(0, o.chemorder.len, lambda c: 0, lambda c: o.chemorder.lenof(c),
                                                   lambda c, i: n.chemorder.at(c, i) == o.chemorder.at(c, mp.at(c, i)))),
        }

    def build(self, conc):
        sup = self.build_self(conc.self)
        return (sup, ([list(r) for r in conc.v['mapping'].xss],)) if sup is not None else (None, None)

    def concrete_states(self, rng, tier):
        for sup in self.small_supercells(rng, tier):
            lens = [len(l) for l in sup.chemorder]
            if max(lens, default=0) == 0: continue
            for _ in range(4):
                mp = [[rng.randrange(n) for _ in range(n)] if rng.random() < 0.5 else rng.sample(range(n), n) for n in lens]
                yield sup.copy(), (mp,)


class FillPeriodic(_SupercellConcrete, Contract):
    """Supercell.fillperiodic: the loop and its calls to setocc are the real code; the expressions that pick WHICH sites
    (dictionary of atom tuples, search through the Wyckoff lists, the two-generator comprehension over cells x atoms) are
    outside the encoder subset and are abstracted: the list of selected sites is a ghost parameter g_sites about which only
    the range 0 <= site < len(occ) is assumed (it follows from the constructor: indexatom / Wyckofflist hold atom indices
    0..N-1, and 0 <= n < size, 0 <= i < N give 0 <= n N + i < N size = len(occ), proved below as a lemma).  Which sites a
    fill selects is therefore NOT part of what is proved here (run-time contract); what is proved is that ANY such fill
    preserves the invariant, sets exactly the selected sites to the species and leaves every other site alone."""
    relpath, qualname = 'onsager/supercell.py', 'Supercell.fillperiodic'
    self_shape = SELF
    params = {'ci': ('tuple', ['int', 'int']), 'Wyckoff': 'bool'}
    ghost_params = {'g_absent': 'bool', 'g_sites': 'seq_int'}
    modifies = ('occ', 'chemorder', 'g_pos')
    callees = {'setocc': SetOcc()}
    min_obligations = 10
    SITES = '[n * self.N + i for n in range(self.size) for i in indlist]'
    abstractions = {
        'ci not in self.indexatom': ('expr', lambda s: s.v['g_absent']),
        'self.indexatom[ci]': ('int', lambda v, s: And(v >= 0, v < s.self.N)),
        'next((nset for nset in self.Wyckofflist if ind in nset), None) if Wyckoff else (ind,)':
            ('seq_int', lambda v, s: And(v.len >= 0, lambda: forall(0, v.len, lambda k: And(v[k] >= 0, v[k] < s.self.N)))),
        SITES: ('expr', lambda s: s.v['g_sites']),
    }
    ABSTRACTED = ['`ci not in self.indexatom` -> ghost boolean (IndexError is specified by it)',
                  '`self.indexatom[ci]` -> an atom index in [0, N)', 'the Wyckoff-set lookup -> a list of atom indices in [0, N)',
                  'the cells x atoms comprehension -> ghost list g_sites of site indices in [0, len(occ)) (range proved as lemma site-index-in-range)']

    def pre(self, s):
        c, sites = s.v['ci'][0], s.v['g_sites']
        return And(WFall(s.self), s.self.N >= 1, s.self.size >= 0, s.self.N * s.self.size == s.self.occ.len,
                   sites.len >= 0, lambda: forall(0, sites.len, lambda k: And(sites[k] >= 0, sites[k] < s.self.occ.len)),
                   # keys of indexatom are (chemistry, index) of the crystal: a present key names a chemistry of the crystal
                   Implies(Not(s.v['g_absent']), And(c >= 0, c < s.self.crys.Nchem)))

    raises = {'IndexError': lambda s: s.v['g_absent']}

    def lemma_obligations(self, s):
        n, i, N, size = z3.Ints('fp_n fp_i fp_N fp_size')
        return [('site-index-in-range', [n >= 0, n < size, i >= 0, i < N, N >= 1], z3.And(n * N + i >= 0, n * N + i < N * size))]

    @staticmethod
    def filled(cur, k, old):
        o, c, sites = old.self, old.v['ci'][0], old.v['g_sites']
        return And(cur.self.occ.len == o.occ.len, lambda: forall(0, o.occ.len, lambda x: cur.self.occ[x] == ite(
            exists(0, k, lambda j: sites[j] == x, 'fpe'), c, lambda: o.occ[x]), 'fpx'))

    def inv0(cur, k, old):
        return {'WF': WFall(cur.self), 'shape': And(cur.self.Nchem == old.self.Nchem, cur.self.crys.Nchem == old.self.crys.Nchem),
                'selected-sites-so-far-hold-the-species-others-untouched': FillPeriodic.filled(cur, k, old)}

    loops = {0: inv0}

    def post(self, old, new, result):
        return {**{'WF-' + k: v for k, v in WF(new.self).items()},
                'selected-sites-hold-the-species-others-untouched': FillPeriodic.filled(new, old.v['g_sites'].len, old)}

    # concrete side
    def ghost_params_concrete(self, obj, args):
        ci, wy = args
        absent = tuple(ci) not in obj.indexatom
        sites = []
        if not absent:
            ind = obj.indexatom[tuple(ci)]
            indlist = next((nset for nset in obj.Wyckofflist if ind in nset), None) if wy else (ind,)
            sites = [n * obj.N + i for n in range(obj.size) for i in indlist]
        return {'g_absent': absent, 'g_sites': CSeq(sites)}

    def build(self, conc):
        # the ghost selection of a solver model cannot be imposed on a real supercell (it is what the abstracted expressions compute):
        # the real object is built from the model's occupation and the fill is asked for the model's species where that atom exists
        sup = self.build_self(conc.self)
        if sup is None: return None, None
        c0 = conc.v['ci'][0]
        keys = [k for k in sup.indexatom if k[0] == c0] or list(sup.indexatom)
        return sup, (keys[-1], bool(conc.v['Wyckoff']))

    def concrete_states(self, rng, tier):
        for sup in self.small_supercells(rng, tier):
            for ci in list(sup.indexatom)[:2] + [(7, 0)]:
                for wy in (True, False):
                    yield sup.copy(), (ci, wy)


def _key(text):
    import ast as _ast
    return _ast.unparse(_ast.parse(text, mode='eval').body)


class EquivalenceMap(_SupercellConcrete, Contract):
    """Supercell.equivalencemap, soundness (C27): whatever operation and mapping it returns, the operation carries the occupation of
    `self` onto that of `other` and the mapping satisfies the documented reorder relation.

    Under contract is the function from `mapping = None` on (the search loop, the occupation test, the construction of the mapping).
    Dropped prefix (statements 1-2 of the body: the defect-count pre-filter): it only returns (None, None) early -- which satisfies the
    soundness postcondition trivially -- and chooses the lists `shortset` / `matchset`, which are used in one expression only, the
    short-list filter `any(indexmap[i] not in matchset for i in shortset)` that skips candidates: it is abstracted to an arbitrary
    boolean (skipping more or fewer candidates cannot make a returned answer wrong).  Completeness (an equivalent pair is found) is
    therefore NOT part of what is proved; it is checked at run time against brute force.
    Abstracted further: `self.G` (a frozenset of GroupOp) -> ghost list g_maps of the site permutations indexmap[0] in iteration order;
    `np.any(gocc != other.occ)` -> its elementwise meaning; `gclist.index(index)` -> the specification of list.index on the path where
    it does not raise (partial correctness: a ValueError is not a wrong answer)."""
    relpath, qualname = 'onsager/supercell.py', 'Supercell.equivalencemap'
    self_shape = SELF
    params = {'other': {'occ': 'seq_int', 'chemorder': 'seq2_int'}}
    ghost_params = {'g_maps': 'seq2_int'}
    modifies = ()
    body_from = 'mapping = None'
    loop_keeps = {2: ('mapping',)}
    local_shapes = {'mapping': 'seq2_int'}
    min_obligations = 8
    abstractions = {
        _key('self.G'): ('expr', lambda s: s._ps.env['g_maps']),
        _key('g.indexmap[0]'): ('expr', lambda s: s._ps.env['g']),
        _key('any(indexmap[i] not in matchset for i in shortset)'): ('bool', lambda v, s: True),
        _key('np.any(gocc != other.occ)'): ('expr', lambda s: exists(0, s.v['gocc'].len, lambda i: s.v['gocc'][i] != s.v['other'].occ[i], 'emx')),
        _key('gclist.index(index)'): ('int', lambda v, s: And(v >= 0, v < s.v['gclist'].len, lambda: s.v['gclist'][v] == s.v['index'])),
    }
    ABSTRACTED = ['statements before `mapping = None` dropped (early `return None, None` exits and the choice of shortset / matchset)',
                  '`any(indexmap[i] not in matchset for i in shortset)` -> arbitrary boolean', '`self.G` -> ghost list of site permutations',
                  '`np.any(gocc != other.occ)` -> exists i. gocc[i] != other.occ[i]', '`gclist.index(index)` -> specification of list.index without the raising path']

    def pre(self, s):
        o, maps, L = s.v['other'], s.v['g_maps'], s.self.occ.len
        return And(WFall(s.self), o.occ.len == L, o.chemorder.len == s.self.chemorder.len, maps.len >= 0,
                   lambda: forall(0, maps.len, lambda a: maps.lenof(a) == L, 'em_a'),
                   # every operation of a supercell carries a permutation of the sites: in range and one-to-one
                   lambda: forall2(0, maps.len, lambda a: 0, lambda a: L, lambda a, i: And(maps.at(a, i) >= 0, maps.at(a, i) < L), 'em_ai'),
                   lambda: forall(0, maps.len, lambda a: forall2(0, L, lambda i: i + 1, lambda i: L, lambda i, j: maps.at(a, i) != maps.at(a, j), 'em_ij'), 'em_a2'))

    def inv_search(cur, k, old):
        return {'buffer-length': cur.v['gocc'].len == old.self.occ.len,
                'self-unchanged': And(seq_eq(cur.self.occ, old.self.occ), seq2_eq(cur.self.chemorder, old.self.chemorder))}

    def inv_apply(cur, k, old):
        m, gocc, occ = cur.v['indexmap'], cur.v['gocc'], old.self.occ
        return {'buffer-length': gocc.len == occ.len,
                'self-unchanged': And(seq_eq(cur.self.occ, old.self.occ), seq2_eq(cur.self.chemorder, old.self.chemorder)),
                'images-so-far-hold-the-occupation': forall(0, k, lambda i: gocc[m[i]] == occ[i], 'em_img')}

    def inv_mapping(cur, k, old):
        mp, go, oc = cur.v['mapping'], cur.v['gorder'], old.v['other'].chemorder
        return {'rows-so-far': And(mp.len == k, lambda: forall(0, k, lambda c: mp.lenof(c) == oc.lenof(c), 'em_ml')),
                'entries-so-far-point-at-the-listed-site': forall2(0, k, lambda c: 0, lambda c: oc.lenof(c),
                        lambda c, i: And(mp.at(c, i) >= 0, mp.at(c, i) < go.lenof(c), lambda: go.at(c, mp.at(c, i)) == oc.at(c, i)), 'em_me'),
                'self-unchanged': And(seq_eq(cur.self.occ, old.self.occ), seq2_eq(cur.self.chemorder, old.self.chemorder))}

    loops = {2: inv_search, 3: inv_apply, 4: inv_mapping}

    def post(self, old, new, result):
        g, mp = result
        if g is None:
            return {'no-answer-is-a-pair-of-None': mp is None}
        o, me = old.v['other'], old.self
        return {
            'operation-is-one-of-the-group': exists(0, old.v['g_maps'].len, lambda a: seq_eq(g, old.v['g_maps'].row(a)), 'em_in'),
            'operation-carries-the-occupation-of-self-onto-other': forall(0, me.occ.len, lambda i: o.occ[g[i]] == me.occ[i], 'em_occ'),
            'mapping-satisfies-the-reorder-relation': And(mp.len == o.chemorder.len, lambda: forall2(0, o.chemorder.len, lambda c: 0, lambda c: o.chemorder.lenof(c),
                        lambda c, i: And(mp.lenof(c) == o.chemorder.lenof(c), mp.at(c, i) >= 0, mp.at(c, i) < me.chemorder.lenof(c),
                                         lambda: g[me.chemorder.at(c, mp.at(c, i))] == o.chemorder.at(c, i)), 'em_map')),
        }


C28_CONTRACTS = [SetOccC, IMul, SaneC, Reorder, FillPeriodic]
C27_CONTRACTS = [EquivalenceMap]
ASSUMPTIONS = [
    'python ints are mathematical integers; numpy integer arrays do not overflow',
    'inner lists of chemorder are distinct objects (no aliasing between rows): checked syntactically -- every assignment to self.chemorder in class Supercell must be a list comprehension / fresh list / the saved previous value',
    'reorder: the exit value of the ghost field g_pos is chosen (the listed-clause of WF is stated existentially there); WF with the ghost follows by choice',
    'fillperiodic: three expressions outside the encoder subset are abstracted (the rest -- the loop, the calls to setocc -- is the real code): ' + '; '.join(FillPeriodic.ABSTRACTED)
    + '; class invariant assumed at entry: len(occ) = N * size, keys of indexatom are (chemistry, index) pairs of the crystal',
]
TRUSTED = [
    'pyvc encoder model of CPython list.index/pop/append, set add/in, numpy 1-D integer array load/store/copy, list comprehension as map, zip of equal-length lists',
    'z3 (python API) and /usr/bin/cvc5 on the queries posed',
    'ast extraction of the function bodies from the current working tree (docstrings/comments/decorators dropped)',
    'reorder, pigeonhole lemmas: the solver checks R(0), R(n) => R(n+1) and R => T as three obligations; trusted meta-steps are induction over n, '
    'naming the witness of an existential hypothesis by a fresh constant, existence of the pointwise-defined functions at which the hypotheses are '
    'used (written out in place of the array variable), and instantiating the proved T at each row of `mapping`',
]
GAPS = [
    'Supercell.__setitem__, __mul__/__rmul__, copy, POSCAR, POSCAR_occ are outside the encoder subset (position lookup, string formatting/parsing, deepcopy): they are covered only by run-time contracts over bounded histories on real objects (level B, not proved). POSCAR_occ mutates state only through setocc (proved), which the history check exercises.',
    'fillperiodic is proved to preserve the invariant and to set exactly the selected sites for ANY selection in range; WHICH sites it selects (the Wyckoff lookup and the cells x atoms enumeration) is abstracted and only checked at run time',
]


def c28_extra(rep, tier):
    """syntactic freshness obligation + bounded history exploration on real objects"""
    import ast, time, multiprocessing as mp
    from vf import extract
    from vf.common import Ob, SEED
    from contracts import supercell_hist as H
    # (1) every assignment to self.chemorder is a fresh list (no aliasing between rows / with a caller's list)
    #     A local name is followed to its definitions in the same method (whatever it is called); a definite alias (a parameter, a field of
    #     another object, a row of another list) fails; anything the walk cannot resolve (the result of a helper, say) is UNDECIDED.
    t = time.time(); bad = []; unknown = []
    tree, _src = extract.module_ast('onsager/supercell.py')
    methods = {f.name: f for c_ in ast.walk(tree) if isinstance(c_, ast.ClassDef) and c_.name == 'Supercell' for f in c_.body if isinstance(f, ast.FunctionDef)}
    def fresh(v, fn, depth=0):
        """True: a new list of new lists; False: shares storage with something else; None: not resolved"""
        if isinstance(v, (ast.ListComp, ast.List)): return True
        if isinstance(v, ast.Call) and ast.unparse(v.func) in ('copy.deepcopy', 'deepcopy'): return True
        if isinstance(v, ast.Attribute) and ast.unparse(v) == 'self.chemorder': return True          # the object's own (earlier) list, put back
        if isinstance(v, ast.Attribute) and v.attr == 'chemorder' and isinstance(v.value, ast.Name) and v.value.id != 'self':
            return True if depth == 0 else False          # `self.chemorder = other.chemorder` is refused below unless it is the swap idiom
        if isinstance(v, ast.Name) and depth < 3:
            params = {a.arg for a in fn.args.args}
            defs = [n.value for n in ast.walk(fn) if isinstance(n, ast.Assign) and any(isinstance(t_, ast.Name) and t_.id == v.id for t_ in n.targets)]
            tdefs = [n for n in ast.walk(fn) if isinstance(n, ast.Assign) and any(isinstance(t_, ast.Tuple) and any(isinstance(x, ast.Name) and x.id == v.id for x in t_.elts) for t_ in n.targets)]
            for n in tdefs:
                for t_ in n.targets:
                    if isinstance(t_, ast.Tuple) and isinstance(n.value, ast.Tuple) and len(t_.elts) == len(n.value.elts):
                        defs += [val_ for x, val_ in zip(t_.elts, n.value.elts) if isinstance(x, ast.Name) and x.id == v.id]
                    else: return None
            if not defs: return False if v.id in params else None
            rs = [fresh(d_, fn, depth + 1) for d_ in defs]
            return False if False in rs else (None if None in rs else True)
        return None
    for fname, node in extract.class_assignments('onsager/supercell.py', 'Supercell', 'chemorder'):
        val = node.value
        vals = val.elts if isinstance(val, ast.Tuple) else [val]
        for v in vals:
            if isinstance(v, ast.Attribute) and v.attr == 'chemorder': continue          # tuple swap `self.chemorder, x.chemorder = x.chemorder, self.chemorder` / re-binding of the field itself
            r = fresh(v, methods.get(fname))
            if r is True: continue
            (bad if r is False else unknown).append('%s line %d: %s' % (fname, node.lineno, ast.unparse(node)[:80]))
    rep.add(Ob('Supercell::chemorder-assignments-are-fresh-lists', 'P', 'fail' if bad else ('undecided' if unknown else 'ok'), 'ast-frame', time.time() - t,
               '; '.join(bad or ['not resolved to a new list: ' + u for u in unknown]), witness={'replayed': False, 'signature': 'chemorder-alias'} if bad else None,
               function='onsager/supercell.py::Supercell'))
    # (2) histories
    cfgs = H.configs(tier)
    args = [(label, i, tier, SEED) for i, (label, _) in enumerate(cfgs)]
    ctx = mp.get_context('fork')
    t = time.time()
    with ctx.Pool(min(16, len(args))) as pool:
        res = pool.map(H.run_config, args)
    for (label, _), (n, nsig, sample, viol) in zip(cfgs, res):
        rep.b_evals += n
        for k in range(nsig): rep.b_cases.add((label, k))
        if sample: rep.sample(sample)
        name = 'Supercell::history-contracts[%s]' % label
        if viol:
            rep.add(Ob(name, 'B', 'fail', 'rtc', time.time() - t, 'clause %s violated: %s' % (viol['clause'], viol['detail']),
                       witness=dict(viol, replayed=True, signature=viol['clause']), function='onsager/supercell.py::Supercell'))
        else:
            rep.add(Ob(name, 'B', 'ok', 'rtc', time.time() - t, '%d operations checked, %d distinct (operation, occupation) cases' % (n, nsig),
                       function='onsager/supercell.py::Supercell'))
