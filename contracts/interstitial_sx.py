"""Level S (symbolic-bounded) contracts for OnsagerCalc.Interstitial.diffusivity (C02, C04, C11).

What runs: the source text of onsager/OnsagerCalc.py of the current tree, executed by CPython (vf.symx.sx.load_module), on
*symbolic* prefactors and energies for every catalogue network.  The crystal, the site list, the jump network and the vector
basis are the concrete ones the real constructor computes (the network is the enumerated bound: level S, not P); every double
in them is converted to the exact rational it denotes.  Module globals substituted for the call, and nothing else:
    np      -> proxy: zeros() gives object arrays of exact zeros, exp / sqrt dispatch to vf.symx.lf on symbolic values
    solve   -> exact fraction-free solve (adjugate / determinant) on symbolic matrices      [scipy.linalg.solve contract: A x = b]
    pinv    -> not modelled: on the pseudo-inverse branch the run stops at the solve and the obligations are stated on its inputs
    min     -> on symbolic lists an opaque energy generator (the obligations then hold for ANY reference value, which is
               stronger than what the code needs: the reference only serves against overflow)
One run therefore covers every value of every prefactor (positive) and energy (real), with exp(E/2) an independent positive
generator (see lf.py for why that is sound).

Contract clauses (names are the obligation names):
  exact (identities of rational functions; hold for arbitrary geometry constants)
    C04  energy-shift / reference-value invariance, joint prefactor scaling, homogeneity of degree 1 in the rates of D and of
         the barrier output
    C02  rho sums to one; symmrate = sqrt(rho_i) rate / sqrt(rho_j); the q=0 rate matrix is symmetric with null vector
         sqrt(rho) (detailed balance); the bias is orthogonal to it; D0 is the uncorrelated sum
  to coefficient tolerance 1e-9 (identities that rest on the crystal symmetry encoded in floating-point geometry constants: the
  residual polynomial, over the common denominator, has every coefficient below 1e-9 of the largest coefficient of either side)
    C02  the symmetry-reduced solution gamma, expanded in the vector basis, solves the FULL N x N bias equation, and the returned
         D equals D0 + sum_i bias_i (x) Gamma_i: with the null-vector clauses above this is the textbook CTMC formula
    C11  barrier output == - d D / d beta, where d/d beta acts on the returned D as sum_E E (d/dE + (X_E / 2) d/dX_E)"""
import sys, time, builtins
import numpy as np
import scipy.linalg
from vf.common import Ob, Undecided
from vf.symx import sx, lf

TOL = 1e-9
MAX_NV = 3
STATE = {'dom': None}
REWRITES = ['module global np -> proxy (zeros -> exact-zero object arrays; exp, sqrt -> exact symbolic forms)',
            'module global solve -> exact fraction-free solve on symbolic matrices',
            'builtin min on a symbolic list -> opaque reference generator',
            'pinv branch: run stopped at bias_solver, obligations stated on its inputs']


class _Stop(Exception):
    pass


def _ew(fn):
    uf = np.frompyfunc(fn, 1, 1)
    def g(x):
        if isinstance(x, lf.LF): return fn(x)
        if isinstance(x, np.ndarray) and x.dtype == object and x.size and isinstance(x.flat[0], lf.LF): return uf(x)
        return None
    return g


class Proxy(sx.NPShim):
    def zeros(self, shape, dtype=float, **k):
        if STATE['dom'] is not None and dtype is float:
            a = np.empty(shape, dtype=object); a[...] = STATE['dom'].const(0); return a
        return np.zeros(shape, dtype=dtype, **k)

    def exp(self, x, *a, **k):
        r = _ew(lf.lf_exp)(x)
        return r if r is not None else np.exp(x, *a, **k)

    def sqrt(self, x, *a, **k):
        r = _ew(lf.lf_sqrt)(x)
        return r if r is not None else np.sqrt(x, *a, **k)


def _solve(A, b, **kw):
    if lf.is_lf(A) or lf.is_lf(b):
        return lf.solve_exact(STATE['dom'], np.asarray(A, dtype=object), np.asarray(b, dtype=object))
    return scipy.linalg.solve(A, b, **kw)


def _min(*a, **k):
    if len(a) == 1 and lf.is_lf(a[0]):
        dom = STATE['dom']
        name = 'M%d' % STATE['nmin']; STATE['nmin'] += 1
        if name not in dom.g: raise Undecided('more opaque minima than reserved generators')
        return dom.gen(name)
    return builtins.min(*a, **k)


_M = [None]


def module():
    if _M[0] is None:
        M = sx.load_module('onsager/OnsagerCalc.py', variant='lf')
        M.__dict__['np'] = Proxy()
        M.__dict__['solve'] = _solve
        M.__dict__['min'] = _min
        _M[0] = M
    return _M[0]


def make_domain(Ns, Nj):
    names, pos = [], []
    for w in range(Ns): names += ['P%d' % w, 'E%d' % w, 'XE%d' % w]; pos += ['P%d' % w]
    for t in range(Nj): names += ['Q%d' % t, 'T%d' % t, 'XT%d' % t]; pos += ['Q%d' % t]
    names += ['M%d' % i for i in range(6)] + ['XM%d' % i for i in range(6)] + ['C', 'XC', 'S', 'LAM']
    pos += ['S', 'LAM']
    dom = lf.Dom(names, positive=pos)
    for w in range(Ns): dom.energy('E%d' % w, 'XE%d' % w)
    for t in range(Nj): dom.energy('T%d' % t, 'XT%d' % t)
    for i in range(6): dom.energy('M%d' % i, 'XM%d' % i)
    dom.energy('C', 'XC')
    return dom


def run(d, dom, pre, be, preT, beT, stop_at_solver=False):
    """the real diffusivity(CalcDeriv=True) on symbolic data -> (result or None, locals at exit)"""
    STATE['dom'] = dom; STATE.setdefault('nmin', 0)
    cap = {}
    code = type(d).diffusivity.__code__

    def tracer(frame, ev, arg):
        if frame.f_code is code:
            def loc(frame, ev, arg):
                if ev == 'return': cap.update(frame.f_locals)
                return loc
            return loc
        return None
    saved = d.bias_solver
    if stop_at_solver:
        def stub(omega, b, scale=0.): raise _Stop()
        d.bias_solver = stub
    sys.settrace(tracer)
    out = None
    try:
        out = d.diffusivity(pre, be, preT, beT, CalcDeriv=True)
    except _Stop:
        pass
    finally:
        sys.settrace(None); STATE['dom'] = None; d.bias_solver = saved
    return out, cap


def tol_same(A, B, tol=TOL, extra_scale=()):
    """coefficientwise comparison of two LF arrays over ONE common denominator -> (ok, worst residual coefficient relative
    to the largest coefficient of any component of either side, or of the arrays in `extra_scale`)"""
    A = np.asarray(A, dtype=object); B = np.asarray(B, dtype=object)
    items = list(A.flat) + list(B.flat) + [x for arr in extra_scale for x in np.asarray(arr, dtype=object).flat]
    dom = items[0].dom
    L = {}
    for x in items: L = lf._lcm(L, x.d)
    def num(x): return dom.reduce_roots(x.n * lf._prod(dom, L, x.d))
    def mc(p): return max([abs(float(c)) for c in p.coeffs()] + [0.0])
    scale = max(mc(num(x)) for x in items)
    rr = max(mc(num(a) - num(b)) for a, b in zip(A.flat, B.flat))
    if scale == 0.0: return rr == 0.0, rr
    return rr / scale <= tol, rr / scale


def eliminate_roots(x):
    """W-free representation of an LF that is even in every root generator"""
    dom = x.dom
    n = dom.reduce_roots(x.n)
    d = {}
    for f, k in x.d.items():
        name = None
        for w in dom.roots:
            if f == dom.g[w]: name = w
        if name is None:
            for w in dom.roots:
                if f.degree(dom.g[w]) > 0: raise Undecided('root generator inside a denominator factor')
            d[f] = d.get(f, 0) + k
        else:
            if k % 2: raise Undecided('odd power of a square root in a denominator')
            Z = dom.roots[name]; d[Z] = d.get(Z, 0) + k // 2
    for w in dom.roots:
        if n.degree(dom.g[w]) > 0: raise Undecided('odd power of a square root in a numerator')
    return lf.LF(dom, n, d)


def ddbeta(x):
    """sum over energies E of E * d/dE applied to an LF (exp generators follow: d X_E / dE = X_E / 2)"""
    dom = x.dom
    x = eliminate_roots(x)
    den = lf._prod(dom, x.d)
    def D(p):
        out = dom.R(0)
        for e, xe in dom.expgen.items():
            E, X = dom.g[e], dom.g[xe]
            out += E * (p.diff(E) + X * p.diff(X) * dom.R(lf.QQ(1, 2)))
        return out
    # (n / den)' = (n' den - n den') / den^2
    num = D(x.n) * den - x.n * D(den)
    return lf.LF(dom, num, {f: 2 * k for f, k in x.d.items()})


def check_network(cid, d_real_entry):
    """-> list of (obligation name, status, secs, detail)"""
    M = module()
    e = d_real_entry
    c, chem = e['crys'], e['chem']
    d = M.Interstitial(c, chem, c.sitelist(chem), c.jumpnetwork(chem, e['cutoff']))
    Ns, Nj = len(d.sitelist), len(d.jumpnetwork)
    dom = make_domain(Ns, Nj)
    g = dom.gen
    # exact geometry
    d.jumpnetwork = [[((i, j), lf.lift(dom, dx)) for (i, j), dx in jl] for jl in d.jumpnetwork]
    d.VectorBasis = [lf.lift(dom, v) for v in d.VectorBasis]
    if d.NV: d.VV = lf.lift(dom, d.VV)
    P = [g('P%d' % w) for w in range(Ns)]; E = [g('E%d' % w) for w in range(Ns)]
    Q = [g('Q%d' % t) for t in range(Nj)]; T = [g('T%d' % t) for t in range(Nj)]
    C, S, LAM = g('C'), g('S'), g('LAM')
    pinv_branch = d.NV > 0 and not d.omega_invertible
    big = d.NV > MAX_NV         # the exact solve is not attempted beyond MAX_NV basis functions: obligations on its inputs instead
    stop = pinv_branch or big
    out = []
    STATE['nmin'] = 0

    def ob(name, fn):
        t = time.time()
        try:
            r = fn()
            ok, det = (r if isinstance(r, tuple) else (r, ''))
            out.append((name, 'ok' if ok else 'fail', time.time() - t, str(det)))
        except Undecided as ex:
            out.append((name, 'undecided', time.time() - t, str(ex)))

    base_in = ([p * p for p in P], E, Q, T)
    res0, L0 = run(d, dom, *base_in, stop_at_solver=stop)
    variants = {
        'energy-shift': ([p * p for p in P], [x + C for x in E], Q, [x + C for x in T]),
        'joint-prefactor-scaling': ([S * S * p * p for p in P], E, [S * S * q for q in Q], T),
        'rate-scaling': ([p * p for p in P], E, [LAM * q for q in Q], T),
    }
    factor = {'energy-shift': dom.one, 'joint-prefactor-scaling': dom.one, 'rate-scaling': LAM}
    if not stop:
        D, Db = res0
        for vn, inp in variants.items():
            res, _ = run(d, dom, *inp)
            f = factor[vn]
            ob('C04:%s:D' % vn, lambda res=res, f=f: lf.all_same(res[0], f * D))
            ob('C04:%s:barrier-output' % vn, lambda res=res, f=f: lf.all_same(res[1], f * Db))
    else:
        keys = ['D0', 'Db', 'omega_v', 'bias_v', 'domega_v', 'dbias_v']
        for vn, inp in variants.items():
            _, L = run(d, dom, *inp, stop_at_solver=True)
            f = factor[vn]
            ob('C04:%s:inputs-of-the-%s' % (vn, 'pseudo-inverse-solve' if pinv_branch else 'linear-solve(NV>%d)' % MAX_NV), lambda L=L, f=f: all(lf.all_same(L[k], f * L0[k]) for k in keys))
    # ---- C02 lemmas on the locals of the base run
    rho, sqrtrho, omega, bias, D0 = L0['rho'], L0['sqrtrho'], L0['omega_ij'], L0['bias_i'], L0['D0']
    N = d.N
    ob('C02:rho-sums-to-one', lambda: builtins.sum(rho).same(1))
    ob('C02:sqrtrho-squared-is-rho', lambda: all((sqrtrho[i] * sqrtrho[i]).same(rho[i]) for i in range(N)))
    # independent spec of the rates from the class data
    w_of = list(d.invmap)
    def spec_rate(i, t): return Q[t] * lf.lf_exp(E[w_of[i]] - T[t]) / (P[w_of[i]] * P[w_of[i]])
    def rate_clauses():
        rl = L0['ratelist']; sl = L0['symmratelist']
        for t, jl in enumerate(d.jumpnetwork):
            for k, ((i, j), dx) in enumerate(jl):
                if not rl[t][k].same(spec_rate(i, t)): return False, 'rate of jump %d/%d' % (t, k)
                if not (sl[t][k] * sqrtrho[j]).same(sqrtrho[i] * rl[t][k]): return False, 'symmrate of jump %d/%d' % (t, k)
        return True
    ob('C02:rates-are-transition-state-rates-and-symmrate-is-sqrt-rho-weighted', rate_clauses)
    ob('C02:detailed-balance:rate-matrix-symmetric', lambda: all(omega[i, j].same(omega[j, i]) for i in range(N) for j in range(i)))
    ob('C02:detailed-balance:sqrt-rho-is-null-vector', lambda: lf.all_zero(np.dot(omega, sqrtrho)))
    ob('C02:bias-orthogonal-to-null-vector', lambda: lf.all_zero(np.dot(sqrtrho, bias)))
    def d0_spec():
        tot = np.empty((d.dim, d.dim), dtype=object); tot[...] = dom.const(0)
        for t, jl in enumerate(d.jumpnetwork):
            for (i, j), dx in jl:
                tot = tot + np.outer(dx, dx) * (rho[i] * spec_rate(i, t) * dom.const(0.5))
        return lf.all_same(D0, tot)
    ob('C02:D0-is-the-uncorrelated-sum', d0_spec)
    def bias_spec():
        tot = np.empty((N, d.dim), dtype=object); tot[...] = dom.const(0)
        for t, jl in enumerate(d.jumpnetwork):
            for (i, j), dx in jl: tot[i] = tot[i] + dx * (sqrtrho[i] * spec_rate(i, t))
        return lf.all_same(bias, tot)
    ob('C02:bias-is-the-rate-weighted-displacement', bias_spec)
    if d.NV > 0 and not stop:
        gam = L0['gamma_v']
        Gam = builtins.sum(gam[a] * d.VectorBasis[a] for a in range(d.NV))
        ob('C02:reduced-solution-solves-the-full-bias-equation(tol)', lambda: tol_same(np.dot(omega, Gam), bias))
        def dcorr():
            corr = np.empty((d.dim, d.dim), dtype=object); corr[...] = dom.const(0)
            for i in range(N): corr = corr + np.outer(bias[i], Gam[i])
            return tol_same(res0[0], D0 + corr)
        ob('C02:returned-D-is-D0-plus-bias-dot-Gamma(tol)', dcorr)
    elif d.NV == 0:
        ob('C02:returned-D-is-D0(no vector basis)', lambda: lf.all_same(res0[0], D0))
        def bias_zero():
            # the sum over each site's jumps vanishes by symmetry (floating-point geometry): compare with the sum of |dx| terms
            mag = np.empty((N, d.dim), dtype=object); mag[...] = dom.const(0)
            for t, jl in enumerate(d.jumpnetwork):
                for (i, j), dx in jl: mag[i] = mag[i] + np.array([x if lf.evaluate(x, {}) >= 0 else -x for x in dx], dtype=object) * (sqrtrho[i] * spec_rate(i, t))
            return tol_same(bias, np.vectorize(lambda x: dom.const(0), otypes=[object])(bias), extra_scale=(mag,))
        ob('C02:bias-vanishes(no vector basis)(tol)', bias_zero)
    # ---- C03: symmetry in the Cartesian indices and invariance under the point group, for every value of the prefactors and energies
    ob('C03:uncorrelated-part-symmetric', lambda: lf.all_same(D0, D0.T))
    rots = []
    for gop in c.G:
        if not any(np.allclose(gop.cartrot, r) for r in rots): rots.append(gop.cartrot)
    def invariant(Tn):
        for r in rots:
            R = lf.lift(dom, r)
            if not tol_same(np.dot(R, np.dot(Tn, R.T)), Tn): return False, 'not invariant under the rotation %s' % np.round(r, 4).tolist()
        return True
    ob('C03:uncorrelated-part-invariant-under-the-point-group(tol)', lambda: invariant(D0))
    if not stop:
        D, Db = res0
        ob('C03:D-symmetric(tol)', lambda: tol_same(D, D.T))
        ob('C03:D-invariant-under-the-point-group(tol)', lambda: invariant(D))
        Dbe = np.vectorize(eliminate_roots, otypes=[object])(Db)
        ob('C03:barrier-output-symmetric(tol)', lambda: tol_same(Dbe, Dbe.T))
        ob('C03:barrier-output-invariant-under-the-point-group(tol)', lambda: invariant(Dbe))
    if not stop:
        D, Db = res0
        def deriv():
            dD = np.empty(D.shape, dtype=object)
            for idx in np.ndindex(D.shape): dD[idx] = -ddbeta(D[idx])
            return tol_same(np.vectorize(eliminate_roots, otypes=[object])(Db), dD)
        ob('C11:barrier-output-is-minus-dD-dbeta(tol)', deriv)
    return out, dict(N=d.N, NV=d.NV, classes=(Ns, Nj), pinv_branch=pinv_branch, solve_not_attempted=big, roots=len(dom.roots))


# ---------------------------------------------------------------------------------------------------------------
# replay of a failed identity on the unmodified numeric code, and the pool driver

def numeric_replay(name, entry, seed=0):
    """Evaluate the failed clause with random numbers on the REAL numeric calculator (module onsager.OnsagerCalc of the
    tree under test, nothing substituted) -> (confirmed: bool or None, text)"""
    from onsager import OnsagerCalc
    c, chem = entry['crys'], entry['chem']
    d = OnsagerCalc.Interstitial(c, chem, c.sitelist(chem), c.jumpnetwork(chem, entry['cutoff']))
    rng = np.random.default_rng(seed)
    Ns, Nj = len(d.sitelist), len(d.jumpnetwork)
    pre = rng.uniform(.5, 2, Ns); be = rng.uniform(-1, 2, Ns); preT = rng.uniform(.5, 2, Nj); beT = be.max() + rng.uniform(.2, 3, Nj)
    point = dict(pre=pre.tolist(), betaene=be.tolist(), preT=preT.tolist(), betaeneT=beT.tolist())
    D, Db = d.diffusivity(pre, be, preT, beT, CalcDeriv=True)
    sc = np.abs(D).max()
    def rel(a, b): return float(np.abs(np.asarray(a) - np.asarray(b)).max() / max(sc, 1e-300))
    if name.startswith('C04:'):
        cs, s, lam = 1.7, 2.5, 3.0
        var = {'energy-shift': ((pre, be + cs, preT, beT + cs), 1.0), 'joint-prefactor-scaling': ((s * s * pre, be, s * s * preT, beT), 1.0),
               'rate-scaling': ((pre, be, lam * preT, beT), lam)}
        for vn, (inp, f) in var.items():
            if ':%s:' % vn in name:
                D2, Db2 = d.diffusivity(*inp, CalcDeriv=True)
                r = max(rel(D2, f * D), rel(Db2, f * Db))
                return r > 1e-9, 'numeric code at %r: relative change under %s = %.3e' % (point, vn, r)
    if name.startswith('C03:'):
        Tn = Db if 'barrier' in name else D
        r = rel(Tn, Tn.T) if 'symmetric' in name else max(rel(g.cartrot @ Tn @ g.cartrot.T, Tn) for g in c.G)
        return r > 1e-9, 'numeric code at %r: relative residual %.3e' % (point, r)
    if name.startswith('C11:'):
        h = 1e-4
        f_ = lambda b: d.diffusivity(pre, b * be, preT, b * beT)
        fd = -((8 * (f_(1 + h) - f_(1 - h)) - (f_(1 + 2 * h) - f_(1 - 2 * h))) / (12 * h))
        r = rel(Db, fd)
        return r > 1e-6, 'numeric code at %r: |Db + dD/dbeta| / |D| = %.3e (five-point difference)' % (point, r)
    if name.startswith('C02:'):
        from contracts.interstitial_rt import D_spec
        r = rel(D, D_spec(d, pre, be, preT, beT))
        if r > 1e-9: return True, 'numeric code at %r: |D - D_exact| / |D| = %.3e' % (point, r)
        _, L = run(d, None, pre, be, preT, beT)
        om, sq, bi = L['omega_ij'], L['sqrtrho'], L['bias_i']
        checks = {'rate-matrix-symmetric': np.abs(om - om.T).max(), 'sqrt-rho-is-null-vector': np.abs(om @ sq).max(), 'bias-orthogonal': np.abs(sq @ bi).max(),
                  'rho-sums-to-one': abs(L['rho'].sum() - 1), 'sqrtrho-squared': np.abs(sq * sq - L['rho']).max()}
        for k, v in checks.items():
            if k in name: return v > 1e-9 * max(np.abs(om).max(), 1.0), 'numeric code at %r: residual of %s = %.3e' % (point, k, v)
        return None, 'numeric D agrees with the exact formula at %r (%.1e); the failed clause is about an intermediate quantity' % (point, r)
    return None, ''


def _worker(arg):
    idx, tier, seed = arg
    from vf.common import repo_on_path; repo_on_path()
    import warnings; warnings.filterwarnings('ignore')
    from vf.rtc import catalogue
    cid, f = (catalogue.builders(tier, seed) + catalogue.interstitial_extras(tier, seed))[idx]
    e = f()
    t = time.time()
    try:
        obs, info = check_network(cid, e)
    except Undecided as ex:
        return cid, [('symbolic-execution', 'undecided', time.time() - t, str(ex), None)], {}
    except (TypeError, AttributeError, ValueError, IndexError, KeyError, ArithmeticError, AssertionError, NotImplementedError) as ex:
        # the code under symbolic values took a step the exact scalars cannot follow (an assertion or a comparison on a symbolic value, a
        # numpy entry point without a symbolic counterpart): the identities are not decided on this text -- never a verdict
        return cid, [('symbolic-execution', 'undecided', time.time() - t, 'symbolic execution left the supported path: %s: %s' % (type(ex).__name__, str(ex)[:200]), None)], {}
    out = []
    for (name, status, secs, detail) in obs:
        wit = None
        if status == 'fail':
            try: conf, text = numeric_replay(name, e, seed)
            except Exception as ex: conf, text = None, 'numeric replay raised %s: %s' % (type(ex).__name__, ex)
            wit = dict(replayed=bool(conf), replay=text, signature='%s|%s' % (name, cid))
        out.append((name, status, secs, detail, wit))
    return cid, out, info


def run_all(rep, tier, prefix, procs=12):
    """level-S obligations whose name starts with `prefix` (e.g. 'C04:'), one symbolic execution set per catalogue network"""
    import multiprocessing as mp
    from vf.common import SEED
    from vf.rtc import catalogue
    n = len(catalogue.builders(tier, SEED)) + len(catalogue.interstitial_extras(tier, SEED))
    with mp.get_context('fork').Pool(min(procs, n)) as pool:
        res = pool.map(_worker, [(i, tier, SEED) for i in range(n)], chunksize=1)
    fq = 'onsager/OnsagerCalc.py::Interstitial.diffusivity'
    nets = []
    for cid, obs, info in res:
        if info: nets.append('%s (N=%d, NV=%d%s)' % (cid, info['N'], info['NV'], ', pinv branch' if info['pinv_branch'] else ''))
        for (name, status, secs, detail, wit) in obs:
            if not (name.startswith(prefix) or name == 'symbolic-execution'): continue
            rep.add(Ob('Interstitial.diffusivity::symbolic[%s]:%s' % (cid, name), 'S', status, 'lf (exact polynomial arithmetic over QQ)', secs,
                       detail if status != 'ok' else '', witness=wit, function=fq))
    rep.extra['symbolic_networks'] = nets
    rep.assume('level S: the real source of onsager/OnsagerCalc.py is executed on symbolic prefactors / energies for each enumerated network; ' + '; '.join(REWRITES),
               'level S: doubles of the crystal geometry are the exact rationals they denote, arithmetic is over the reals (no rounding); exp(E/2) is an independent positive generator; '
               'clauses marked (tol) hold coefficientwise to %g relative (they rest on symmetry encoded in floating-point geometry constants)' % TOL)
    rep.trust('scipy.linalg.solve returns the solution of A x = b (replaced by an exact solve in symbolic runs); scipy.linalg.pinv is a function of its argument, homogeneous of degree -1 (pinv branch: obligations are stated on its inputs)')
