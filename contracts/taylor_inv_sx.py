"""C17, inversion, level S (symbolic per enumerated structure): the real `Taylor3D.inv` / `Taylor2D.inv` (function objects of the current
tree) run on SYMBOLIC coefficients -- leading term: a symbolic scalar or a symbolic 2x2 matrix with isotropic (l = 0) angular part;
tail terms: one symbol per monomial and matrix entry -- and the postcondition of the property,

        (T^-1 T)(q) = 1 + O(|q|^(K+1))     and     (T T^-1)(q) = 1 + O(|q|^(K+1)),      K = Nmax + n0,

is decided exactly: the value of an expansion is the Laurent polynomial sum_n r^n sum_pow c_pow u^pow in the radial symbol r and
the direction components u (own evaluation, spec function); the two products are formed with the spec (ring arithmetic, not the
library's product), and every coefficient of r^m, m = 0..K, is reduced modulo the ideal <|u|^2 - 1, D det(A) - 1> (D stands for
1/det of the leading matrix, or 1/a for a scalar lead; the two generators have coprime leading terms, so the remainder is a
normal form): order 0 must be the identity, orders 1..K zero.

The branches of `inversecoeff` depend on the structure only (which n are present, the l of each term, the value shape, Nmax), never on
coefficient values: one run per structure covers every complex value of every coefficient.  Structures are ENUMERATED (the bound:
listed in tasks()); this is level S, never counted as proved.
What is replaced while the code runs: module global `np` -> proxy (`zeros` returns exact zeros in an object array; `linalg.inv` returns
adj(A) D).  The scalar lead is a small wrapper whose reciprocal is the symbol D (registered as a numbers.Number, as numpy's complex
scalar is, so that the library takes the same scalar-product path as for numbers)."""
import time, numbers
import numpy as np
from sympy.polys.rings import ring
from sympy.polys.domains import ZZ


def nmono(dim, l): return (l + 1) * (l + 2) * (l + 3) // 6 if dim == 3 else (l + 1) * (l + 2) // 2


class SymScalar(numbers.Number):
    """the reciprocal of the scalar lead: behaves like numpy's complex scalar where the library touches it"""
    def __init__(self, v): self.v = v
    def copy(self): return SymScalar(self.v)
    def reshape(self, shape):
        a = np.empty(shape, dtype=object); a[...] = self.v; return a
    def _m(self, o):
        if isinstance(o, SymScalar): return SymScalar(self.v * o.v)
        if isinstance(o, np.ndarray): return o * self.v
        return self.v * o
    __mul__ = _m
    __rmul__ = _m
    def __neg__(self): return SymScalar(-self.v)


class LeadScalar:
    def __init__(self, a, D): self.a, self.D = a, D
    def __rtruediv__(self, one):
        if one != 1: raise TypeError('only 1/lead is modelled')
        return SymScalar(self.D)


class _LA:
    def __init__(self, D, real): self.D, self._real = D, real
    def __getattr__(self, k): return getattr(self._real, k)
    def inv(self, A):
        A = np.asarray(A, dtype=object)
        if A.shape == (2, 2):
            adj = np.array([[A[1, 1], -A[0, 1]], [-A[1, 0], A[0, 0]]], dtype=object)
            return adj * self.D
        raise NotImplementedError('symbolic inverse of shape %s' % (A.shape,))


class NPProxy:
    def __init__(self, real, zero, D): self._np, self._0, self.linalg = real, zero, _LA(D, real.linalg)
    def __getattr__(self, k): return getattr(self._np, k)
    def zeros(self, shape, dtype=float, **kw):
        if dtype is int or dtype == 'int': return self._np.zeros(shape, dtype=int, **kw)
        a = np.empty(shape, dtype=object); a[...] = self._0; return a


def run_task(task):
    """task = (dim, shape, n0, Nmax, tail) with tail = [(step, l), ...]"""
    from vf.common import repo_on_path; repo_on_path()
    from onsager import PowerExpansion as PE
    dim, shape, n0, Nmax, tail = task
    cls = PE.Taylor3D if dim == 3 else PE.Taylor2D
    cls()
    K = Nmax + n0
    name = '%dD:shape%s:lead-n%d:Nmax%d:tail%s' % (dim, str(shape).replace(' ', ''), n0, Nmax, str(tail).replace(' ', ''))
    t0 = time.time()
    unames = ['x', 'y', 'z'][:dim]
    anames = ['a'] if shape == () else ['a%d%d' % (i, j) for i in range(2) for j in range(2)]
    cnames = []
    for (step, l) in tail:
        for p in range(nmono(dim, l)):
            for idx in (np.ndindex(*shape) if shape else [()]):
                cnames.append('c%d_%d_%s' % (step, p, '_'.join(map(str, idx))))
    Rg = ring(['D'] + anames + unames + cnames, ZZ)
    R = Rg[0]; G = dict(zip(['D'] + anames + unames + cnames, Rg[1:]))
    D = G['D']; U = [G[x] for x in unames]
    if shape == ():
        det = G['a']
        leadarr = np.empty((1,), dtype=object); leadarr[0] = LeadScalar(G['a'], D)
        leadval = G['a']; ident = R.one
    else:
        A = np.array([[G['a00'], G['a01']], [G['a10'], G['a11']]], dtype=object)
        det = A[0, 0] * A[1, 1] - A[0, 1] * A[1, 0]
        leadarr = A.reshape((1, 2, 2)).copy()
        leadval = A; ident = np.array([[R.one, R.zero], [R.zero, R.one]], dtype=object)
    rels = [D * det - 1, sum((u * u for u in U), R.zero) - 1]
    def coeffs(step, l):
        a = np.empty((nmono(dim, l),) + shape, dtype=object)
        for p in range(nmono(dim, l)):
            for idx in (np.ndindex(*shape) if shape else [()]):
                a[(p,) + idx] = G['c%d_%d_%s' % (step, p, '_'.join(map(str, idx)))]
        return a
    terms = [(n0, 0, leadarr)] + [(n0 + step, l, coeffs(step, l)) for (step, l) in tail]
    def value(coefflist):
        """{n: value of the angular part (ring element or 2x2 object array)}"""
        out = {}
        for n, l, c in coefflist:
            N = nmono(dim, l)
            if c.shape[0] != N: raise ValueError('term (%d,%d) holds %d rows, expected %d' % (n, l, c.shape[0], N))
            tot = None
            for p in range(N):
                mon = R.one
                for i in range(dim): mon = mon * U[i] ** int(cls.ind2pow[p][i])
                row = c[p]
                if shape == () and isinstance(row, LeadScalar): row = row.a
                t = row * mon
                tot = t if tot is None else tot + t
            out[n] = tot if n not in out else out[n] + tot
        return out
    def mul(x, y): return x * y if shape == () else np.dot(x, y)
    real_np = PE.np
    numbers.Number.register(type(D))      # ring elements are numbers (as numpy scalars are) for the library's isinstance(c, Number) test
    PE.np = NPProxy(real_np, R.zero, D)
    try:
        try:
            T = cls(terms)
            Ti = T.inv(Nmax)
            vT = value(terms); vI = value(Ti.coefflist)
        finally:
            PE.np = real_np
        fails = []
        if not (all(n <= Nmax for n in vI) and min(vI) == -n0): fails.append('orders of the inverse run %s, expected -%d..%d' % (sorted(vI), n0, Nmax))
        for side, (a, b) in (('left', (vI, vT)), ('right', (vT, vI))):
            for m in range(0, K + 1):
                tot = None
                for n1, x in a.items():
                    n2 = m - n1
                    if n2 in b:
                        t = mul(x, b[n2]); tot = t if tot is None else tot + t
                want = ident if m == 0 else (R.zero if shape == () else ident * R.zero)
                diff = (tot if tot is not None else want * 0) - want
                for e in np.ravel(np.asarray(diff, dtype=object)):
                    if e != 0 and e.rem(rels) != 0:
                        fails.append('%s product: order %d is not %s' % (side, m, 'the identity' if m == 0 else 'zero')); break
    except Exception as ex:
        return (name, 'undecided', time.time() - t0, 'symbolic run raised %s: %s' % (type(ex).__name__, str(ex)[:300]), None)
    if fails: return (name, 'fail', time.time() - t0, '; '.join(fails[:4]), {'replayed': False, 'signature': name})
    return (name, 'ok', time.time() - t0, '', None)


def replay_numeric(task, seed=0):
    from vf.common import repo_on_path; repo_on_path()
    from onsager import PowerExpansion as PE
    from contracts import taylor_rt as TR
    dim, shape, n0, Nmax, tail = task
    cls = PE.Taylor3D if dim == 3 else PE.Taylor2D
    cls()
    rng = np.random.default_rng(seed)
    K = Nmax + n0
    try:
        for trial in range(10):
            if shape == (): lead = np.array([complex(rng.uniform(.5, 2.), rng.normal())])
            else:
                while True:
                    A = rng.normal(size=shape) + 1j * rng.normal(size=shape)
                    if abs(np.linalg.det(A)) > .3: break
                lead = A.reshape((1,) + shape)
            terms = [(n0, 0, lead)] + [(n0 + s, l, rng.normal(size=(nmono(dim, l),) + shape) + 1j * rng.normal(size=(nmono(dim, l),) + shape)) for s, l in tail]
            T = cls(terms); Ti = T.inv(Nmax)
            I = np.eye(shape[0]) if shape else 1.
            for Pn, side in ((Ti * T, 'left'), (T * Ti, 'right')):
                u = rng.normal(size=dim); u /= np.sqrt(u @ u)
                d = Pn(u)
                for m in range(0, K + 1):
                    v = sum(val for (n, l), val in d.items() if n == m)
                    if not TR.close(v, I if m == 0 else 0 * I):
                        return {'replayed': True, 'input': 'random coefficients (seed %d, trial %d), direction %s' % (seed, trial, np.round(u, 4).tolist()),
                                'observed': '%s product at order %d: %s' % (side, m, np.ravel(v)[:4])}
    except Exception as ex:
        return {'replayed': True, 'observed': 'raises %s: %s' % (type(ex).__name__, ex)}
    return {'replayed': False}


def tasks(tier):
    out = []
    for dim in (2, 3):
        for shape in ((), (2, 2)):
            kmax = 4 if shape == () else (3 if dim == 2 else 2)
            if tier != 'quick' and shape: kmax += 1
            for n0 in (0, 1, 2):
                for Nmax in (-1, 0, 1, 2):
                    K = Nmax + n0
                    if K < 0 or K > kmax: continue
                    full = [(s, min(s, 4)) for s in range(1, K + 2)]
                    out.append((dim, shape, n0, Nmax, full))
                    if K >= 1:
                        out.append((dim, shape, n0, Nmax, [(s, max(0, min(s, 4) - 1)) for s in range(1, K + 2) if s != 2]))      # a missing order, lower l
    return out


def run_all(rep, tier):
    from vf.common import Ob
    import multiprocessing as mp
    ts = tasks(tier)
    with mp.get_context('fork').Pool(min(16, len(ts))) as pool:
        res = pool.map(run_task, ts, chunksize=1)
    for task, (nm, status, secs, detail, wit) in zip(ts, res):
        if status == 'fail':
            w = replay_numeric(task)
            wit = dict(wit, **w)
            if w.get('observed'): detail += ' | replay: ' + w['observed']
        rep.add(Ob('symbolic-inversion:' + nm, 'S', status, 'normal form modulo <|u|^2-1, D det-1> over ZZ[...] (sympy rings)' if status != 'undecided' else 'symbolic-run', secs, detail, witness=wit,
                   function='onsager/PowerExpansion.py::Taylor%dD.inversecoeff' % task[0]))
    if not ts: rep.add(Ob('symbolic-inversion:obligation-count', 'S', 'fault', 'symbolic-run', 0., 'no task'))
    rep.extra['symbolic_inversion_structures'] = len(ts)
    rep.gaps.append('symbolic inversion: %d enumerated structures (scalar and 2x2 values, lead order 0..2, requested order -1..2 with K = Nmax + n0 bounded per dimension / shape, full tails with l = min(step, 4) and one tail with a missing order and lower l)' % len(ts))
