"""C31, identity of clusters is geometric, decided symbolically (E4 style, level S per site pattern, for ALL lattice vectors): the real
`Cluster.__init__` / `__eq__` / `__hash__` (classes of the current tree) are run on ClusterSite objects whose lattice vectors are numpy
object arrays of sympy integer symbols, so one run covers every lattice vector of every site.  For every pattern of (chemistry, index)
labels of up to 4 sites (labels from a 3-element alphabet: all patterns of equal / different sublattices), every kind (plain, vacancy,
transition state, vacancy transition state) and both dimensions:
    translation  : the cluster built from the sites shifted by a common symbolic vector T is == and has the same hash;
    reordering   : for every permutation of the NON-special sites the cluster is == and has the same hash;
    normal form  : the stored sites are the given ones minus the first site's vector (the special sites stay in front, in order).
Equality of sympy expressions is structural after sympy's automatic normalisation of integer-linear forms (which is complete for the
linear expressions that occur); `NOSORT` is left at its default.  The alphabet and the arity are the bound."""
import itertools, time
import numpy as np
import sympy as sp

LABELS = [(0, 0), (0, 1), (1, 0)]


def run_task(task):
    from vf.common import repo_on_path; repo_on_path()
    from onsager import cluster
    dim, arity = task
    t0 = time.time()
    name = 'cluster-identity:%dD:arity-%d' % (dim, arity)
    T = np.array([sp.Symbol('t%d' % i, integer=True) for i in range(dim)], dtype=object)
    fails = []; n = 0
    try:
        for pat in itertools.product(LABELS, repeat=arity):
            R = [np.array([sp.Symbol('r%d_%d' % (k, i), integer=True) for i in range(dim)], dtype=object) for k in range(arity)]
            sites = [cluster.ClusterSite(ci=ci, R=r) for ci, r in zip(pat, R)]
            for kind, kw, nspecial in (('plain', {}, 0), ('vacancy', {'vacancy': True}, 1), ('transition', {'transition': True}, 2), ('vacancy-transition', {'transition': True, 'vacancy': True}, 2)):
                if arity < max(nspecial, 1): continue
                c0 = cluster.Cluster(sites, **kw); n += 1
                # normal form
                if not (len(c0.sites) == arity and all(np.all(c0.sites[k].R == (sorted_sites(sites, nspecial)[k].R - sorted_sites(sites, nspecial)[0].R)) and c0.sites[k].ci == sorted_sites(sites, nspecial)[k].ci for k in range(arity))):
                    fails.append('%s %s: stored sites are not the sorted sites relative to the first' % (kind, pat))
                cT = cluster.Cluster([s + T for s in sites], **kw)
                if not (c0 == cT and cT == c0 and hash(c0) == hash(cT)): fails.append('%s %s: not invariant under a common translation' % (kind, pat))
                for perm in itertools.permutations(range(nspecial, arity)):
                    order = list(range(nspecial)) + list(perm)
                    cP = cluster.Cluster([sites[k] for k in order], **kw)
                    if not (c0 == cP and cP == c0 and hash(c0) == hash(cP)):
                        fails.append('%s %s: not invariant under the reordering %s of the non-special sites' % (kind, pat, order)); break
    except Exception as ex:
        return (name, 'undecided', time.time() - t0, 'symbolic run raised %s: %s' % (type(ex).__name__, str(ex)[:300]), None)
    if n == 0: return (name, 'fault', time.time() - t0, 'no cluster built', None)
    if fails: return (name, 'fail', time.time() - t0, '%d failures, e.g. %s' % (len(fails), '; '.join(fails[:3])), {'replayed': False, 'signature': name})
    return (name, 'ok', time.time() - t0, '%d clusters' % n, None)


def sorted_sites(sites, nspecial):
    """spec of the constructor's ordering: special sites first as given, the rest sorted by (chemistry, index), stable"""
    return list(sites[:nspecial]) + sorted(sites[nspecial:], key=lambda cs: cs.ci)


def replay_numeric(task, seed=0):
    from vf.common import repo_on_path; repo_on_path()
    from onsager import cluster
    dim, arity = task
    rng = np.random.default_rng(seed)
    try:
        for trial in range(300):
            pat = [LABELS[int(rng.integers(3))] for _ in range(arity)]
            sites = [cluster.ClusterSite(ci=ci, R=rng.integers(-3, 4, size=dim)) for ci in pat]
            if len(set((s.ci, tuple(s.R)) for s in sites)) < arity: continue
            for kw, nsp in (({}, 0), ({'vacancy': True}, 1), ({'transition': True}, 2), ({'transition': True, 'vacancy': True}, 2)):
                if arity < max(nsp, 1): continue
                c0 = cluster.Cluster(sites, **kw)
                Tn = rng.integers(-3, 4, size=dim)
                perm = list(range(nsp)) + list(nsp + rng.permutation(arity - nsp))
                c1 = cluster.Cluster([sites[k] + Tn for k in perm], **kw)
                if not (c0 == c1 and hash(c0) == hash(c1)):
                    return {'replayed': True, 'input': 'sites %s kind %s, shifted by %s and reordered %s' % ([(s.ci, s.R.tolist()) for s in sites], kw, Tn.tolist(), perm), 'observed': 'clusters compare %s, hashes %s' % (c0 == c1, hash(c0) == hash(c1))}
    except Exception as ex:
        return {'replayed': True, 'observed': 'raises %s: %s' % (type(ex).__name__, ex)}
    return {'replayed': False}


def run_all(rep, tier):
    from vf.common import Ob
    import multiprocessing as mp
    ts = [(dim, a) for dim in (2, 3) for a in (1, 2, 3, 4)]
    with mp.get_context('fork').Pool(len(ts)) as pool:
        res = pool.map(run_task, ts, chunksize=1)
    for task, (nm, status, secs, detail, wit) in zip(ts, res):
        if status == 'fail':
            w = replay_numeric(task); wit = dict(wit, **w)
            if w.get('observed'): detail += ' | replay: ' + w['observed']
        rep.add(Ob('symbolic:' + nm, 'S', status, 'sympy structural equality on symbolic lattice vectors' if status != 'undecided' else 'symbolic-run', secs, detail if status != 'ok' else '', witness=wit, function='onsager/cluster.py::Cluster.__init__'))
    rep.gaps.append('symbolic cluster identity: labels from a 3-element alphabet, up to 4 sites, every permutation of the non-special sites; lattice vectors and the translation are symbolic (all values)')
