"""Sidecar contracts (E1) for the site addressing of onsager/supercell.py::ClusterSupercell, on which every cluster evaluator, the
Monte Carlo samplers and the barrier evaluators rest (C32, C34): `index(R, ci)` (lattice vector + site -> position in the
occupation vectors) and `ciR(ind, mobile)` (its inverse) form an encode / decode pair.

Values that are not integers (lattice vectors, (c, i) tuples) are modelled by integer identifiers: a (c, i) tuple by its position in
crys.atomindices, a cell by its position in Rveclist.  Ghost parameters of `index` name what the dictionary look-ups return; the
representation invariant that ties them to the lists (established by the constructor: `indexmobile` / `indexspectator` enumerate
`mobileindices` / `spectatorindices`, `transdict` enumerates the cells in the order of `Rveclist`) is the precondition and is
checked on real objects in the run-time evaluation of the same contract."""
import z3
import numpy as np
from vf.spec import *
from vf.pyvc.engine import Contract, zint
import ast as _ast


def _key(text): return _ast.unparse(_ast.parse(text, mode='eval').body)


def idiv(a, b):
    """floor division, symbolic (z3 integer division; divisors are positive here) or concrete"""
    return a / b if isinstance(a, z3.ExprRef) or isinstance(b, z3.ExprRef) else a // b


SELF = {'Nmobile': 'int', 'Nspec': 'int', 'size': 'int', 'mobileindices': 'seq_int', 'spectatorindices': 'seq_int', 'Rveclist': 'seq_int'}


def shape_ok(s):
    return And(s.Nmobile >= 0, s.Nspec >= 0, s.size >= 1, s.mobileindices.len == s.Nmobile, s.spectatorindices.len == s.Nspec, s.Rveclist.len == s.size)


def _divmod_lemmas(prefix):
    t, k, N, size, ind = z3.Ints('%s_t %s_k %s_N %s_size %s_ind' % ((prefix,) * 5))
    return [('encode-in-range', [t >= 0, t < size, k >= 0, k < N], z3.And(t * N + k >= 0, t * N + k < size * N)),
            ('decode-of-encode', [t >= 0, k >= 0, k < N, N >= 1], z3.And((t * N + k) % N == k, (t * N + k) / N == t)),
            ('decode-in-range', [ind >= 0, ind < size * N, N >= 1, size >= 1], z3.And(ind % N >= 0, ind % N < N, ind / N >= 0, ind / N < size, (ind / N) * N + ind % N == ind))]


class _Concrete:
    """real ClusterSupercell objects <-> the integer-identifier view"""
    def _ids(self, obj):
        at = list(obj.crys.atomindices)
        return at

    def abstract(self, obj, args, result=None):
        at = self._ids(obj)
        sv = NS(Nmobile=int(obj.Nmobile), Nspec=int(obj.Nspec), size=int(obj.size),
                mobileindices=CSeq([at.index(ci) for ci in obj.mobileindices]), spectatorindices=CSeq([at.index(ci) for ci in obj.spectatorindices]),
                Rveclist=CSeq(list(range(len(obj.Rveclist)))))
        v = self.params_concrete(obj, args, at)
        return NS(self=sv, v=v)

    def small_supercells(self, rng, tier):
        from vf.common import repo_on_path; repo_on_path()
        from onsager import crystal, supercell
        b2 = crystal.Crystal(np.eye(3), [[np.zeros(3)], [0.5 * np.ones(3)]], chemistry=['A', 'B'])
        low = crystal.Crystal(np.array([[1., 0.1, 0.], [0., 1.1, 0.15], [0.05, 0., 1.2]]).T,
                              [[np.array([0., 0., 0.]), np.array([0.5, 0.45, 0.4])], [np.array([0.25, 0.7, 0.8])]], chemistry=['A', 'B'])
        hcp = crystal.Crystal.HCP(1., chemistry='A')
        out = []
        for crys, sl, spect in ((b2, np.diag([2, 1, 2]), (1,)), (b2, np.array([[1, 1, 0], [0, 2, 0], [0, 0, 1]]), ()), (low, np.diag([2, 1, 1]), (1,)), (low, np.array([[1, 1, 0], [0, 2, 0], [0, 0, 1]]), (0,)),
                                (hcp, np.array([[2, -1, 0], [1, 1, 0], [0, 0, 1]]), ())):
            out.append(supercell.ClusterSupercell(crys, np.array(sl, dtype=int), spectator=spect))
        return out


class CiR(_Concrete, Contract):
    relpath, qualname = 'onsager/supercell.py', 'ClusterSupercell.ciR'
    self_shape = SELF
    params = {'ind': 'int', 'mobile': 'bool'}
    modifies = ()
    min_obligations = 4

    @staticmethod
    def N(s): return ite(s.v['mobile'], s.self.Nmobile, s.self.Nspec)

    def pre(self, s):
        N = CiR.N(s)
        return And(shape_ok(s.self), N >= 1, s.v['ind'] >= 0, s.v['ind'] < s.self.size * N)

    def lemma_obligations(self, s): return _divmod_lemmas('cr')

    def facts(self, s):
        # the three lemmas above, instantiated at the entry values (nonlinear integer arithmetic: proved once, used as facts)
        ind, N, size = zint(s.v['ind']), zint(CiR.N(s)), zint(s.self.size)
        return [z3.Implies(z3.And(ind >= 0, ind < size * N, N >= 1, size >= 1),
                           z3.And(ind % N >= 0, ind % N < N, ind / N >= 0, ind / N < size, (ind / N) * N + ind % N == ind))]

    def post(self, old, new, result):
        s = old
        N, ind = CiR.N(s), s.v['ind']
        indices = ite(s.v['mobile'], lambda: s.self.mobileindices[ind % N], lambda: s.self.spectatorindices[ind % N])
        return {'site-is-entry-ind-mod-N-of-the-site-list': result[0] == indices,
                'cell-is-entry-ind-div-N-of-the-cell-list': result[1] == s.self.Rveclist[idiv(ind, N)],
                'decomposition-is-exact': idiv(ind, N) * N + ind % N == ind}

    # concrete side
    def params_concrete(self, obj, args, at): return {'ind': int(args[0]), 'mobile': bool(args[1])}

    def abstract_result(self, result):
        ci, R = result
        return (self._at.index(ci), self._cell(R))

    def call(self, obj, args):
        self._at = self._ids(obj)
        self._cell = lambda R: [i for i, r in enumerate(obj.Rveclist) if np.array_equal(r, R)][0]
        return obj.ciR(*args)

    def concrete_states(self, rng, tier):
        for sup in self.small_supercells(rng, tier):
            for mobile, N in ((True, sup.Nmobile), (False, sup.Nspec)):
                for ind in range(sup.size * N): yield sup, (ind, mobile)


class Index(_Concrete, Contract):
    relpath, qualname = 'onsager/supercell.py', 'ClusterSupercell.index'
    self_shape = SELF
    params = {'R': 'opaque', 'ci': 'opaque'}
    ghost_params = {'g_mobile': 'bool', 'g_t': 'int', 'g_k': 'int', 'g_ci': 'int'}
    modifies = ()
    min_obligations = 6
    abstractions = {
        _key('ci in self.indexmobile'): ('expr', lambda s: s._ps.env['g_mobile']),
        _key('self.transdict[self.incell(R)]'): ('expr', lambda s: s._ps.env['g_t']),
        _key('self.indexmobile[ci]'): ('expr', lambda s: s._ps.env['g_k']),
        _key('self.indexspectator[ci]'): ('expr', lambda s: s._ps.env['g_k']),
    }
    ABSTRACTED = ['`ci in self.indexmobile` -> ghost boolean g_mobile', '`self.transdict[self.incell(R)]` -> ghost cell number g_t with Rveclist[g_t] the cell of R',
                  '`self.indexmobile[ci]` / `self.indexspectator[ci]` -> ghost position g_k with (mobile|spectator)indices[g_k] == ci']

    @staticmethod
    def N(s): return ite(s.v['g_mobile'], s.self.Nmobile, s.self.Nspec)

    def pre(self, s):
        N, t, k = Index.N(s), s.v['g_t'], s.v['g_k']
        return And(shape_ok(s.self), t >= 0, t < s.self.size, k >= 0, k < N,
                   lambda: ite(s.v['g_mobile'], lambda: s.self.mobileindices[k] == s.v['g_ci'], lambda: s.self.spectatorindices[k] == s.v['g_ci']))

    def lemma_obligations(self, s): return _divmod_lemmas('ix')

    def facts(self, s):
        t, k, N, size = zint(s.v['g_t']), zint(s.v['g_k']), zint(Index.N(s)), zint(s.self.size)
        return [z3.Implies(z3.And(t >= 0, t < size, k >= 0, k < N), z3.And(t * N + k >= 0, t * N + k < size * N)),
                z3.Implies(z3.And(t >= 0, k >= 0, k < N, N >= 1), z3.And((t * N + k) % N == k, (t * N + k) / N == t))]

    def post(self, old, new, result):
        s = old
        N, t, k = Index.N(s), s.v['g_t'], s.v['g_k']
        ind = result[0]
        lst = lambda j: ite(s.v['g_mobile'], lambda: s.self.mobileindices[j], lambda: s.self.spectatorindices[j])
        return {'flag-says-which-sublattice-list': result[1] == s.v['g_mobile'],
                'position-is-cell-times-sites-per-cell-plus-site': ind == t * N + k,
                'position-in-range-of-that-occupation-vector': And(ind >= 0, ind < s.self.size * N),
                # decode(encode(R, ci)) = (ci, cell of R): what ciR computes from this position
                'ciR-of-the-position-is-the-site-and-cell': And(lambda: lst(ind % N) == s.v['g_ci'], lambda: s.self.Rveclist[idiv(ind, N)] == s.self.Rveclist[t], idiv(ind, N) == t)}

    # concrete side
    def params_concrete(self, obj, args, at):
        R, ci = args
        mobile = ci in obj.indexmobile
        return {'R': R, 'ci': ci, 'g_mobile': mobile, 'g_t': int(obj.transdict[obj.incell(R)]), 'g_k': int((obj.indexmobile if mobile else obj.indexspectator)[ci]), 'g_ci': at.index(ci)}

    def concrete_states(self, rng, tier):
        for sup in self.small_supercells(rng, tier):
            for ci in sup.mobileindices + sup.spectatorindices:
                for trial in range(6):
                    yield sup, (np.array([rng.randint(-4, 4) for _ in range(3)]), ci)


CONTRACTS = [CiR, Index]
