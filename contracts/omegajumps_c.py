"""Sidecar contract (E1) for onsager/crystalStars.py::StarSet.symmequivjumplist, which builds every class of the omega1 / omega2 jump
networks (C26): the class of a jump (i, f) holds the jump, its reverse, and the image and reversed image under every operation of
the group, each (initial, final) pair ONCE.

States are integer indices already; a displacement vector is modelled by a signed integer identifier (the code only negates it and
passes it on).  The action of an operation g on the two states and on the displacement is given by uninterpreted functions
GI(g), GF(g), GDX(g) (`self.stateindex(PS.g(...))`, `self.crys.g_direc(g, dx)`), so what is proved holds for every group action;
`self.crys.G` is a ghost list of operation identifiers in iteration order."""
import z3
from vf.spec import *
from vf.pyvc.engine import Contract, zint
import ast as _ast


def _key(text): return _ast.unparse(_ast.parse(text, mode='eval').body)


GI = z3.Function('GI', z3.IntSort(), z3.IntSort())
GF = z3.Function('GF', z3.IntSort(), z3.IntSort())
GDX = z3.Function('GDX', z3.IntSort(), z3.IntSort())


class SymmEquivJumpList(Contract):
    relpath, qualname = 'onsager/crystalStars.py', 'StarSet.symmequivjumplist'
    self_shape = {'Nstates': 'int', 'index': 'seq_int'}
    params = {'i': 'int', 'f': 'int', 'dx': 'int'}
    ghost_params = {'g_ops': 'seq_int'}
    modifies = ()
    min_obligations = 10
    abstractions = {
        _key('self.states[i]'): ('expr', lambda s: s._ps.env['i']),
        _key('self.states[f]'): ('expr', lambda s: s._ps.env['f']),
        _key('self.crys.G'): ('expr', lambda s: s._ps.env['g_ops']),
        _key('self.stateindex(PSi.g(self.crys, self.chem, g))'): ('expr', lambda s: GI(zint(s._ps.env['g']))),
        _key('self.stateindex(PSf.g(self.crys, self.chem, g))'): ('expr', lambda s: GF(zint(s._ps.env['g']))),
        _key('self.crys.g_direc(g, dx)'): ('expr', lambda s: GDX(zint(s._ps.env['g']))),
    }
    ABSTRACTED = ['`self.states[i]`, `self.states[f]` -> the indices themselves', '`self.crys.G` -> ghost list of operation identifiers',
                  '`self.stateindex(PSi.g(...))`, `self.stateindex(PSf.g(...))`, `self.crys.g_direc(g, dx)` -> uninterpreted functions GI, GF, GDX of the operation',
                  'a displacement vector -> a signed integer identifier (the code negates it and stores it)']

    def pre(self, s):
        ops, n = s.v['g_ops'], s.self.index.len
        # images of states of the set are states of the set (the star set is closed under the group: C24)
        return And(ops.len >= 0, s.v['i'] >= 0, s.v['i'] < n, s.v['f'] >= 0, s.v['f'] < n,
                   lambda: forall(0, ops.len, lambda q: And(GI(ops[q]) >= 0, GI(ops[q]) < n, GF(ops[q]) >= 0, GF(ops[q]) < n), 'sj_rng'))

    @staticmethod
    def has(L, n, a, b):
        """the pair (a, b) is among the first n entries"""
        return exists(0, n, lambda k: And(L.leaf(0, k) == a, L.leaf(1, k) == b), 'sj_has')

    @staticmethod
    def distinct(L, n):
        return forall2(0, n, lambda a: a + 1, lambda a: n, lambda a, b: Or(L.leaf(0, a) != L.leaf(0, b), L.leaf(1, a) != L.leaf(1, b)), 'sj_d')

    @staticmethod
    def reversal_closed(L, n):
        return forall(0, n, lambda a: SymmEquivJumpList.has(L, n, L.leaf(1, a), L.leaf(0, a)), 'sj_rev')

    @staticmethod
    def only_images(L, n, s, ngen):
        """every entry is the jump, an image under one of the first ngen operations, or the reverse of one of these -- with the matching displacement"""
        i, f, dx, ops = s.v['i'], s.v['f'], s.v['dx'], s.v['g_ops']
        return forall(0, n, lambda a: Or(And(L.leaf(0, a) == i, L.leaf(1, a) == f, L.leaf(2, a) == dx), And(L.leaf(0, a) == f, L.leaf(1, a) == i, L.leaf(2, a) == -dx),
                                         exists(0, ngen, lambda q: Or(And(L.leaf(0, a) == GI(ops[q]), L.leaf(1, a) == GF(ops[q]), L.leaf(2, a) == GDX(ops[q])),
                                                                      And(L.leaf(0, a) == GF(ops[q]), L.leaf(1, a) == GI(ops[q]), L.leaf(2, a) == -GDX(ops[q]))), 'sj_img')), 'sj_only')

    def inv_ops(cur, k, old):
        L = cur.v['symmjumplist']; ops = old.v['g_ops']
        return {'starts-with-the-jump': And(L.len >= 1, L.leaf(0, 0) == old.v['i'], L.leaf(1, 0) == old.v['f'], L.leaf(2, 0) == old.v['dx']),
                'each-pair-once': SymmEquivJumpList.distinct(L, L.len),
                'closed-under-reversal': SymmEquivJumpList.reversal_closed(L, L.len),
                'images-under-the-operations-so-far-present': forall(0, k, lambda q: SymmEquivJumpList.has(L, L.len, GI(ops[q]), GF(ops[q])), 'sj_cl'),
                'only-images': SymmEquivJumpList.only_images(L, L.len, old, k)}

    loops = {0: inv_ops}

    def post(self, old, new, result):
        L = result; ops = old.v['g_ops']
        return {'the-jump-is-listed-first': And(L.len >= 1, L.leaf(0, 0) == old.v['i'], L.leaf(1, 0) == old.v['f'], L.leaf(2, 0) == old.v['dx']),
                'each-initial-final-pair-listed-once': SymmEquivJumpList.distinct(L, L.len),
                'closed-under-reversal': SymmEquivJumpList.reversal_closed(L, L.len),
                'image-under-every-operation-listed': forall(0, ops.len, lambda q: SymmEquivJumpList.has(L, L.len, GI(ops[q]), GF(ops[q])), 'sj_all'),
                'nothing-but-images-and-their-reverses-with-matching-displacements': SymmEquivJumpList.only_images(L, L.len, old, ops.len)}
