"""Sidecar contracts for the reference Monte-Carlo sampler (onsager/cluster.py, class MonteCarloSampler): C33.

Invariant I (derived from how start/update/E/deltaE_trial use the fields, and from the property):
  clustercount[m] = sum over sites i with occ[i] == 0 of mult(i, m)      (mult = multiplicity of m in row i of
                                                                          siteinteract[:Ninteract[i]])
  occupied_set = {i | occ[i] == 1},  unoccupied_set = {i | occ[i] == 0}
so the sampler state is a function of the occupation alone -- after ANY history of start/update calls it equals
the state of a fresh start() on the current occupation.  Sums are ghost functions (z3 recursive definitions);
the single-point-update law of the sum is proved by induction (base + step obligations) and then used."""
import z3
from vf.spec import *
from vf.pyvc.engine import Contract, SMat, SSeq, INT, REAL

A = z3.ArraySort(INT, INT); AA = z3.ArraySort(INT, A); AR = z3.ArraySort(INT, REAL)

# ---- ghost functions (conservative recursive definitions) ---------------------------------------------
_si, _a, _NI = z3.Const('si', AA), z3.Const('a', A), z3.Const('NI', A)
_i, _m, _n, _k = z3.Ints('i m n k')
M_rec = z3.RecFunction('mult', AA, INT, INT, INT, INT)            # multiplicity of m in si[i][:n]
z3.RecAddDefinition(M_rec, [_si, _i, _m, _n],
                    z3.If(_n <= 0, 0, M_rec(_si, _i, _m, _n - 1) + z3.If(z3.Select(z3.Select(_si, _i), _n - 1) == _m, 1, 0)))
S_rec = z3.RecFunction('count', A, AA, A, INT, INT, INT)           # sum_{i<k, a[i]==0} mult(i, m, NI[i])
z3.RecAddDefinition(S_rec, [_a, _si, _NI, _m, _k],
                    z3.If(_k <= 0, 0, S_rec(_a, _si, _NI, _m, _k - 1) +
                          z3.If(z3.Select(_a, _k - 1) == 0, M_rec(_si, _k - 1, _m, z3.Select(_NI, _k - 1)), 0)))
_cc, _vals = z3.Const('cc', A), z3.Const('vals', AR)
E_rec = z3.RecFunction('esum', A, AR, INT, REAL)                  # sum_{m<k, cc[m]==0} vals[m]
z3.RecAddDefinition(E_rec, [_cc, _vals, _k],
                    z3.If(_k <= 0, z3.RealVal(0), E_rec(_cc, _vals, _k - 1) +
                          z3.If(z3.Select(_cc, _k - 1) == 0, z3.Select(_vals, _k - 1), z3.RealVal(0))))


def mult(si, i, m, n):
    if isinstance(si, SMat): return M_rec(si.data, i, m, n)
    return sum(1 for x in si.xss[i][:n] if x == m)


def count(occ, si, NI, m, k):
    if isinstance(occ, SSeq): return S_rec(occ.arr, si.data, NI.arr, m, k)
    return sum(mult(si, i, m, NI[i]) for i in range(k) if occ[i] == 0)


def esum(cc, vals, k):
    if isinstance(cc, SSeq): return E_rec(cc.arr, vals.arr, k)
    return sum(vals[m] for m in range(k) if cc[m] == 0)


SELF = {'occ': 'seq_int', 'clustercount': 'seq_int', 'occupied_set': 'set_int', 'unoccupied_set': 'set_int',
        'siteinteract': 'mat_int', 'Ninteract': 'seq_int', 'interactvalue': 'seq_real', 'Nenergy': 'int', 'vacancy': 'int'}


def static_ok(s):
    """what __init__ establishes about the immutable tables (checked at run time on real samplers, level B)"""
    si, NI, vals = s.siteinteract, s.Ninteract, s.interactvalue
    L = si.len
    return And(L >= 0, NI.len == L, si.ncols >= 0 if hasattr(si, 'ncols') else True, vals.len >= 0,
               s.Nenergy >= 0, s.Nenergy <= vals.len,
               Or(s.vacancy == -1, And(s.vacancy >= 0, s.vacancy < L)),
               lambda: forall(0, L, lambda i: And(NI[i] >= 0, NI[i] <= si.lenof(i))),
               lambda: forall2(0, L, lambda i: 0, lambda i: NI[i], lambda i, n: And(si.at(i, n) >= 0, si.at(i, n) < vals.len)))


def occ_ok(occ, s):
    L = s.siteinteract.len
    return And(occ.len == L,
               lambda: forall(0, L, lambda i: Or(occ[i] == 0, occ[i] == 1, And(occ[i] == -1, i == s.vacancy))),
               Implies(s.vacancy >= 0, lambda: occ[s.vacancy] == -1))


def I(s):
    occ, cc, si, NI = s.occ, s.clustercount, s.siteinteract, s.Ninteract
    L = si.len
    return {
        'tables': static_ok(s),
        'occupation-valid': occ_ok(occ, s),
        'clustercount-is-the-sum-over-unoccupied-sites': And(cc.len == s.interactvalue.len, lambda: forall(
            0, cc.len, lambda m: cc[m] == count(occ, si, NI, m, L))),
        'occupied_set': forall_int(lambda i: Iff(s.occupied_set.has(i), And(i >= 0, i < L, lambda: occ[i] == 1))),
        'unoccupied_set': forall_int(lambda i: Iff(s.unoccupied_set.has(i), And(i >= 0, i < L, lambda: occ[i] == 0))),
    }


def Iall(s): return And(*I(s).values())


def update_lemma(s):
    """forall a, j, v, m, k >= 0:
         count(a[j:=v], m, k) = count(a, m, k) + [0<=j<k]*([v==0] - [a[j]==0]) * mult(j, m, NI[j])"""
    si, NI = s.self.siteinteract.data, s.self.Ninteract.arr
    a = z3.Const('la', A); j, v, m, k = z3.Ints('lj lv lm lk')
    def stmt(kk):
        Mj = M_rec(si, j, m, z3.Select(NI, j))
        return S_rec(z3.Store(a, j, v), si, NI, m, kk) == S_rec(a, si, NI, m, kk) + \
            z3.If(z3.And(0 <= j, j < kk), z3.If(v == 0, Mj, 0) - z3.If(z3.Select(a, j) == 0, Mj, 0), 0)
    return a, j, v, m, k, stmt


class _Lemmas:
    def lemma_obligations(self, s):
        a, j, v, m, k, stmt = update_lemma(s)
        return [('count-single-point-update:base', [], stmt(z3.IntVal(0))),
                ('count-single-point-update:step', [k >= 0, stmt(k)], stmt(k + 1))]

    def facts(self, s):
        a, j, v, m, k, stmt = update_lemma(s)
        si, NI = s.self.siteinteract.data, s.self.Ninteract.arr
        if BOUND[0] is not None: return []
        return [z3.ForAll([a, j, v, m, k], z3.Implies(k >= 0, stmt(k)),
                          patterns=[S_rec(z3.Store(a, j, v), si, NI, m, k)])]


class Start(_Lemmas, Contract):
    relpath, qualname = 'onsager/cluster.py', 'MonteCarloSampler.start'
    self_shape = SELF
    params = {'occ': 'seq_int'}
    modifies = ('occ', 'clustercount', 'occupied_set', 'unoccupied_set')

    def pre(self, s):
        return And(static_ok(s.self), lambda: occ_ok(s.v['occ'], s.self))

    def post(self, old, new, result):
        return {**{'I-' + k: v for k, v in I(new.self).items()},
                'occupation-is-the-argument': seq_eq(new.self.occ, old.v['occ'])}

    def inv_sites(cur, k, old):
        s = cur.self
        occ, cc, si, NI = s.occ, s.clustercount, s.siteinteract, s.Ninteract
        ol, ul = cur.v['occ_list'], cur.v['unocc_list']
        return {
            'occ': seq_eq(occ, old.v['occ']),
            'count': And(cc.len == s.interactvalue.len, lambda: forall(0, cc.len, lambda m: cc[m] == count(occ, si, NI, m, k))),
            'lists-sound': And(ol.len >= 0, ul.len >= 0,
                               lambda: forall(0, ol.len, lambda j: And(ol[j] >= 0, ol[j] < k, lambda: occ[ol[j]] == 1)),
                               lambda: forall(0, ul.len, lambda j: And(ul[j] >= 0, ul[j] < k, lambda: occ[ul[j]] == 0))),
            # g_opos / g_upos are ghost locals: position of site i inside occ_list / unocc_list (witnesses)
            'occ_list-complete': forall(0, k, lambda i: Implies(occ[i] == 1, lambda: And(
                cur.v['g_opos'][i] >= 0, cur.v['g_opos'][i] < ol.len, lambda: ol[cur.v['g_opos'][i]] == i))),
            'unocc_list-complete': forall(0, k, lambda i: Implies(occ[i] == 0, lambda: And(
                cur.v['g_upos'][i] >= 0, cur.v['g_upos'][i] < ul.len, lambda: ul[cur.v['g_upos'][i]] == i))),
        }

    loop_ghost_init = {0: lambda cur, old: {'g_opos': (cur.self.siteinteract.len, lambda i: -1),
                                            'g_upos': (cur.self.siteinteract.len, lambda i: -1)}}
    loop_ghost_step = {0: lambda before, after, k: {
        'g_opos': (before.self.siteinteract.len, lambda i: ite(And(i == k, before.self.occ[k] == 1), before.v['occ_list'].len, before.v['g_opos'][i])),
        'g_upos': (before.self.siteinteract.len, lambda i: ite(And(i == k, before.self.occ[k] == 0), before.v['unocc_list'].len, before.v['g_upos'][i]))}}

    def inv_row(cur, n, old):
        # only clustercount is written by the inner loop; the rest stays in the path condition
        s = cur.self
        occ, cc, si, NI, i = s.occ, s.clustercount, s.siteinteract, s.Ninteract, cur.v['i']
        return And(cc.len == s.interactvalue.len,
                   lambda: forall(0, cc.len, lambda m: cc[m] == count(occ, si, NI, m, i) + mult(si, i, m, n)))

    loops = {0: inv_sites, 1: inv_row}


class Energy(Contract):
    relpath, qualname = 'onsager/cluster.py', 'MonteCarloSampler.E'
    self_shape = SELF
    params = {}
    modifies = ()
    local_sorts = {'E': 'real'}

    def pre(self, s): return And(static_ok(s.self), s.self.clustercount.len == s.self.interactvalue.len)

    def post(self, old, new, result):
        o = old.self
        return {'energy-is-sum-of-switched-on-interactions': result == esum(o.clustercount, o.interactvalue, o.Nenergy)}

    def inv0(cur, k, old):
        o = old.self
        return cur.v['E'] == esum(o.clustercount, o.interactvalue, k)

    loops = {0: inv0}


def member(seq, x): return exists(0, seq.len, lambda j: seq[j] == x)


class Update(_Lemmas, Contract):
    relpath, qualname = 'onsager/cluster.py', 'MonteCarloSampler.update'
    self_shape = SELF
    params = {'occsites': 'seq_int', 'unoccsites': 'seq_int'}
    modifies = ('occ', 'clustercount', 'occupied_set', 'unoccupied_set')

    def pre(self, s):
        L = s.self.siteinteract.len
        return And(Iall(s.self),
                   lambda: forall(0, s.v['occsites'].len, lambda j: And(s.v['occsites'][j] >= 0, s.v['occsites'][j] < L)),
                   lambda: forall(0, s.v['unoccsites'].len, lambda j: And(s.v['unoccsites'][j] >= 0, s.v['unoccsites'][j] < L)))

    raises = {'ValueError': lambda s: Or(member(s.v['occsites'], s.self.vacancy), member(s.v['unoccsites'], s.self.vacancy))}

    @staticmethod
    def after_first(old, i, k=None):
        """occupation of site i after the first k entries of occsites were processed"""
        os_ = old.v['occsites']
        k = os_.len if k is None else k
        return ite(And(old.self.occ[i] == 0, exists(0, k, lambda j: os_[j] == i)), 1, old.self.occ[i])

    @staticmethod
    def after_second(old, i, k=None):
        us = old.v['unoccsites']
        k = us.len if k is None else k
        o1 = Update.after_first(old, i)
        return ite(And(o1 == 1, exists(0, k, lambda j: us[j] == i)), 0, o1)

    def post(self, old, new, result):
        L = old.self.siteinteract.len
        return {**{'I-' + k: v for k, v in I(new.self).items()},
                'new-occupation': forall(0, L, lambda i: new.self.occ[i] == Update.after_second(old, i))}

    def _rest(cur, old):
        s = cur.self
        return {'tables': static_ok(s), 'occupation-valid': occ_ok(s.occ, s), 'len': s.clustercount.len == s.interactvalue.len,
                'occupied_set': I(s)['occupied_set'], 'unoccupied_set': I(s)['unoccupied_set']}

    def inv_occ(cur, k, old):
        s = cur.self
        return {**Update._rest(cur, old), 'count': I(s)['clustercount-is-the-sum-over-unoccupied-sites'],
                'occupation-so-far': forall(0, s.siteinteract.len, lambda i: s.occ[i] == Update.after_first(old, i, k))}

    def inv_occ_row(cur, n, old):
        # only clustercount is written by the inner loop; everything else stays in the path condition
        s = cur.self; i = cur.v['i']
        si, NI = s.siteinteract, s.Ninteract
        return And(s.clustercount.len == s.interactvalue.len,
                   lambda: forall(0, s.clustercount.len, lambda m: s.clustercount[m] ==
                                  count(s.occ, si, NI, m, si.len) + mult(si, i, m, NI[i]) - mult(si, i, m, n)))

    def inv_unocc(cur, k, old):
        s = cur.self
        return {**Update._rest(cur, old), 'count': I(s)['clustercount-is-the-sum-over-unoccupied-sites'],
                'occupation-so-far': forall(0, s.siteinteract.len, lambda i: s.occ[i] == Update.after_second(old, i, k))}

    def inv_unocc_row(cur, n, old):
        s = cur.self; i = cur.v['i']
        si, NI = s.siteinteract, s.Ninteract
        return And(s.clustercount.len == s.interactvalue.len,
                   lambda: forall(0, s.clustercount.len, lambda m: s.clustercount[m] ==
                                  count(s.occ, si, NI, m, si.len) - mult(si, i, m, NI[i]) + mult(si, i, m, n)))

    loops = {0: inv_occ, 1: inv_occ_row, 2: inv_unocc, 3: inv_unocc_row}


# ---------------------------------------------------------------------------------------------
# concrete side: real MonteCarloSampler objects (state injected; the methods are the real ones)
import itertools
import numpy as np


def make_sampler(rows, NI, vals, Nenergy, vacancy, occ=None):
    from onsager import cluster
    s = object.__new__(cluster.MonteCarloSampler)
    L = len(rows); ncols = max([len(r) for r in rows] + [0])
    s.siteinteract = np.array([list(r) + [-1] * (ncols - len(r)) for r in rows], dtype=int).reshape(L, ncols)
    s.Ninteract = np.array(NI, dtype=int)
    s.interactvalue = np.array(vals, dtype=float)
    s.Nenergy, s.vacancy, s.jumps = int(Nenergy), int(vacancy), None
    s.occ, s.clustercount, s.occupied_set, s.unoccupied_set = None, None, None, None
    if occ is not None:
        s.occ = np.array(occ, dtype=int)
        s.clustercount = np.array([sum(1 for i in range(L) if occ[i] == 0 for x in rows[i][:NI[i]] if x == m)
                                   for m in range(len(vals))], dtype=int)
        s.occupied_set = {i for i in range(L) if occ[i] == 1}
        s.unoccupied_set = {i for i in range(L) if occ[i] == 0}
    return s


class _SamplerConcrete:
    def abstract(self, obj, args, result=None):
        ns = Contract.abstract(self, _Filled(obj), args, result)
        return ns

    def build_self(self, cs, with_state=True):
        rows = cs.siteinteract.xss
        try:
            s = make_sampler(rows, cs.Ninteract.xs, cs.interactvalue.xs, cs.Nenergy, cs.vacancy)
        except Exception:
            return None
        if with_state:
            s.occ = np.array(cs.occ.xs, dtype=int); s.clustercount = np.array(cs.clustercount.xs, dtype=int)
            s.occupied_set = set(cs.occupied_set.xs); s.unoccupied_set = set(cs.unoccupied_set.xs)
        return s

    def tables(self, rng, tier):
        """small interaction tables: L sites, NT interactions, rows with repeated entries allowed"""
        shapes = [(1, 1), (2, 2), (2, 3), (3, 2)] if tier == 'quick' else [(1, 1), (2, 2), (2, 3), (3, 2), (3, 3), (4, 3)]
        for L, NT in shapes:
            for rep in range(6 if tier == 'quick' else 20):
                rows = [[rng.randrange(NT) for _ in range(rng.randrange(0, 4))] for _ in range(L)]
                NI = [len(r) for r in rows]
                if rng.random() < 0.3:      # padded rows: Ninteract smaller than the row
                    rows = [r + [rng.randrange(NT)] for r in rows]
                vals = [round(rng.uniform(-2, 2), 3) for _ in range(NT)]
                Nenergy = rng.randrange(0, NT + 1)
                vac = rng.choice([-1, -1, rng.randrange(L)])
                yield rows, NI, vals, Nenergy, vac

    def occupations(self, L, vac):
        for occ in itertools.product((0, 1), repeat=L):
            occ = list(occ)
            if vac >= 0: occ[vac] = -1
            yield occ


class _Filled:
    """real sampler seen with empty defaults for fields that start() has not set yet"""
    def __init__(self, o): self._o = o
    def __getattr__(self, k):
        v = getattr(self._o, k)
        if v is None: return [] if k in ('occ', 'clustercount') else set()
        return v


class StartC(_SamplerConcrete, Start):
    def build(self, conc):
        s = self.build_self(conc.self, with_state=False)
        return (s, (np.array(conc.v['occ'].xs, dtype=int),)) if s is not None else (None, None)

    def concrete_states(self, rng, tier):
        for rows, NI, vals, Ne, vac in self.tables(rng, tier):
            seen = set()
            for occ in self.occupations(len(rows), vac):
                if tuple(occ) in seen: continue
                seen.add(tuple(occ))
                s = make_sampler(rows, NI, vals, Ne, vac, occ=[1 if x != -1 else -1 for x in occ])   # a previous state
                yield s, (np.array(occ, dtype=int),)


class EnergyC(_SamplerConcrete, Energy):
    def build(self, conc):
        s = self.build_self(conc.self)
        return (s, ()) if s is not None else (None, None)

    def concrete_states(self, rng, tier):
        for rows, NI, vals, Ne, vac in self.tables(rng, tier):
            for occ in self.occupations(len(rows), vac):
                yield make_sampler(rows, NI, vals, Ne, vac, occ=occ), ()

    def post(self, old, new, result):
        o = old.self
        want = esum(o.clustercount, o.interactvalue, o.Nenergy)
        if is_sym(result, want): return Energy.post(self, old, new, result)
        return {'energy-is-sum-of-switched-on-interactions': abs(result - want) <= 1e-12 * (1 + abs(want))}


class UpdateC(_SamplerConcrete, Update):
    def build(self, conc):
        s = self.build_self(conc.self)
        return (s, (list(conc.v['occsites'].xs), list(conc.v['unoccsites'].xs))) if s is not None else (None, None)

    def concrete_states(self, rng, tier):
        for rows, NI, vals, Ne, vac in self.tables(rng, tier):
            L = len(rows)
            lists = [()] + [(i,) for i in range(L)] + [(i, j) for i in range(L) for j in range(L)]
            for occ in self.occupations(L, vac):
                for a in lists:
                    for b in (lists if L <= 2 else rng.sample(lists, 4)):
                        yield make_sampler(rows, NI, vals, Ne, vac, occ=occ), (list(a), list(b))


class DeltaE(_SamplerConcrete, Contract):
    """deltaE_trial(a, b) == E(after update(a, b)) - E(before) for duplicate-free, disjoint a and b, and the
    call changes nothing.  Run-time contract only (the dict-accumulation loop is outside the encoder subset)."""
    relpath, qualname = 'onsager/cluster.py', 'MonteCarloSampler.deltaE_trial'
    symbolic = False
    self_shape = SELF
    params = {'occsites': 'seq_int', 'unoccsites': 'seq_int'}
    modifies = ()

    def pre(self, s):
        a, b = s.v['occsites'].xs, s.v['unoccsites'].xs
        return Iall(s.self) and len(set(a)) == len(a) and len(set(b)) == len(b) and not (set(a) & set(b))

    raises = {'ValueError': lambda s: Or(member(s.v['occsites'], s.self.vacancy), member(s.v['unoccsites'], s.self.vacancy))}

    def call(self, obj, args):
        import copy
        twin = copy.deepcopy(obj)
        dE = obj.deltaE_trial(*args)
        E0 = twin.E(); twin.update(*args)
        return (dE, twin.E() - E0)

    def post(self, old, new, result):
        dE, real = result
        return {'trial-equals-realised-energy-change': abs(dE - real) <= 1e-9 * (1 + abs(real))}

    def concrete_states(self, rng, tier):
        return UpdateC.concrete_states(self, rng, tier)
