"""C36 -- value types obey equality, hashing and arithmetic laws.

P (structural contracts over the extracted AST, for all instances):
   __ne__  is literally  `not self.__eq__(other)`                      => a != b  <=>  not (a == b), no exception
   __eq__  is `isinstance(other, self.__class__) and` a conjunction of EXACT field equalities
           (`self.f == other.f` / `np.all(self.f == other.f)`)         => reflexive, symmetric, transitive
   __hash__ is `hash(<expression over self.<fields compared by __eq__>>)` (or a value cached from them)
                                                                        => a == b  =>  hash(a) == hash(b)
   A tolerance comparison (np.allclose / np.isclose) in __eq__ fails the second obligation: |a-b| <= atol + rtol|b|
   is neither symmetric nor transitive as a formula.
P (E4): the PairState arithmetic identities and their commutation with symmetry operations (contracts/coords_sx.py).
B: the same laws evaluated on seeded pools of real instances, including near-equal floating-point fields."""
import ast, itertools
import numpy as np
from vf import extract
from vf.common import Ob
from vf.rtc.runner import Acc

TYPES = [('onsager/crystal.py', 'GroupOp'), ('onsager/crystalStars.py', 'PairState'), ('onsager/cluster.py', 'ClusterSite'),
         ('onsager/cluster.py', 'Cluster'), ('onsager/OnsagerCalc.py', 'vacancyThermoKinetics')]


def _ret_expr(fn):
    body = fn.body
    if len(body) == 1 and isinstance(body[0], ast.Return): return body[0].value
    return None


def _self_fields(expr):
    return {n.attr for n in ast.walk(expr) if isinstance(n, ast.Attribute) and isinstance(n.value, ast.Name) and n.value.id == 'self'}


def _eq_analysis(expr):
    """-> (exact_fields, tolerance_fields, other) for `isinstance(other, self.__class__) and (...)`"""
    conj = []
    def flat(e):
        if isinstance(e, ast.BoolOp) and isinstance(e.op, ast.And):
            for v in e.values: flat(v)
        else: conj.append(e)
    flat(expr)
    exact, tol, other = set(), set(), []
    for c in conj:
        if isinstance(c, ast.Call) and isinstance(c.func, ast.Name) and c.func.id == 'isinstance': continue
        cmp_ = c
        if isinstance(c, ast.Call) and isinstance(c.func, ast.Attribute) and c.func.attr == 'all' and len(c.args) == 1: cmp_ = c.args[0]
        if isinstance(cmp_, ast.Compare) and len(cmp_.ops) == 1 and isinstance(cmp_.ops[0], ast.Eq):
            l, r = cmp_.left, cmp_.comparators[0]
            if isinstance(l, ast.Attribute) and isinstance(r, ast.Attribute) and l.attr == r.attr and \
                    {getattr(l.value, 'id', None), getattr(r.value, 'id', None)} == {'self', 'other'}:
                exact.add(l.attr); continue
        if isinstance(c, ast.Call) and isinstance(c.func, ast.Attribute) and c.func.attr in ('allclose', 'isclose'):
            tol |= {a.attr for a in c.args if isinstance(a, ast.Attribute)}; continue
        other.append(ast.unparse(c))
    return exact, tol, other


def structural_obligations(rep):
    for rel, cls in TYPES:
        fq = '%s::%s' % (rel, cls)
        def get(m):
            try:
                f = extract.get(rel, '%s.%s' % (cls, m)); rep.under_contract('%s.%s' % (fq, m), rel, f.l0, f.l1); return f
            except KeyError: return None
        eq, ne, hs = get('__eq__'), get('__ne__'), get('__hash__')
        # ne
        if ne is not None:
            r = _ret_expr(ne)
            txt = ast.unparse(r) if r is not None else None
            ok = txt in ('not self.__eq__(other)', 'not self == other', 'not (self == other)')
            # definite failures: a name that does not resolve (bare __eq__ -> NameError) or returning the un-negated comparison;
            # any other form is undecided, not a violation
            bad = txt is not None and not ok and (txt.startswith('not __eq__(') or txt in ('self.__eq__(other)', 'self == other'))
            rep.add(Ob('%s::ne-is-the-negation-of-eq' % cls, 'P', 'ok' if ok else ('fail' if bad else 'undecided'), 'ast-structural', 0,
                       '' if ok else '__ne__ is `%s`: not the negation of self.__eq__(other) (a bare name raises NameError; anything else can disagree with ==)' % (ast.unparse(r) if r is not None else 'multi-statement'),
                       witness=None if ok else {'replayed': False, 'signature': cls + '.__ne__'}, function=fq + '.__ne__'))
        elif eq is not None:
            rep.add(Ob('%s::ne-is-the-negation-of-eq' % cls, 'P', 'ok', 'ast-structural', 0, 'no __ne__ defined: Python derives != from ==', function=fq))
        if eq is None or hs is None: continue
        if cls == 'Cluster':
            cluster_obligations(rep, rel, fq, eq, hs); continue
        r = _ret_expr(eq)
        if r is None:
            rep.add(Ob('%s::eq-is-a-conjunction-of-exact-field-equalities' % cls, 'P', 'undecided', 'ast-structural', 0, '__eq__ is not a single return expression', function=fq + '.__eq__')); continue
        exact, tol, other = _eq_analysis(r)
        ok = not tol and not other and exact
        rep.add(Ob('%s::eq-is-a-conjunction-of-exact-field-equalities' % cls, 'P', 'ok' if ok else ('fail' if tol else 'undecided'), 'ast-structural', 0,
                   'fields compared exactly: %s' % sorted(exact) if ok else
                   'tolerance comparison of %s (np.allclose is neither symmetric nor transitive: |a-b| <= atol + rtol*|b|)%s' % (sorted(tol), '; unrecognised conjuncts %s' % other if other else ''),
                   witness=None if ok else {'replayed': False, 'signature': cls + '.__eq__:tolerance:' + ','.join(sorted(tol))}, function=fq + '.__eq__'))
        rh = _ret_expr(hs)
        hfields = _self_fields(rh) if rh is not None else None
        allfields = exact | tol
        if hfields is None:
            rep.add(Ob('%s::hash-depends-only-on-fields-compared-by-eq' % cls, 'P', 'undecided', 'ast-structural', 0, '__hash__ is not a single return expression', function=fq + '.__hash__')); continue
        uses_bytes_of_tol = sorted(hfields & tol)
        ok = hfields <= allfields and not uses_bytes_of_tol and 'hash' in ast.unparse(rh)
        rep.add(Ob('%s::hash-depends-only-on-fields-compared-by-eq' % cls, 'P', 'ok' if ok else 'fail', 'ast-structural', 0,
                   'hash reads %s' % sorted(hfields) if ok else
                   ('hash reads %s which __eq__ compares only up to a tolerance: equal values can hash differently' % uses_bytes_of_tol if uses_bytes_of_tol
                    else 'hash reads %s, not all compared by __eq__ (%s)' % (sorted(hfields), sorted(allfields))),
                   witness=None if ok else {'replayed': False, 'signature': cls + '.__hash__:' + ','.join(sorted(hfields))}, function=fq + '.__hash__'))


def cluster_obligations(rep, rel, fq, eq, hs):
    """Cluster: __eq__ compares transition/vacancy flags, Norder and the __equalitymap__ dictionaries (exact), plus the
    transition-state orientation; __hash__ returns the cached XOR of hash(r + shiftpos) over sites, where (r, shiftpos)
    are exactly the (key, member) pairs of __equalitymap__: equal maps => equal XOR.  Checked structurally."""
    src_eq = ast.unparse(eq.node)
    need = ['self.__transition__ != other.__transition__', 'self.__vacancy__ != other.__vacancy__', 'self.Norder != other.Norder',
            'self.__equalitymap__.keys() != other.__equalitymap__.keys()', 'other.__equalitymap__[k] != v']
    missing = [n for n in need if n not in src_eq]
    tol = 'allclose' in src_eq or 'isclose' in src_eq
    ok = not missing and not tol
    rep.add(Ob('Cluster::eq-compares-flags-order-and-equalitymap-exactly', 'P', 'ok' if ok else ('fail' if tol else 'undecided'), 'ast-structural', 0,
               '' if ok else 'missing exact comparisons: %s%s' % (missing, ' ; tolerance comparison present' if tol else ''),
               witness=None if ok else {'replayed': False, 'signature': 'Cluster.__eq__'}, function=fq + '.__eq__'))
    init = extract.get(rel, 'Cluster.__init__')
    src = ast.unparse(init.node)
    ok = 'hashcache ^= hash(r + shiftpos)' in src and 'self.__hashcache__ = hashcache' in src and ast.unparse(_ret_expr(hs)) == 'self.__hashcache__' \
        and 'self.__equalitymap__[r].add(shiftpos)' in src and 'self.__equalitymap__[r] = set([shiftpos])' in src
    rep.add(Ob('Cluster::hash-is-the-xor-over-the-members-of-equalitymap', 'P', 'ok' if ok else 'undecided', 'ast-structural', 0,
               '' if ok else 'the cached hash is no longer accumulated from exactly the (key, member) pairs stored in __equalitymap__',
               witness=None if ok else {'replayed': False, 'signature': 'Cluster.__hash__'}, function=fq + '.__hash__'))


# ---------------------------------------------------------------------------------------------
# B: laws on pools of real instances

def laws(acc, pool, tname, arith=None):
    """equivalence-relation, negation and hash laws on every pair / sampled triple of the pool"""
    n = len(pool)
    eqm = np.zeros((n, n), dtype=bool)
    for a in range(n):
        for b in range(n):
            x, y = pool[a], pool[b]
            try:
                e = bool(x == y); ne = bool(x != y)
            except Exception as ex:
                acc.check(False, 'comparison-raises-no-exception', '%s: %s comparing %r and %r' % (type(ex).__name__, ex, x, y), sig=(tname, 'exc')); return
            eqm[a, b] = e
            acc.check(ne == (not e), 'ne-is-the-negation-of-eq', '%r vs %r: == %s, != %s' % (x, y, e, ne), sig=(tname, 'ne'))
            if e:
                acc.check(hash(x) == hash(y), 'equal-values-have-equal-hashes', '%r == %r but hashes differ' % (x, y), sig=(tname, 'hash'), signature=tname + ':hash')
    acc.check(all(eqm[a, a] for a in range(n)), 'equality-is-reflexive', tname, sig=(tname, 'refl'))
    asym = [(a, b) for a in range(n) for b in range(n) if eqm[a, b] != eqm[b, a]]
    acc.check(not asym, 'equality-is-symmetric', '%s: e.g. %r == %r is %s but reversed is %s' % ((tname, pool[asym[0][0]], pool[asym[0][1]], eqm[asym[0]], eqm[asym[0][::-1]]) if asym else (tname, '', '', '', '')),
              sig=(tname, 'sym'), signature=tname + ':symmetry')
    intr = [(a, b, c) for a in range(n) for b in range(n) for c in range(n) if eqm[a, b] and eqm[b, c] and not eqm[a, c]]
    acc.check(not intr, 'equality-is-transitive', '%s: e.g. %r == %r == %r but first != last' % ((tname,) + tuple(pool[k] for k in intr[0]) if intr else (tname, '', '', '')),
              sig=(tname, 'trans'), signature=tname + ':transitivity')


def w_types(arg):
    kind, tier, seed = arg
    from vf.common import repo_on_path; repo_on_path()
    import warnings; warnings.filterwarnings('ignore')
    from onsager import crystal, crystalStars as stars, cluster, OnsagerCalc
    rng = np.random.default_rng(seed * 41 + 3)
    acc = Acc(kind)
    hcp = crystal.Crystal.HCP(1.)
    if kind == 'GroupOp-exact':
        # operations of real crystals and exact copies: everything must hold
        for c in (hcp, crystal.Crystal(np.eye(2), [[np.zeros(2)]])):      # one pool per crystal (operations of one crystal are what gets compared)
            G = sorted(c.G, key=lambda g: g.rot.tobytes())[:6]
            pool = G + [crystal.GroupOp(g.rot.copy(), g.trans.copy(), g.cartrot.copy(), g.indexmap) for g in G[:3]] + [g + np.ones(c.dim, dtype=int) for g in G[:2]]
            # the same operations reached through every route that constructs one: identity constructor, products with inverses,
            # shifts undone, products with the identity
            e = crystal.GroupOp.ident(c.basis)
            pool += [e] + [g * g.inv() for g in G[:3]] + [g.inv() * g for g in G[:2]] + [(g + np.ones(c.dim, dtype=int)) - np.ones(c.dim, dtype=int) for g in G[:2]] + [e * g for g in G[:2]] + [g * e for g in G[:2]]
            laws(acc, pool, 'GroupOp')
            acc.check(e in c.G and all((e * g) in c.G and (g * e) in c.G for g in G), 'operations-built-by-other-routes-are-found-in-the-group-set', '', sig='inG')
    elif kind == 'GroupOp-near-equal':
        g = sorted(hcp.G, key=lambda g: g.rot.tobytes())[3]
        mk = lambda dt: crystal.GroupOp(g.rot, g.trans + dt, g.cartrot, g.indexmap)
        pool = [mk(0.), mk(3e-9), mk(0.9e-8), mk(1.8e-8), mk(2.7e-8), mk(np.array([1000., 0, 0])), mk(np.array([1000.01000005, 0, 0]))]
        laws(acc, pool, 'GroupOp(near-equal translations)')
    elif kind == 'PairState':
        pool = []
        for (i, j) in ((0, 1), (1, 0), (0, 0)):
            for R in ([0, 0, 0], [1, 0, -1], [2, 1, 0]):
                p = stars.PairState.fromcrys_latt(hcp, 0, (i, j), np.array(R))
                pool += [p, stars.PairState(i=p.i, j=p.j, R=p.R.copy(), dx=p.dx + 1e-3)]      # dx is not part of identity
        laws(acc, pool, 'PairState')
        G = list(hcp.G)
        for t in range(40 if tier == 'quick' else 400):
            i, j, k = (int(x) for x in rng.integers(0, 2, 3))
            a = stars.PairState.fromcrys_latt(hcp, 0, (i, j), rng.integers(-2, 3, 3)); b = stars.PairState.fromcrys_latt(hcp, 0, (j, k), rng.integers(-2, 3, 3))
            b2 = stars.PairState.fromcrys_latt(hcp, 0, (k, j), rng.integers(-2, 3, 3)); a2 = stars.PairState.fromcrys_latt(hcp, 0, (i, k), rng.integers(-2, 3, 3))
            g = G[rng.integers(len(G))]
            full = lambda p, q: p == q and np.allclose(p.dx, q.dx) and p.__sane__(hcp, 0)
            acc.check(full(-(-a), a), 'double-negation', '', sig='neg')
            z = a + (-a); acc.check(z.iszero() and np.allclose(z.dx, 0), 'a-plus-minus-a-is-zero', 'dx=%r' % z.dx, sig='zero')
            acc.check(full((a - b2) + b2, a), 'subtraction-then-addition', '', sig='sub')
            acc.check(full(a2 + (a ^ a2), a) and full(a + (a2 ^ a), a2), 'endpoint-subtraction', '', sig='xor')
            acc.check(full((a + b).g(hcp, 0, g), a.g(hcp, 0, g) + b.g(hcp, 0, g)) and full((-a).g(hcp, 0, g), -(a.g(hcp, 0, g))) and
                      full((a ^ a2).g(hcp, 0, g), a.g(hcp, 0, g) ^ a2.g(hcp, 0, g)), 'arithmetic-commutes-with-symmetry', '', sig='g')
            if i != k:
                try:
                    b + a; acc.check(a.j == b.i and b.j == a.i, 'mismatched-endpoints-raise', 'no ArithmeticError', sig='err')
                except ArithmeticError: pass
            # every operation is defined exactly where documented: a - c needs equal final sites, a ^ c equal initial sites, a + c a.j == c.i;
            # where defined the result is a sane state, elsewhere ArithmeticError (a silently returned state would not be a pair state)
            l_, m_ = (int(x) for x in rng.integers(0, 2, 2))
            c_ = stars.PairState.fromcrys_latt(hcp, 0, (l_, m_), rng.integers(-2, 3, 3))
            for opname, fn_, defined in (('a-c', lambda: a - c_, a.j == c_.j), ('a^c', lambda: a ^ c_, a.i == c_.i), ('a+c', lambda: a + c_, a.j == c_.i)):
                try:
                    r_ = fn_(); raised = False
                except ArithmeticError:
                    raised = True
                acc.check(raised == (not defined) and (raised or r_.__sane__(hcp, 0)), 'operation-defined-exactly-where-documented',
                          '%s with a=(%d,%d), c=(%d,%d): %s' % (opname, a.i, a.j, c_.i, c_.j, 'raised' if raised else 'returned a state that is %ssane' % ('' if r_.__sane__(hcp, 0) else 'not ')), sig=('defd', opname, defined))
            if a.j == c_.j: acc.check(full(a - c_, a + (-c_)), 'subtraction-is-addition-of-the-negative', '', sig='subneg')
            zero = stars.PairState.zero(j, 3)
            acc.check((a + zero) == a and (stars.PairState.zero(i, 3) + a) == a, 'zero-is-a-unit', '', sig='unit')
    elif kind == 'ClusterSite+Cluster':
        CS = cluster.ClusterSite
        sites = [CS((0, i), np.array(R)) for i in (0, 1) for R in ([0, 0, 0], [1, 0, 0], [0, -1, 2])]
        laws(acc, sites + [CS((0, 0), np.array([1, 0, 0]))], 'ClusterSite')
        for s in sites:
            acc.check(-(-s) == s and (s + [1, 2, 3]) - [1, 2, 3] == s, 'clustersite-arithmetic', '', sig='csarith')
        cls = []
        for combo in itertools.combinations(sites, 2):
            cls.append(cluster.Cluster(combo)); cls.append(cluster.Cluster(combo[::-1]))
            cls.append(cluster.Cluster([cs + [1, -1, 2] for cs in combo]))
            cls.append(cluster.Cluster(combo, transition=True)); cls.append(cluster.Cluster(combo[::-1], transition=True))
            cls.append(cluster.Cluster(combo, vacancy=True))
        for combo in list(itertools.combinations(sites, 3))[:6]:
            cls.append(cluster.Cluster(combo)); cls.append(cluster.Cluster(combo[::-1])); cls.append(cluster.Cluster(combo, transition=True, vacancy=True))
            cls.append(cluster.Cluster((combo[1], combo[0], combo[2]), transition=True))
        laws(acc, cls[:60], 'Cluster')
        # translation / reordering invariance of identity
        for combo in list(itertools.combinations(sites, 3))[:8]:
            a = cluster.Cluster(combo); b = cluster.Cluster([cs + [2, 0, -1] for cs in combo[::-1]])
            acc.check(a == b and hash(a) == hash(b), 'cluster-identity-invariant-under-translation-and-reordering', '%r vs %r' % (a, b), sig='clinv')
    elif kind == 'vTK-exact':
        vt = OnsagerCalc.vacancyThermoKinetics
        mk = lambda a, b: vt(pre=np.ones(2), betaene=np.array([0., a]), preT=np.ones(3), betaeneT=np.array([1., 2., b]))
        pool = [mk(0.5, 3.), mk(0.5, 3.), mk(0.7, 3.), mk(0.5, 2.5)]
        laws(acc, pool, 'vacancyThermoKinetics')
    elif kind == 'vTK-near-equal':
        vt = OnsagerCalc.vacancyThermoKinetics
        mk = lambda a: vt(pre=np.ones(2), betaene=np.array([0., a]), preT=np.ones(3), betaeneT=np.array([1., 2., 3.]))
        pool = [mk(0.5), mk(0.5 + 1e-12), mk(0.5 + 0.9e-5), mk(0.5 + 1.8e-5), mk(1000.), mk(1000.01000005)]
        laws(acc, pool, 'vacancyThermoKinetics(near-equal energies)')
    acc.sample = {'pool': kind, 'evaluations': acc.n}
    return acc.result()
