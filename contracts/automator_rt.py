"""C30 run-time contracts for onsager.automator.supercelltar / map2string and the bundled trans.pl.
The archive is written to memory by the real function, read back with tarfile, every POSCAR is parsed by an independent
reader, and the bundled perl script is executed on the archive's own files."""
import io, json, os, re, subprocess, tarfile, tempfile, warnings
import numpy as np
from vf.rtc.runner import Acc
from contracts.setup_rt import SUPERS


def read_poscar(text):
    """independent POSCAR reader -> (title, lattice with vectors as columns, counts, direct positions)"""
    ln = text.split('\n')
    scale = float(ln[1])
    rows = np.array([[float(x) for x in ln[i].split()] for i in (2, 3, 4)]) * scale
    counts = [int(x) for x in ln[5].split()]
    assert ln[6].strip()[0] in 'Dd'
    pos = np.array([[float(x) for x in l.split()[:3]] for l in ln[7:7 + sum(counts)]]).reshape(-1, 3)
    rest = [l for l in ln[7 + sum(counts):] if l.strip()]
    return ln[0], rows.T, counts, pos, rest


def matches_supercell(text, sup, tol=1e-12):
    try:
        title, latt, counts, pos, rest = read_poscar(text)
    except Exception as ex:
        return False, 'unreadable: %s' % ex
    if rest: return False, 'trailing lines'
    if not np.allclose(latt, sup.lattice, atol=1e-12): return False, 'lattice'
    if counts != [len(c) for c in sup.chemorder]: return False, 'counts %s vs %s' % (counts, [len(c) for c in sup.chemorder])
    want = np.array([sup.pos[i] for cl in sup.chemorder for i in cl]).reshape(-1, 3)
    if pos.shape != want.shape or not np.allclose(pos, want, atol=tol): return False, 'positions'
    return True, ''


def w_tar(arg):
    cid, sname, tier, seed, kind, variant = arg
    from vf.common import repo_on_path, REPO; repo_on_path()
    from vf.rtc import catalogue
    acc = Acc('%s/%s/%s/%s' % (kind, cid, sname, variant))
    e = [f for c, f in catalogue.builders('thorough', seed) if c == cid][0]()
    crys, chem = e['crys'], e['chem']
    try:
        from onsager import automator
    except Exception as ex:       # the module under contract cannot even be imported: that is a verdict about the code, not a checker fault
        acc.check(False, 'automator-module-imports', '%s: %s' % (type(ex).__name__, ex), sig='import'); return acc.result()
    with warnings.catch_warnings():
        warnings.simplefilter('ignore')
        from onsager import OnsagerCalc, automator, supercell
        jn = crys.jumpnetwork(chem, e['cutoff'])
        calc = OnsagerCalc.Interstitial(crys, chem, crys.sitelist(chem), jn) if kind == 'interstitial' else OnsagerCalc.VacancyMediated(crys, chem, crys.sitelist(chem), jn, 1)
        sd = calc.makesupercells(SUPERS[sname].copy())
    kw = {} if variant == 'default' else dict(basedir='run7', statename='st-', transitionname='tr-', IDformat='{:03d}', KPOINTS=None, JSONdict='map.json', YAMLdef=None, timestamp=12345.)
    buf = io.BytesIO()
    with tarfile.open(fileobj=buf, mode='w') as tar:
        automator.supercelltar(tar, sd, **kw)
    buf.seek(0)
    base = (kw.get('basedir', '') + '/') if kw.get('basedir') else ''
    files, dirs, links = {}, set(), {}
    names = []
    with tarfile.open(fileobj=buf, mode='r') as tar:
        for m in tar.getmembers():
            names.append(m.name)
            acc.check(m.name.startswith(base), 'every-member-under-basedir', m.name, sig='basedir')
            nm = m.name[len(base):]
            if m.isdir(): dirs.add(nm)
            elif m.issym(): links[nm] = m.linkname
            else: files[nm] = (tar.extractfile(m).read().decode('ascii'), m.mode)
    acc.check(len(names) == len(set(names)), 'no-member-written-twice', str([n for n in names if names.count(n) > 1][:3]), sig='dup')
    jname = kw.get('JSONdict', 'tags.json')
    acc.check(jname in files, 'tag-map-file-present', jname, sig='json')
    if jname not in files: return acc.result()
    tagmap = json.loads(files[jname][0])
    states, trans, tm = sd['states'], sd['transitions'], sd['transmapping']
    # A. bijection directories <-> tags
    acc.check(set(tagmap) == dirs, 'tag-map-keys-are-exactly-the-directories', '%s vs %s' % (sorted(set(tagmap) ^ dirs)[:4], ''), sig='bij-dirs')
    acc.check(sorted(tagmap.values()) == sorted(list(states) + list(trans)), 'tag-map-values-are-exactly-the-state-and-transition-tags', '', sig='bij-tags')
    acc.check(len(set(tagmap.values())) == len(tagmap), 'tag-map-is-injective', '', sig='bij-inj')
    dirof = {v: k for k, v in tagmap.items()}
    sn, tn = kw.get('statename', 'relax.'), kw.get('transitionname', 'neb.')
    acc.check(all(dirof[t].startswith(sn) for t in states if t in dirof) and all(dirof[t].startswith(tn) for t in trans if t in dirof), 'state-and-transition-directories-carry-their-prefixes', '', sig='prefix')
    # B. POSCAR files read back to the given supercells
    if 'reference' in sd:
        ok, why = matches_supercell(files.get('POSCAR', ('', 0))[0], sd['reference'])
        acc.check(ok, 'reference-POSCAR-reads-back-to-the-reference-cell', why, sig='ref')
    for tag, s in states.items():
        d = dirof.get(tag)
        txt = files.get('%s/POSCAR' % d, ('', 0))[0]
        ok, why = matches_supercell(txt, s)
        acc.check(ok, 'state-POSCAR-reads-back-to-the-state-supercell', '%s: %s' % (tag, why), sig='spos')
        if ok:
            s2 = supercell.Supercell(s.crys, s.superlatt, interstitial=s.interstitial, Nsolute=s.Nchem - s.crys.Nchem)
            if s.Nchem > s.crys.Nchem: s2.definesolute(s.crys.Nchem, 'solute')
            try:
                s2.POSCAR_occ(txt); ok2 = bool(np.array_equal(s2.occ, s.occ)) and s2.chemorder == s.chemorder
            except Exception as ex:
                ok2 = False
            acc.check(ok2, 'state-POSCAR-loads-into-an-equal-supercell', tag, sig='sposload')
        acc.check(('SYSTEM = ' + tag) in files.get('%s/INCAR' % d, ('', 0))[0], 'directory-INCAR-names-its-tag', tag, sig='incar')
        acc.check(links.get('%s/POTCAR' % d) == '../POTCAR' and ((kw.get('KPOINTS', 1) is None) == ('%s/KPOINTS' % d not in links)), 'directory-links', tag, sig='links')
    rules = {}
    mk = files.get('Makefile', ('', 0))[0]
    for line in mk.split('\n'):
        m = re.match(r'^(\S+/POSCAR\.(init|final)):\s+(.*)$', line)
        if m and '%' not in line: rules[m.group(1)] = m.group(3).split()
    for x in ('trans.pl', 'nebmake.pl'):
        acc.check(x in files and files[x][1] & 0o100, 'bundled-script-present-and-executable', x, sig='scripts')
    acc.check('Vasp.pm' in files and 'INCAR.relax' in files and 'INCAR.NEB' in files, 'bundled-common-files-present', '', sig='common')
    with open(os.path.join(REPO, 'onsager', 'trans.pl')) as f:
        acc.check(files.get('trans.pl', ('', 0))[0] == f.read(), 'bundled-trans.pl-is-the-package-script', '', sig='transpl')
    needs = {}
    with tempfile.TemporaryDirectory(prefix='vf-c30-') as tmp:
        open(tmp + '/trans.pl', 'w').write(files.get('trans.pl', ('', 0))[0])
        for tag, (s0, s1) in trans.items():
            d = dirof.get(tag)
            acc.check(('SYSTEM = ' + tag) in files.get('%s/INCAR' % d, ('', 0))[0], 'directory-INCAR-names-its-tag', tag, sig='incar')
            for s, t, ent in ((s0, 'init', tm[tag][0]), (s1, 'final', tm[tag][1])):
                have_pos, have_poscar = '%s/POS.%s' % (d, t) in files, '%s/POSCAR.%s' % (d, t) in files
                target = '%s/POSCAR.%s' % (d, t)
                if ent is None:
                    acc.check(have_poscar and not have_pos and target not in rules, 'unmapped-endpoint-ships-as-POSCAR-with-no-rule', '%s %s' % (tag, t), sig='unmapped')
                    ok, why = matches_supercell(files.get(target, ('', 0))[0], s)
                    acc.check(ok, 'endpoint-POSCAR-reads-back-to-the-endpoint-supercell', '%s %s: %s' % (tag, t, why), sig='epos')
                    continue
                acc.check(have_pos and not have_poscar, 'mapped-endpoint-ships-as-reference-POS-only', '%s %s' % (tag, t), sig='mapped')
                ok, why = matches_supercell(files.get('%s/POS.%s' % (d, t), ('', 0))[0], s)
                acc.check(ok, 'endpoint-POSCAR-reads-back-to-the-endpoint-supercell', '%s %s: %s' % (tag, t, why), sig='epos')
                # D. the Makefile rule for the endpoint names files that exist or that the relaxation produces
                deps = rules.get(target)
                rd = dirof.get(ent[0])
                acc.check(deps is not None and deps == ['%s/trans.%s' % (d, t), '%s/CONTCAR' % rd], 'makefile-rule-builds-the-endpoint-from-its-transformation-and-relaxed-state', '%s %s: %s' % (tag, t, deps), sig='rule')
                if deps is None: continue
                for dep in deps:
                    okd = dep in files or (dep.endswith('/CONTCAR') and dep[:-8] in dirs and tagmap.get(dep[:-8]) in states)
                    acc.check(okd, 'makefile-dependency-exists-or-is-produced-by-a-relaxation', dep, sig='dep')
                needs.setdefault(rd, set()).add(d)
                # C. run the bundled script on the state's own structure: it must reproduce the endpoint
                tf = files.get('%s/trans.%s' % (d, t), ('', 0))[0]
                acc.check(tf.split('\n')[0] == rd, 'transformation-file-names-the-state-directory', tf.split('\n')[0], sig='transhead')
                spos = files.get('%s/POSCAR' % rd, ('', 0))[0]
                open(tmp + '/trans', 'w').write(tf); open(tmp + '/CONTCAR', 'w').write(spos)
                r = subprocess.run(['perl', tmp + '/trans.pl', tmp + '/trans', tmp + '/CONTCAR'], capture_output=True, text=True, timeout=60)
                okr = r.returncode == 0 and not r.stderr.strip()
                if okr:
                    try:
                        _, latt, counts, pos, rest = read_poscar(r.stdout)
                        want = np.array([s.pos[i] for cl in s.chemorder for i in cl]).reshape(-1, 3)
                        dlt = pos - want; dlt -= np.round(dlt)
                        okr = np.allclose(latt, s.lattice, atol=1e-12) and counts == [len(c) for c in s.chemorder] and pos.shape == want.shape and np.abs(dlt).max() < 1e-9 and not rest   # modulo the cell: the script wraps at most once
                    except Exception as ex:
                        okr = False
                acc.check(okr, 'bundled-script-on-the-state-structure-reproduces-the-endpoint', '%s %s %s' % (tag, t, r.stderr[:100]), sig=('perl', t))
    # E. NEBlist per relaxed state
    for rd in dirs:
        if tagmap.get(rd) in states:
            want = '\n'.join(sorted(needs.get(rd, ()))) + '\n' if needs.get(rd) else None
            got = files.get(rd + '/NEBlist', (None, 0))[0]
            acc.check(got == want, 'NEBlist-names-exactly-the-transitions-built-from-the-state', rd, sig='neblist')
    # every rule in the Makefile belongs to a transition endpoint that is mapped
    acc.check(set(rules) == {'%s/POSCAR.%s' % (dirof[tag], t) for tag in trans for t, ent in zip(('init', 'final'), tm[tag]) if ent is not None}, 'makefile-rules-are-exactly-the-mapped-endpoints', '', sig='rules')
    acc.sample = {'calculator': kind, 'crystal': cid, 'supercell': sname, 'members': len(names), 'states': len(states), 'transitions': len(trans)}
    return acc.result()


def w_map2string(arg):
    """map2string against its documented layout, on group operations / mappings of real supercells plus seeded permutations"""
    tier, seed = arg
    from vf.common import repo_on_path; repo_on_path()
    acc = Acc('map2string')
    try:
        from onsager import automator, crystal
    except Exception as ex:
        acc.check(False, 'automator-module-imports', '%s: %s' % (type(ex).__name__, ex), sig='import'); return acc.result()
    rng = np.random.default_rng(seed)
    for trial in range(40 if tier == 'quick' else 400):
        rot = rng.integers(-3, 4, size=(3, 3)); trans = rng.uniform(-1, 1, 3)
        g = crystal.GroupOp(rot, trans, np.eye(3), ((),))
        mapping = [list(rng.permutation(int(n))) for n in rng.integers(0, 6, size=int(rng.integers(1, 4)))]
        s = automator.map2string('relax.%02d' % trial, g, mapping)
        ln = s.split('\n')
        ok = s.endswith('\n') and len(ln) == 7 and ln[0] == 'relax.%02d' % trial
        if ok:
            R = np.array([[int(x) for x in ln[i].split()] for i in (1, 2, 3)])
            t = np.array([float(x) for x in ln[4].split()])
            flat = [int(x) for x in ln[5].split()]
            shift, want = 0, []
            for m in mapping:
                want += [int(i) + shift for i in m]; shift += len(m)
            ok = np.array_equal(R, rot) and np.allclose(t, trans, atol=1e-15) and flat == want and sorted(flat) == list(range(len(flat)))
        acc.check(ok, 'map2string-layout-tag-rot-trans-flat-permutation', repr(s)[:120], sig='layout')
    return acc.result()
